#!/usr/bin/env python3
"""Development aid for C06 / C12 (not a registered command): apply a named mutant to a scratch worktree of /repo,
run one check against it, revert.

  git -C /repo worktree add --detach /var/tmp/vw/deps-repo HEAD      (or set MUT_REPO / MUT_VERIF)
  python3 notes/C12_mutants.py <mutant> <C06|C12> [--replay file]
  git -C /repo worktree remove --force /var/tmp/vw/deps-repo

The tp_* mutants copy taskiq_dependencies into the scratch repo (it then shadows the installed one through VERIF_REPO,
which is first on the driver's PYTHONPATH) and patch the copy."""
import subprocess, sys, os, shutil
REPO=os.environ.get("MUT_REPO", "/var/tmp/vw/deps-repo")
VERIF=os.environ.get("MUT_VERIF", os.path.dirname(os.path.dirname(os.path.abspath(__file__))))
RP=REPO+"/taskiq/receiver/receiver.py"
def sub(path, old, new, count=1):
    s=open(path).read()
    assert s.count(old)>=1, ("pattern not found", old)
    s=s.replace(old,new,count)
    open(path,"w").write(s)
def third_party():
    dst=REPO+"/taskiq_dependencies"
    if not os.path.exists(dst):
        shutil.copytree("/venv/lib/python3.12/site-packages/taskiq_dependencies", dst, ignore=shutil.ignore_patterns("__pycache__"))
    return dst+"/ctx.py"
CLOSE_BLOCK='''        if dep_ctx:
            args = (None, None, None)
            if found_exception and self.propagate_exceptions:
                args = (  # type: ignore
                    type(found_exception),
                    found_exception,
                    found_exception.__traceback__,
                )
            await dep_ctx.close(*args)
'''
M={}
def m(f): M[f.__name__]=f; return f
@m
def d2_revert(): sub(RP,"broker_ctx.copy(),","broker_ctx,")
@m
def write_after():
    sub(RP,'''            broker_ctx.update(
                {
                    Context: Context(message, self.broker),
                    TaskiqState: self.broker.state,
                },
            )
''','')
    sub(RP,'''                self.broker.dependency_overrides or None,
            )
''','''                self.broker.dependency_overrides or None,
            )
            broker_ctx.update(
                {
                    Context: Context(message, self.broker),
                    TaskiqState: self.broker.state,
                },
            )
''')
@m
def m13_propagate_ignored(): sub(RP,"if found_exception and self.propagate_exceptions:","if found_exception:")
@m
def propagate_never(): sub(RP,"if found_exception and self.propagate_exceptions:","if False:")
@m
def close_end_of_run_task():
    sub(RP,CLOSE_BLOCK,'')
    sub(RP,"        return result\n", CLOSE_BLOCK+"        return result\n")
@m
def close_after_ack():
    sub(RP,CLOSE_BLOCK,'''        if dep_ctx:
            args = (None, None, None)
            if found_exception and self.propagate_exceptions:
                args = (  # type: ignore
                    type(found_exception),
                    found_exception,
                    found_exception.__traceback__,
                )
            if not hasattr(self, "_closers"):
                self._closers = {}
            self._closers[id(message)] = (dep_ctx, args)
''')
    sub(RP,'''        for middleware in self.broker.middlewares:
            if middleware.__class__.post_execute != TaskiqMiddleware.post_execute:''','''        _c = getattr(self, "_closers", {}).pop(id(taskiq_msg), None)
        if _c:
            await _c[0].close(*_c[1])
        for middleware in self.broker.middlewares:
            if middleware.__class__.post_execute != TaskiqMiddleware.post_execute:''')
@m
def close_after_save():
    sub(RP,CLOSE_BLOCK,'''        if dep_ctx:
            args = (None, None, None)
            if found_exception and self.propagate_exceptions:
                args = (  # type: ignore
                    type(found_exception),
                    found_exception,
                    found_exception.__traceback__,
                )
            if not hasattr(self, "_closers"):
                self._closers = {}
            self._closers[id(message)] = (dep_ctx, args)
''')
    sub(RP,'''        if self.ack_time == AcknowledgeType.WHEN_SAVED and isinstance(''','''        _c = getattr(self, "_closers", {}).pop(id(taskiq_msg), None)
        if _c:
            await _c[0].close(*_c[1])
        if self.ack_time == AcknowledgeType.WHEN_SAVED and isinstance(''')
@m
def close_twice(): sub(RP,"            await dep_ctx.close(*args)\n","            await dep_ctx.close(*args)\n            await dep_ctx.close(*args)\n")
@m
def no_close_on_error(): sub(RP,"        if dep_ctx:\n            args = (None, None, None)","        if dep_ctx and found_exception is None:\n            args = (None, None, None)")
@m
def resolve_outside_try():
    sub(RP,'''        try:
            # We put kwargs resolving here,
            # to be able to catch any exception (for example ),
            # that happen while resolving dependencies.
            if dep_ctx:
                kwargs = await dep_ctx.resolve_kwargs()
''','''        if dep_ctx:
            kwargs = await dep_ctx.resolve_kwargs()
        try:
''')
@m
def close_before_body():
    # close as soon as kwargs are resolved (before the task function runs)
    sub(RP,"            kwargs.update(message.kwargs)\n","            kwargs.update(message.kwargs)\n            if dep_ctx:\n                await dep_ctx.close(None, None, None)\n                dep_ctx = None\n")
@m
def tp_forward_order():
    p=third_party(); s=open(p).read(); assert s.count("for dep in reversed(self.opened_dependencies):")==2
    open(p,"w").write(s.replace("for dep in reversed(self.opened_dependencies):","for dep in self.opened_dependencies:"))
@m
def tp_subs_reversed_after_own():
    # a *repair* of D6: own dependencies reversed first, then sub-contexts in reverse creation order
    p=third_party(); s=open(p).read()
    s=s.replace('''        for ctx in self.sub_contexts:
            await ctx.close(*args)  # type: ignore
''','')
    a=s.index("    async def resolver(")
    s=s[:a]+'''        for ctx in reversed(self.sub_contexts):
            await ctx.close(*args)  # type: ignore

'''+s[a:]
    open(p,"w").write(s)
@m
def harmless_dict_copy(): sub(RP,"broker_ctx.copy(),","dict(broker_ctx),")
@m
def harmless_result_first():
    # close after the TaskiqResult object is built but before on_error: not observable
    sub(RP,CLOSE_BLOCK,'')
    sub(RP,"        # If exception is found we execute middlewares.\n", CLOSE_BLOCK+"        # If exception is found we execute middlewares.\n")
@m
def propagate_via_ctx_flag():
    # hand the flag to the resolver instead of filtering the exc-info: context managers still get the exception
    sub(RP,"if found_exception and self.propagate_exceptions:","if found_exception:")
    sub(RP,"                self.broker.dependency_overrides or None,\n            )","                self.broker.dependency_overrides or None,\n                self.propagate_exceptions,\n            )")
@m
def seeded_c06_1(): sub(RP,"broker_ctx.copy(),","broker_ctx.copy() if dependency_graph.subgraphs else broker_ctx,")
@m
def none(): pass

def main():
    name, pid = sys.argv[1], sys.argv[2]
    extra = sys.argv[3:]
    subprocess.run(["git","-C",REPO,"checkout","--","."],check=True)
    shutil.rmtree(REPO+"/taskiq_dependencies",ignore_errors=True)
    M[name]()
    env=dict(os.environ, VERIF_REPO=REPO)
    p=subprocess.run(["./check",pid]+extra,cwd=VERIF,env=env,stdout=subprocess.PIPE,stderr=subprocess.STDOUT,text=True)
    out=p.stdout.strip().splitlines()
    print("=== mutant %s on %s: exit %d" % (name,pid,p.returncode))
    for l in out[-8:]: print("   ",l[:300])
    subprocess.run(["git","-C",REPO,"checkout","--","."],check=True)
    shutil.rmtree(REPO+"/taskiq_dependencies",ignore_errors=True)
main()
