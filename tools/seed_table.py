#!/usr/bin/env python3
"""tools/seed_table.py - regenerate the 'which check catches which seeded change' table of DESIGN.md (section 11.5)
from seeded/*/*/meta.json (the `confirmed` block written by tools/verify_seed.py)."""
import glob
import json
import os
import re

HERE = os.path.dirname(os.path.dirname(os.path.abspath(__file__)))
rows = []
for d in sorted(glob.glob(os.path.join(HERE, "seeded", "*", "*")), key=lambda p: (p.split("/")[-2], int(p.split("/")[-1]))):
    m = json.load(open(os.path.join(d, "meta.json")))
    c = m.get("confirmed", {})
    lines = [l for v in c.get("checks", {}).values() for l in v["lines"]]
    broke = sorted({re.sub(r":? ?\d+ differing.*", "", l.strip()[len("BROKEN obligation "):])[:60] for l in lines if l.strip().startswith("BROKEN")})
    verdict = "VIOLATION with a real replay" if c.get("real_replay") else \
        ("VIOLATION no-failing-input-found" if c.get("detected") else "**missed**")
    if m.get("obsoleted"):
        verdict += " (at the commit it was made for; obsoleted since: a later repair of /repo neutralises the change - see meta.json)"
    if m["property"] == "C17" and os.path.basename(d) == "10" and not c.get("real_replay"):
        verdict += " by C17's own check; `./check C18` reports it with a real replay"
    summ = " ".join(m["summary"].split())
    rows.append("| %s/%s | %s | %s | %s |" % (m["property"], os.path.basename(d), summ[:230] + ("..." if len(summ) > 230 else ""),
                                             verdict, "; ".join(broke) or "direct oracle on the implementation"))
table = "| seeded change | what was changed | verdict of `./check <ID>` (quick, seed 1) | obligations that broke besides the oracle |\n|---|---|---|---|\n" + "\n".join(rows)
p = os.path.join(HERE, "DESIGN.md")
s = open(p).read()
a, b = "<!-- SEED-TABLE-BEGIN -->", "<!-- SEED-TABLE-END -->"
if a in s:
    s = s[:s.index(a) + len(a)] + "\n" + table + "\n" + s[s.index(b):]
    open(p, "w").write(s)
    print("DESIGN.md table updated: %d rows" % len(rows))
else:
    print(table)
