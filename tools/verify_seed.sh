#!/bin/bash
# usage: tools/verify_seed.sh <dir with patch.diff demo meta.json> [check ids...]
# Confirms a seeded change in a scratch worktree of /repo (never in /repo itself):
#   clean copy: demo passes; with patch: existing suite still 146 passed, demo fails;
# then runs the given checks against the patched copy (VERIF_REPO) and prints their verdict lines.
set -u
D=$(readlink -f "$1"); shift
W=/var/tmp/seedverify/$(basename $(dirname $D))-$(basename $D)-$$
mkdir -p /var/tmp/seedverify
git -C /repo worktree add -q --detach $W HEAD || exit 2
trap 'git -C /repo worktree remove --force $W >/dev/null 2>&1' EXIT
DEMO=$(python3 -c "import json,sys;print(json.load(open('$D/meta.json'))['demo_cmd'])" 2>/dev/null)
cp $D/*.py $W/ 2>/dev/null
rundemo() { (cd $W && PYTHONPATH=$W PYTHONDONTWRITEBYTECODE=1 PYTHONHASHSEED=0 timeout 600 bash -c "${DEMO//python /\/venv\/bin\/python }" >$W/.demo.out 2>&1; echo $?); }
echo "demo_cmd: $DEMO"
R0=$(rundemo); echo "demo on clean copy: rc=$R0"
(cd $W && git apply $D/patch.diff) || { echo "PATCH DOES NOT APPLY"; exit 3; }
S=$(cd $W && PYTHONPATH=$W PYTHONDONTWRITEBYTECODE=1 timeout 1200 /venv/bin/python -m pytest -q -p no:cacheprovider --timeout=900 --continue-on-collection-errors 2>&1 | tail -1)
echo "suite with patch: $S"
R1=$(rundemo); echo "demo on patched copy: rc=$R1"; tail -3 $W/.demo.out
for id in "$@"; do
  echo "--- check $id on patched copy"
  (cd /verif && VERIF_REPO=$W ./check $id 2>&1 | grep -E "VIOLATION|KNOWN-FINDING|tier=" | cut -c1-300)
done
