#!/venv/bin/python
"""tools/verify_seed.py <dir with patch.diff, demo*.py, meta.json> [--keep] [--checks C01,C05] [--seeds 1]

Confirms a seeded change in a scratch worktree of /repo (never in /repo itself): on the clean copy the demo
passes; with the patch the existing suite still gives 146 passed and the demo fails. Then runs the named checks
(default: the property in meta.json) against the patched copy (VERIF_REPO) and records their verdict lines.
With --keep the change is stored as /verif/seeded/<property>/<k>/ with a `confirmed` block in meta.json.
(VERIF_CHECK_HOME: run the checks from another checkout of /verif - a scratch git worktree - while /verif itself is busy.)"""
import json, os, shutil, subprocess, sys, glob

def sh(cmd, cwd=None, env=None, timeout=1800):
    p = subprocess.run(cmd, shell=True, cwd=cwd, env=env, stdout=subprocess.PIPE, stderr=subprocess.STDOUT, text=True, timeout=timeout)
    return p.returncode, p.stdout

def main():
    d = os.path.abspath(sys.argv[1]); keep = "--keep" in sys.argv
    meta = json.load(open(os.path.join(d, "meta.json")))
    pid = meta["property"]
    checks = [pid]
    if "--checks" in sys.argv: checks = [c for c in sys.argv[sys.argv.index("--checks") + 1].split(",") if c]
    if "--nochecks" in sys.argv: checks = []
    seeds = ["1"]
    if "--seeds" in sys.argv: seeds = sys.argv[sys.argv.index("--seeds") + 1].split(",")
    w = "/var/tmp/seedverify/%s-%s-%d" % (pid, os.path.basename(d), os.getpid())
    os.makedirs("/var/tmp/seedverify", exist_ok=True)
    sh("git -C /repo worktree add -q --detach %s HEAD" % w)
    try:
        env = dict(os.environ, PYTHONPATH=w, PYTHONDONTWRITEBYTECODE="1", PYTHONHASHSEED="0", PWD=w)
        demo = meta["demo_cmd"].replace(os.path.dirname(d) + "/" + os.path.basename(d), d)
        src = meta.get("_orig_dir")
        if src: demo = demo.replace(src, d)
        r0, o0 = sh(demo, cwd=w, env=env, timeout=900)
        ra, oa = sh("git apply %s/patch.diff" % d, cwd=w)
        if ra != 0:
            print("PATCH DOES NOT APPLY", oa); return 2
        rs, os_ = sh("/venv/bin/python -m pytest -q -p no:cacheprovider --timeout=900 --continue-on-collection-errors 2>&1 | tail -1", cwd=w, env=env)
        r1, o1 = sh(demo, cwd=w, env=env, timeout=900)
        print("demo clean rc=%d | suite with patch: %s | demo patched rc=%d" % (r0, os_.strip(), r1))
        print("  demo says:", " / ".join(o1.strip().splitlines()[-2:])[:300])
        verdicts = {}
        for c in checks:
            for sd in seeds:
                rc, out = sh("./check %s" % c, cwd=os.environ.get("VERIF_CHECK_HOME", "/verif"), env=dict(os.environ, VERIF_REPO=w, VERIF_SEED=sd, VERIF_EVIDENCE_DIR="/var/tmp/seedverify/evidence"), timeout=3000)
                lines = [l[:260] for l in out.splitlines() if l.startswith(("VIOLATION", "KNOWN-FINDING")) or " tier=" in l or "BROKEN" in l]
                verdicts["%s/seed%s" % (c, sd)] = dict(rc=rc, lines=lines[:6])
                print("  check %s seed %s: rc=%d %s" % (c, sd, rc, " | ".join(lines[:3])[:400]))
        ok = r0 == 0 and r1 != 0 and "146 passed" in os_
        detected = any(v["rc"] == 1 and any(l.startswith("VIOLATION") for l in v["lines"]) for v in verdicts.values())
        real = any(any(l.startswith("VIOLATION") and "no-failing-input-found" not in l for l in v["lines"]) for v in verdicts.values())
        print("CONFIRMED" if ok else "NOT CONFIRMED", "| detected" if detected else "| MISSED", "(real replay)" if real else "")
        if keep and ok:
            k = os.path.basename(d)
            dst = "/verif/seeded/%s/%s" % (pid, k)
            os.makedirs(dst, exist_ok=True)
            for f in glob.glob(d + "/*"):
                if os.path.isfile(f) and not f.endswith("meta.json") and os.path.abspath(os.path.dirname(f)) != dst: shutil.copy(f, dst)
            meta["_orig_dir"] = meta.get("_orig_dir") or d
            meta["demo_cmd"] = meta["demo_cmd"].replace(meta["_orig_dir"], dst)
            meta["confirmed"] = dict(by="tools/verify_seed.py in a scratch worktree of /repo", demo_clean_rc=r0, suite_with_patch=os_.strip(),
                                     demo_patched_rc=r1, checks=verdicts, detected=detected, real_replay=real)
            json.dump(meta, open(dst + "/meta.json", "w"), indent=1)
        return 0
    finally:
        sh("git -C /repo worktree remove --force %s" % w)

sys.exit(main())
