import asyncio, logging, sys
logging.disable(logging.CRITICAL)
from datetime import datetime, timedelta, timezone
import pytz
from vloop import VLoop
import taskiq.cli.scheduler.run as run
from taskiq.abc.broker import AsyncBroker
from taskiq.abc.schedule_source import ScheduleSource
from taskiq.scheduler.scheduled_task import ScheduledTask
from taskiq.scheduler.scheduler import TaskiqScheduler

loop = VLoop(); asyncio.set_event_loop(loop)
EPOCH = datetime(2024,3,10,0,0,0, tzinfo=timezone.utc)
START_US = int(float(sys.argv[1])*1_000_000)
class VDT(datetime):
    @classmethod
    def now(cls, tz=None):
        t = EPOCH + timedelta(microseconds=loop._vt_us + START_US)
        if tz is None: return t.replace(tzinfo=None)  # local == UTC
        return t.astimezone(tz)
    @classmethod
    def utcnow(cls): return cls.now()
run.datetime = VDT
KICKS=[]
class B(AsyncBroker):
    async def kick(self, m): KICKS.append((VDT.now().time().isoformat(), m.task_name, m.labels.get("schedule_id")))
    async def listen(self):
        yield b""
class Src(ScheduleSource):
    def __init__(self, scheds): self.s = scheds; self.polls=[]
    async def get_schedules(self):
        self.polls.append(VDT.now().time().isoformat()); return list(self.s)
    def post_send(self, task):
        if task.time: self.s = [x for x in self.s if x.schedule_id != task.schedule_id]
br = B()
T = EPOCH.replace(tzinfo=None) + timedelta(seconds=float(sys.argv[2]))
src = Src([ScheduledTask(task_name="one", labels={}, args=[], kwargs={}, time=T, schedule_id="S1"),
           ScheduledTask(task_name="cr", labels={}, args=[], kwargs={}, cron="*/2 * * * *", schedule_id="C1")])
sch = TaskiqScheduler(br, [src])
async def main():
    t = asyncio.ensure_future(run.run_scheduler_loop(sch))
    await asyncio.sleep(300)
    t.cancel()
loop.run_until_complete(main())
print("polls", src.polls)
print("kicks", KICKS)
