import random, datetime as dt, zoneinfo, os
import pytz
import taskiq.cli.scheduler.run as run
from taskiq.scheduler.scheduled_task import ScheduledTask
NOW=[None]
class VDT(dt.datetime):
    @classmethod
    def now(cls, tz=None):
        return NOW[0].astimezone(tz) if tz else NOW[0].replace(tzinfo=None)
run.datetime = VDT
rnd = random.Random(7)
US=10**6
def civil(days):
    z = days + 719468; era = z // 146097; doe = z - era*146097
    yoe = (doe - doe//1460 + doe//36524 - doe//146096)//365; y = yoe + era*400
    doy = doe - (365*yoe + yoe//4 - yoe//100); mp = (5*doy+2)//153
    d = doy - (153*mp+2)//5 + 1; m = mp+3 if mp < 10 else mp-9
    return (y+1 if m<=2 else y, m, d)
def fields(us):
    mins = us // (60*US); days = mins // 1440; mod = mins % 1440
    y,m,d = civil(days); return (mod%60, mod//60, d, m, (days+4)%7)
def gen_field(lo, hi):
    k = rnd.random()
    if k < .3: return ("star",)
    if k < .45: return ("starstep", rnd.randint(1, hi))
    items=[]
    for _ in range(rnd.randint(1,3)):
        a = rnd.randint(lo,hi); b = rnd.randint(a,hi)
        c = rnd.random()
        items.append(("num",a) if c<.5 else ("range",a,b) if c<.8 else ("rs",a,b,rnd.randint(1,hi)))
    return ("items", items)
def render(f):
    if f[0]=="star": return "*"
    if f[0]=="starstep": return f"*/{f[1]}"
    return ",".join(str(i[1]) if i[0]=="num" else f"{i[1]}-{i[2]}" if i[0]=="range" else f"{i[1]}-{i[2]}/{i[3]}" for i in f[1])
def mf(f, v, lo):
    if f[0]=="star": return True
    if f[0]=="starstep": return (v-lo) % f[1] == 0
    return any((i[0]=="num" and v==i[1]) or (i[0]=="range" and i[1]<=v<=i[2]) or (i[0]=="rs" and i[1]<=v<=i[2] and (v-i[1])%i[3]==0) for i in f[1])
def star(f): return f[0] in ("star","starstep")
def matches(e, fl):
    mi,h,dom,mon,dow = e
    day = (mf(dom,fl[2],1) or mf(dow,fl[4],0)) if (not star(dom) and not star(dow)) else (mf(dom,fl[2],1) and mf(dow,fl[4],0))
    return mf(mi,fl[0],0) and mf(h,fl[1],0) and mf(mon,fl[3],1) and day
zones = ["Europe/Berlin","America/New_York","Asia/Kolkata","Asia/Kathmandu","Australia/Lord_Howe","America/St_Johns","Africa/Casablanca","Pacific/Chatham"]
pz = os.path.join(os.path.dirname(pytz.__file__), "zoneinfo")
ZI = {z: zoneinfo.ZoneInfo.from_file(open(os.path.join(pz, z),"rb"), key=z) for z in zones}
EP = dt.datetime(1970,1,1,tzinfo=dt.timezone.utc)
bad=0; due=0; N=20000
for _ in range(N):
    e = (gen_field(0,59), gen_field(0,23), gen_field(1,31), gen_field(1,12), gen_field(0,6))
    if rnd.random()<.5: e = (e[0], e[1], ("star",), ("star",), e[4]) if rnd.random()<.5 else (("star",),("star",),e[2],("star",),("star",))
    us = rnd.randrange(int(dt.datetime(2015,1,1,tzinfo=dt.timezone.utc).timestamp())*US, int(dt.datetime(2035,1,1,tzinfo=dt.timezone.utc).timestamp())*US)
    NOW[0] = EP + dt.timedelta(microseconds=us)
    k = rnd.random()
    if k<.3: off=None; sh=0
    elif k<.65:
        sec = rnd.randrange(-26*3600*US, 26*3600*US); off = dt.timedelta(microseconds=sec); sh=sec
    else:
        z = rnd.choice(zones); off=z; sh = int(NOW[0].astimezone(ZI[z]).utcoffset().total_seconds())*US
    t = ScheduledTask(task_name="t", labels={}, args=[], kwargs={}, cron=" ".join(render(f) for f in e), cron_offset=off)
    got = run.get_task_delay(t)
    exp = 0 if matches(e, fields(us+sh)) else None
    due += exp==0
    if got != exp:
        bad+=1
        if bad<6: print("DIFF", t.cron, off, NOW[0], got, exp)
print("cron cases", N, "due", due, "bad", bad)
# C14
bad=0
for _ in range(200000):
    us = rnd.randrange(1_700_000_000*US, 1_800_000_000*US)
    k = rnd.random()
    if k<.4: T = us + rnd.choice([-1,0,1, US, US-1, US+1, 59*US, 61*US]) + rnd.randrange(-3,4)
    elif k<.7:
        b = (us // (60*US) + 1)*60*US; T = b + US + rnd.randrange(-3,4)
    else: T = us + rnd.randrange(-2*86400*US, 2*86400*US)
    NOW[0] = EP + dt.timedelta(microseconds=us)
    tt = EP + dt.timedelta(microseconds=T)
    c = rnd.random()
    if c<.3: tt = tt.replace(tzinfo=None)
    elif c<.6: tt = tt.astimezone(dt.timezone(dt.timedelta(hours=rnd.randint(-12,14), minutes=rnd.choice([0,30,45]))))
    elif c<.8: tt = tt.astimezone(pytz.timezone(rnd.choice(zones)))
    got = run.get_task_delay(ScheduledTask(task_name="t", labels={}, args=[], kwargs={}, time=tt))
    hor = (us + 60*US)//(60*US)*(60*US) + US
    exp = 0 if T<=us else (-(-(T-us)//US) if T<=hor else None)
    if got != exp:
        bad+=1
        if bad<6: print("DIFF14", us, T, got, exp)
print("time cases bad", bad)
