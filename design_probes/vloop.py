import asyncio, heapq, selectors

class VLoop(asyncio.SelectorEventLoop):
    """Deterministic virtual-time loop: time is integer microseconds; when idle jump to next timer."""
    def __init__(self):
        super().__init__(selectors.SelectSelector())
        self._vt_us = 0
        real_select = self._selector.select
        loop = self
        def select(timeout=None):
            # never block in real time; if timers pending and nothing ready, jump the clock
            ev = real_select(0)
            if ev: return ev
            if not loop._ready and loop._scheduled:
                when = loop._scheduled[0]._when
                us = int(-(-when*1_000_000 // 1))  # ceil
                if us > loop._vt_us: loop._vt_us = us
            return ev
        self._selector.select = select
    def time(self):
        return self._vt_us / 1_000_000
