import asyncio, sys, logging, random, collections
logging.disable(logging.CRITICAL)
from vloop import VLoop
from taskiq import TaskiqMiddleware
from taskiq.abc.broker import AsyncBroker
from taskiq.abc.result_backend import AsyncResultBackend
from taskiq.receiver import Receiver
from taskiq.message import TaskiqMessage
from taskiq.exceptions import NoResultError
rnd = random.Random(int(sys.argv[1]))
class RB(AsyncResultBackend):
    def __init__(self, failset): self.failset=failset
    async def set_result(self, tid, r):
        if tid in self.failset: raise RuntimeError("down")
    async def is_result_ready(self, t): return True
    async def get_result(self, t, with_logs=False): return None
def run_scenario(sc):
    LOG=[]
    loop = VLoop(); asyncio.set_event_loop(loop)
    class B(AsyncBroker):
        async def kick(self, m): pass
        async def listen(self):
            for t, mid, data in sc["msgs"]:
                d = t - loop.time()
                if d > 0: await asyncio.sleep(d)
                LOG.append((loop.time(), "take", mid)); yield data
            await asyncio.sleep(10**7)
    br = B(); br.result_backend = RB(sc["backend_fail"])
    class HookFail(TaskiqMiddleware):
        def pre_execute(self, m):
            if m.task_id in sc["pre_fail"]: LOG.append((loop.time(),"hookfail",m.task_id)); raise RuntimeError("hook")
            return m
        def post_execute(self, m, r):
            if m.task_id in sc["post_fail"]: LOG.append((loop.time(),"hookfail",m.task_id)); raise RuntimeError("hook")
    br.add_middlewares(HookFail())
    @br.task(task_name="t")
    async def t(mid: str, d: float, o: str):
        LOG.append((loop.time(), "start", mid))
        try:
            await asyncio.sleep(d)
            if o == "raise": raise ValueError()
            if o == "nores": raise NoResultError()
        finally: LOG.append((loop.time(), "end", mid))
    msgs=[]
    for (at, mid, kind, d, o) in sc["spec"]:
        if kind=="bad": data=b"garbage"
        else:
            m = TaskiqMessage(task_id=mid, task_name="t" if kind=="ok" else "unknown", labels={}, args=[mid, d, o], kwargs={})
            data = br.formatter.dumps(m).message
        msgs.append((at, mid, data))
    sc["msgs"]=msgs
    async def main():
        r = Receiver(br, max_async_tasks=sc["A"], max_prefetch=sc["P"], max_tasks_to_execute=sc["N"], run_startup=False, wait_tasks_timeout=sc["wtt"])
        ev = asyncio.Event()
        if sc["stop"] is not None: loop.call_later(sc["stop"], lambda: (LOG.append((loop.time(),"stop")), ev.set()))
        try:
            await asyncio.wait_for(r.listen(ev), sc["horizon"]); LOG.append((loop.time(),"return"))
        except asyncio.TimeoutError: LOG.append((loop.time(),"cut"))
    loop.run_until_complete(main()); loop.close()
    return LOG
def gen():
    n = rnd.randint(1,12); A = rnd.choice([1,1,2,3,4]); P = rnd.randint(0,3)
    spec=[]; t=0.0
    for i in range(n):
        t += rnd.choice([0,0,0,0.1,0.5,2.0])
        spec.append((t, f"m{i}", rnd.choices(["ok","bad","unk"],[8,1,1])[0], rnd.choice([0,0.05,0.3,1.0,3.0]), rnd.choice(["ret","ret","raise","nores"])))
    ids=[s[1] for s in spec]
    return dict(A=A,P=P,N=rnd.choice([None,None,1,2,3,5]), wtt=rnd.choice([None,None,2.0]), stop=rnd.choice([None, rnd.uniform(0,t+4)]), spec=spec, horizon=t+200,
                backend_fail=set(rnd.sample(ids, min(len(ids), rnd.randint(0,2)))), pre_fail=set(rnd.sample(ids, rnd.randint(0,1))), post_fail=set(rnd.sample(ids, rnd.randint(0,1))))
viol=collections.Counter()
for k in range(int(sys.argv[2])):
    sc = gen(); LOG = run_scenario(sc)
    A,P = sc["A"],sc["P"]
    taken=[];started=collections.Counter();ended=set();live=0;maxlive=0;unf=0;maxunf=0;stop_t=None;after=0
    kinds={s[1]:s[2] for s in sc["spec"]}
    done=set()
    for e in LOG:
        if e[1]=="take":
            taken.append(e[2]); 
            if stop_t is not None: after+=1
        elif e[1]=="start": started[e[2]]+=1; live+=1; maxlive=max(maxlive,live)
        elif e[1]=="end": live-=1; ended.add(e[2])
        elif e[1]=="stop": stop_t=e[0]
    if maxlive > A: viol["C03 limit"]+=1
    if after>1: viol["C05 >1 take after stop"]+=1
    if any(v>1 for v in started.values()): viol["C01 dup"]+=1
    ret = [e for e in LOG if e[1]=="return"]
    if ret:
        missing=[m for m in taken if kinds[m]=="ok" and m not in sc["pre_fail"] and started[m]==0]
        if missing:
            viol["C01 lost (N=%s)"%("set" if sc["N"] else None)]+=1
            if sc["N"] is None: print("LOST w/o N", sc, LOG)
    else:
        if sc["stop"] is not None or sc["N"]: viol["no return after stop/N"]+=1; print("NORETURN", {k:v for k,v in sc.items() if k!="msgs"}); 
print(dict(viol))
