import pickle, json, random, threading, sys, collections
from taskiq.result import TaskiqResult
rnd = random.Random(11)
class ModLevel(Exception): pass
class ModBase(BaseException): pass
class Outer:
    class Nested(Exception): pass
class CustomInit(Exception):
    def __init__(self, a, b=2): super().__init__(f"{a}:{b}"); self.a=a
class CustomInitKw(Exception):
    def __init__(self, *, code): super().__init__(code); self.code=code
class SubOfCustom(CustomInit): pass
class StrRaises(Exception):
    def __str__(self): raise RuntimeError("str")
    def __repr__(self): raise RuntimeError("repr")
class WithLock(Exception):
    def __init__(self, *a): super().__init__(*a); self.l = threading.Lock()
class ReduceBad(Exception):
    def __reduce__(self): raise TypeError("no reduce")
class BadRepr:
    def __repr__(self): raise RuntimeError("r")
    __str__ = __repr__
class OnlyStr:
    def __repr__(self): raise RuntimeError("r")
    def __str__(self): return "onlystr"
def local_cls():
    class Local(Exception): pass
    return Local
Dyn = type("Dyn", (Exception,), {"__module__": "nowhere.mod"})
DynHere = type("DynHere", (ValueError,), {})
classes = [ValueError, KeyError, OSError, KeyboardInterrupt, SystemExit, StopIteration, GeneratorExit, UnicodeDecodeError, ModLevel, ModBase, Outer.Nested, CustomInit, CustomInitKw, SubOfCustom, StrRaises, WithLock, ReduceBad, local_cls(), Dyn, DynHere, ExceptionGroup, json.JSONDecodeError, AssertionError, ImportError]
def gen_arg():
    return rnd.choice([1, "x", None, 1.5, float("nan"), float("inf"), True, [1,2], {"a":1}, (1,2), {1:2}, b"\xff", {1,2}, lambda: 0, threading.Lock(), BadRepr(), OnlyStr(), object(), 10**5000, "ünï", "\ud800", ValueError("inner"), collections.OrderedDict(a=1), 2**70, -0.0, [float("nan")], {"k": b"x"}, ModLevel, type])
def mk():
    c = rnd.choice(classes)
    for _ in range(6):
        try:
            n = rnd.randint(0,3)
            if c is CustomInitKw: return c(code=gen_arg())
            if c is ExceptionGroup: return c("g", [ValueError(gen_arg())])
            if c is UnicodeDecodeError: return c("utf-8", b"\xff", 0, 1, "bad")
            if c is json.JSONDecodeError: return c("m", "doc", 0)
            return c(*[gen_arg() for _ in range(n)])
        except Exception: pass
    return ValueError("fallback")
def graph():
    nodes = [mk() for _ in range(rnd.randint(1,6))]
    for i,n in enumerate(nodes):
        if rnd.random()<.6: n.__cause__ = rnd.choice(nodes)   # may be cyclic / self
        if rnd.random()<.6: n.__context__ = rnd.choice(nodes)
        n.__suppress_context__ = rnd.random()<.4
    return nodes[0]
fails = collections.Counter(); ex={}
N=4000
for i in range(N):
    e = graph()
    r = TaskiqResult(is_err=True, return_value=None, execution_time=0.0, error=e)
    for name, f in [("json", lambda: TaskiqResult.model_validate_json(r.model_dump_json())), ("dict", lambda: TaskiqResult.model_validate(r.model_dump())), ("pickle", lambda: pickle.loads(pickle.dumps(r)))]:
        try:
            out = f().error
            if not isinstance(out, BaseException): fails[(name,"notexc")]+=1
        except BaseException as x:
            k=(name, type(x).__name__, str(x)[:70].replace("\n"," ")); fails[k]+=1; ex.setdefault(k, (type(e).__name__, [type(a).__name__ for a in getattr(e,"args",())]))
for k,v in fails.most_common(25): print(v, k, ex.get(k))
print("total", N)
