import asyncio, logging
logging.disable(logging.CRITICAL)
from taskiq import Context, TaskiqDepends
from taskiq.brokers.inmemory_broker import InMemoryBroker
from taskiq.message import TaskiqMessage
LOG=[]
b = InMemoryBroker()
def mk(name, *deps, kind="gen"):
    pass
def V():
    LOG.append("open V"); 
    try: yield "v"
    except BaseException as e: LOG.append(f"V saw {type(e).__name__}"); raise
    finally: LOG.append("close V")
def U(v: str = TaskiqDepends(V)):
    LOG.append("open U")
    try: yield "u"
    except BaseException as e: LOG.append(f"U saw {type(e).__name__}"); raise
    finally: LOG.append("close U")
async def W(u: str = TaskiqDepends(U, use_cache=False)):
    LOG.append("open W")
    try: yield "w"
    finally: LOG.append("close W")
@b.task(task_name="cached")
async def cached(u: str = TaskiqDepends(U)):
    LOG.append("task"); return 1
@b.task(task_name="uncached")
async def uncached(u: str = TaskiqDepends(U, use_cache=False)):
    LOG.append("task"); return 1
@b.task(task_name="uncached2")
async def uncached2(w: str = TaskiqDepends(W, use_cache=False)):
    LOG.append("task"); raise ValueError("x")
@b.task(task_name="two")
async def two(u1: str = TaskiqDepends(U, use_cache=False), u2: str = TaskiqDepends(U, use_cache=False)):
    LOG.append("task"); return 1
async def main():
    for name in ["cached","uncached","uncached2","two"]:
        LOG.clear()
        m = TaskiqMessage(task_id="id", task_name=name, labels={}, args=[], kwargs={})
        r = await b.receiver.run_task(b.find_task(name).original_func, m)
        print(name, LOG, r.is_err)
asyncio.run(main())
