import sys, types, random
from taskiq.serialization import exception_to_python
from taskiq.result import TaskiqResult
from taskiq.exceptions import SecurityError
CALLS=[]
def mkmod(name):
    m = types.ModuleType(name)
    def trapfn(*a, **k): CALLS.append(("call", name+".trapfn", a)); return "pwned"
    class TrapCls:
        def __init__(self, *a): CALLS.append(("init", name+".TrapCls", a))
    class TrapExc(Exception):
        def __init__(self, *a): CALLS.append(("excinit", name+".TrapExc", a)); super().__init__(*a)
    class Holder:
        inner = TrapExc; fn = staticmethod(trapfn); cls = TrapCls
    class CallableInst:
        def __call__(self, *a): CALLS.append(("call", name+".inst", a))
    m.trapfn=trapfn; m.TrapCls=TrapCls; m.TrapExc=TrapExc; m.Holder=Holder; m.inst=CallableInst(); m.sub=types.ModuleType(name+".sub"); m.sub.trapfn=trapfn; m.eval=eval; m.BaseExc=BaseException
    return m
sys.modules["trapmod"] = mkmod("trapmod")
rnd = random.Random(5)
names = [("trapmod","trapfn"),("trapmod","TrapCls"),("trapmod","TrapExc"),("trapmod","Holder.inner"),("trapmod","Holder.fn"),("trapmod","Holder.cls"),("trapmod","inst"),("trapmod","sub"),("trapmod","sub.trapfn"),("trapmod","eval"),("trapmod","nothing"),("not_loaded_mod_xyz","Foo"),("os","system"),("builtins","object"),("builtins","ValueError"),("builtins","exec"),(None,"Synth"),("trapmod","BaseExc"),("json","decoder.JSONDecodeError"),("trapmod","inst.__class__"),("trapmod","TrapExc.__init__"), ("trapmod", "")]
def gen(depth):
    mod, ty = rnd.choice(names)
    p = {"exc_type": ty, "exc_module": mod, "exc_message": [rnd.choice(["echo hi", 1, None])] * rnd.randint(0,2), "exc_suppress_context": rnd.random()<.5}
    if depth>0 and rnd.random()<.6: p["exc_cause"] = gen(depth-1)
    if depth>0 and rnd.random()<.4: p["exc_context"] = gen(depth-1)
    return p
stats={}
for i in range(3000):
    p = gen(rnd.randint(0,3)); CALLS.clear(); before=set(sys.modules)
    via = rnd.choice(["direct","validate","json"])
    try:
        if via=="direct": r = exception_to_python(p)
        elif via=="validate": r = TaskiqResult.model_validate({"is_err":True,"return_value":None,"execution_time":0.1,"error":p}).error
        else:
            import json; r = TaskiqResult.model_validate_json(json.dumps({"is_err":True,"return_value":None,"execution_time":0.1,"error":p})).error
        kind = "exc" if isinstance(r, BaseException) else "OTHER:"+repr(r)
    except SecurityError: kind="security"
    except Exception as e: kind="err:"+type(e).__name__
    bad = [c for c in CALLS if c[0]!="excinit"]
    newmods = set(sys.modules)-before
    stats[kind]=stats.get(kind,0)+1
    if bad or newmods or kind.startswith("OTHER"): print("VIOL", p, bad, newmods, kind)
print(stats)
