import pytz, zoneinfo, random, datetime as dt
print("pytz", pytz.__version__, "olson", pytz.OLSON_VERSION)
try:
    import tzdata; print("tzdata pkg", tzdata.__version__)
except Exception as e: print("no tzdata pkg", e)
print(zoneinfo.TZPATH)
import os
for p in zoneinfo.TZPATH:
    f = os.path.join(p, "tzdata.zi")
    if os.path.exists(f): print(f, open(f).readline().strip())
zones = ["Europe/Berlin","America/New_York","Asia/Kolkata","Asia/Kathmandu","Australia/Lord_Howe","America/St_Johns","Pacific/Chatham","Africa/Casablanca","America/Sao_Paulo","Europe/London","Asia/Tehran","Pacific/Apia","Australia/Adelaide","UTC","Asia/Tokyo"]
rnd = random.Random(1)
bad = 0; n=0
lo = dt.datetime(2015,1,1,tzinfo=dt.timezone.utc).timestamp(); hi = dt.datetime(2035,1,1,tzinfo=dt.timezone.utc).timestamp()
for z in zones:
    for _ in range(20000):
        t = dt.datetime.fromtimestamp(rnd.uniform(lo,hi), tz=dt.timezone.utc)
        a = t.astimezone(pytz.timezone(z)).utcoffset(); b = t.astimezone(zoneinfo.ZoneInfo(z)).utcoffset()
        n+=1
        if a != b:
            bad+=1
            if bad < 8: print("DIFF", z, t, a, b)
print(n, bad)
