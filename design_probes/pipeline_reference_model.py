"""Reference transcription of Receiver.callback/run_task (what Pipeline.v will be) vs the real code: random configs incl. raising hooks."""
import asyncio, logging, random, sys
logging.disable(logging.CRITICAL)
from taskiq import TaskiqDepends, TaskiqMiddleware
from taskiq.abc.broker import AsyncBroker
from taskiq.abc.result_backend import AsyncResultBackend
from taskiq.acks import AckableMessage, AcknowledgeType
from taskiq.exceptions import NoResultError
from taskiq.message import TaskiqMessage
from taskiq.receiver import Receiver
LOG=[]
class RB(AsyncResultBackend):
    fail=False
    async def set_result(self, tid, r):
        if self.fail: LOG.append(("savefail",)); raise RuntimeError("down")
        LOG.append(("save", r.is_err, type(r.error).__name__ if r.error else None))
    async def is_result_ready(self, t): return True
    async def get_result(self, t, with_logs=False): return None
class B(AsyncBroker):
    async def kick(self, m): pass
    async def listen(self):
        yield b""
HOOKS=["pre_execute","on_error","post_execute","post_save"]
def mk_mw(i, mask, asyn, raises):
    ns={}
    def mk(h):
        if asyn:
            async def f(self, m, *a):
                LOG.append((h, i))
                if h in raises: raise RuntimeError("hook")
                return m if h=="pre_execute" else None
        else:
            def f(self, m, *a):
                LOG.append((h, i))
                if h in raises: raise RuntimeError("hook")
                return m if h=="pre_execute" else None
        return f
    for h in HOOKS:
        if h in mask: ns[h]=mk(h)
    return type("M%d"%i, (TaskiqMiddleware,), ns)()
async def real(c):
    LOG.clear()
    b=B(); b.result_backend=RB(); b.result_backend.fail=c["backend_fail"]
    b.add_middlewares(*[mk_mw(i, *m) for i,m in enumerate(c["mws"])])
    def dep():
        LOG.append(("dep.open",))
        if c["dep_fail"]: raise LookupError("dep")
        try: yield 1
        except BaseException: LOG.append(("dep.saw",)); raise
        finally: LOG.append(("dep.close",))
    labels={"timeout": 0.05} if c["outcome"]=="timeout" else {}
    async def body():
        LOG.append(("task.start",))
        o=c["outcome"]
        if o=="raise": raise ValueError()
        if o=="base": raise SystemExit(3)
        if o=="nores": raise NoResultError()
        if o=="timeout": await asyncio.sleep(1)
        return 1
    if c["has_dep"]:
        @b.task(task_name="t", **labels)
        async def t(d: int = TaskiqDepends(dep)): return await body()
    else:
        @b.task(task_name="t", **labels)
        async def t(): return await body()
    data = b"junk" if c["kind"]=="bad" else b.formatter.dumps(TaskiqMessage(task_id="i", task_name="t" if c["kind"]=="ok" else "nope", labels={k:str(v) for k,v in labels.items()}, labels_types={"timeout":4} if labels else None, args=[], kwargs={})).message
    def ack(): LOG.append(("ack",))
    msg = AckableMessage(data=data, ack=ack) if c["ackable"] else data
    r=Receiver(b, max_async_tasks=1, run_startup=False, ack_type=c["ack"], propagate_exceptions=c["propagate"])
    try: await r.callback(msg); LOG.append(("ok",))
    except BaseException as e: LOG.append(("crash", type(e).__name__))
    return list(LOG)
def model(c):
    out=[]; mws=c["mws"]
    def hooks(h):
        for i,(mask,asyn,raises) in enumerate(mws):
            if h in mask:
                out.append((h,i))
                if h in raises: return False
        return True
    if c["kind"]!="ok": return [("ok",)]
    if not hooks("pre_execute"): return out+[("crash","RuntimeError")]
    if c["ack"]==AcknowledgeType.WHEN_RECEIVED and c["ackable"]: out.append(("ack",))
    # run_task
    err=None
    if c["has_dep"]:
        out.append(("dep.open",))
        if c["dep_fail"]: err="LookupError"
    opened = c["has_dep"] and not c["dep_fail"]
    if err is None:
        out.append(("task.start",))
        err={"ret":None,"raise":"ValueError","base":"SystemExit","nores":"NoResultError","timeout":"TimeoutError"}[c["outcome"]]
    if opened:
        if err and c["propagate"]: out.append(("dep.saw",))
        out.append(("dep.close",))
    if err is not None:
        if not hooks("on_error"): return out+[("crash","RuntimeError")]
    if c["ack"]==AcknowledgeType.WHEN_EXECUTED and c["ackable"]: out.append(("ack",))
    if not hooks("post_execute"): return out+[("crash","RuntimeError")]
    if err!="NoResultError":
        if c["backend_fail"]: out.append(("savefail",))
        else:
            out.append(("save", err is not None, err))
            hooks("post_save")   # a raising post_save is swallowed by the same try
    if c["ack"]==AcknowledgeType.WHEN_SAVED and c["ackable"]: out.append(("ack",))
    return out+[("ok",)]
rnd=random.Random(int(sys.argv[1]))
async def main():
    bad=0; N=int(sys.argv[2]); crashes=0
    for k in range(N):
        mws=[]
        for i in range(rnd.randint(0,3)):
            mask={h for h in HOOKS if rnd.random()<.6}
            raises={h for h in mask if rnd.random()<.08}
            mws.append((mask, rnd.random()<.5, raises))
        c=dict(kind=rnd.choices(["ok","bad","unk"],[10,1,1])[0], ack=rnd.choice(list(AcknowledgeType)), ackable=rnd.random()<.8, mws=mws, backend_fail=rnd.random()<.25,
               outcome=rnd.choice(["ret","raise","base","nores","timeout"]), has_dep=rnd.random()<.6, dep_fail=rnd.random()<.15, propagate=rnd.random()<.7)
        a=await real(c); b=model(c)
        crashes += b[-1][0]=="crash"
        if a!=b:
            bad+=1
            if bad<4: print("DIFF", c, "\n real ", a, "\n model", b)
    print("cases", N, "bad", bad, "hook-crash cases", crashes)
asyncio.run(main())
