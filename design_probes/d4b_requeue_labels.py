import asyncio, logging, math, sys
from taskiq import Context, TaskiqDepends
from taskiq.abc.broker import AsyncBroker
from taskiq.receiver import Receiver
SENT=[]
class B(AsyncBroker):
    async def kick(self, m): SENT.append(m)
    async def listen(self):
        yield b""
async def main(labels):
    b = B()
    SEEN=[]
    @b.task(task_name="t")
    async def t(ctx: Context = TaskiqDepends()):
        SEEN.append(dict(ctx.message.labels))
        if len(SEEN) < 3:
            await ctx.requeue()
    SENT.clear()
    r = Receiver(b, max_async_tasks=1, run_startup=False)
    await t.kicker().with_labels(**labels).kiq()
    while SENT:
        m = SENT.pop(0)
        print("   wire:", m.message[:200])
        await r.callback(m.message)
    print(labels, "->", SEEN)
logging.basicConfig(level=logging.WARNING, format="   LOG %(message).200s")
for labels in [dict(by=b"abc"), dict(by=b"\xff\x00"), dict(f=float("inf")), dict(f=float("nan")), dict(big=10**30), dict(z=-0.0), dict(s="\ud800")]:
    try: asyncio.run(main(labels))
    except Exception as e: print(labels, "EXC", repr(e)[:300])
