import asyncio, logging
logging.disable(logging.CRITICAL)
from taskiq import SimpleRetryMiddleware
from taskiq.abc.broker import AsyncBroker
from taskiq.abc.result_backend import AsyncResultBackend
from taskiq.exceptions import NoResultError
from taskiq.receiver import Receiver
class RB(AsyncResultBackend):
    def __init__(self): self.saves=[]
    async def set_result(self, tid, r): self.saves.append((tid, r.is_err, r.return_value))
    async def is_result_ready(self, t): return True
    async def get_result(self, t, with_logs=False): return None
class B(AsyncBroker):
    def __init__(self): super().__init__(); self.sent=[]
    async def kick(self, m): self.sent.append(m)
    async def listen(self):
        yield b""
async def run(outcomes, task_labels, mw_kwargs):
    b = B(); b.result_backend = RB(); b.add_middlewares(SimpleRetryMiddleware(**mw_kwargs))
    calls=[]
    @b.task(task_name="t", **task_labels)
    async def t(x: int):
        i = len(calls); calls.append(x)
        o = outcomes[min(i, len(outcomes)-1)]
        if o == "F": raise ValueError("f")
        if o == "N": raise NoResultError()
        return i
    await t.kicker().with_task_id("TID").kiq(7)
    r = Receiver(b, max_async_tasks=1, run_startup=False)
    n=0
    while b.sent and n < 20:
        m = b.sent.pop(0); n+=1
        assert m.task_id == "TID"
        await r.callback(m.message)
    return len(calls), b.result_backend.saves
async def main():
    for outcomes in ["F", "FS", "FFS", "FN", "S"]:
        for mr in [None, 0, 1, 2, 3, "3"]:
            for roe in [True, "true", "False", None]:
                for nror in [True, False]:
                    labels = {}
                    if mr is not None: labels["max_retries"] = mr
                    if roe is not None: labels["retry_on_error"] = roe
                    kw = dict(no_result_on_retry=nror, default_retry_count=2)
                    n, saves = await run(outcomes, labels, kw)
                    # expected
                    enabled = (roe is True) or (isinstance(roe, str) and roe.lower()=="true")
                    M = 2 if mr is None else int(mr)
                    exp = 0; 
                    for i in range(50):
                        exp += 1
                        o = outcomes[min(i, len(outcomes)-1)]
                        if o != "F" or not enabled or exp >= max(1, M): break
                    flag = "" if n == exp else "  <<<< MISMATCH"
                    if flag or (outcomes=="FFS" and roe is True and nror): print(outcomes, "max", mr, "roe", roe, "nror", nror, "-> execs", n, "exp", exp, "saves", saves, flag)
asyncio.run(main())
