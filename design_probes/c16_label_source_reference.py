import asyncio, logging, random, datetime as dt, copy
logging.disable(logging.CRITICAL)
from taskiq.brokers.inmemory_broker import InMemoryBroker
from taskiq.abc.broker import AsyncBroker
from taskiq.schedule_sources.label_based import LabelScheduleSource
from taskiq.scheduler.scheduler import TaskiqScheduler
from taskiq.brokers.shared_broker import async_shared_broker
rnd = random.Random(3)
class B(AsyncBroker):
    def __init__(self): super().__init__(); self.sent=[]
    async def kick(self, m): self.sent.append(m)
    async def listen(self):
        yield b""
T0 = dt.datetime(2030,1,1,12,0,0)
def gen_entries():
    out=[]
    for _ in range(rnd.randint(0,5)):
        k = rnd.random(); e={}
        if k<.35: e["time"] = T0 + dt.timedelta(minutes=rnd.randint(0,2))
        elif k<.6: e["cron"] = "* * * * *"
        elif k<.75: e["cron"]="*/2 * * * *"; e["time"]=T0 + dt.timedelta(minutes=rnd.randint(0,2))
        if rnd.random()<.5: e["args"]=[rnd.randint(0,9)]
        if rnd.random()<.3: e["labels"]={"q": rnd.randint(0,9)}
        out.append(e)
    return out
async def one():
    b = B(); other = B()
    AsyncBroker.global_task_registry.clear()
    decl = {}
    for i in range(rnd.randint(1,3)):
        ents = gen_entries(); decl[f"t{i}"] = copy.deepcopy(ents)
        b.register_task(lambda: None, task_name=f"t{i}", schedule=ents)
    fe = gen_entries()
    other.register_task(lambda: None, task_name="foreign", schedule=fe)
    AsyncBroker.global_task_registry["foreign"] = other.find_task("foreign")
    src = LabelScheduleSource(b); sch = TaskiqScheduler(b, [src])
    def listing(): return [(n, e.get("cron"), e.get("time"), e.get("args", [])) for n, es in cur.items() for e in es if "cron" in e or "time" in e]
    cur = copy.deepcopy(decl)
    for step in range(6):
        got = await src.get_schedules()
        g = [(s.task_name, s.cron, s.time, s.args) for s in got]
        if g != listing(): return ("LISTING", g, listing())
        if not got: break
        s = rnd.choice(got)
        b.sent.clear()
        await sch.on_ready(src, s)
        if len(b.sent) != 1: return ("SENT", len(b.sent))
        m = b.formatter.loads(b.sent[0].message); m.parse_labels()
        if (m.task_name, m.args, m.labels.get("schedule_id")) != (s.task_name, s.args, s.schedule_id): return ("PAYLOAD", m)
        # expected removal
        if s.cron is None and s.time is not None:
            es = cur[s.task_name]
            for idx, e in enumerate(es):
                if e.get("time") == s.time: es.pop(idx); break
        after = {n: t.labels.get("schedule", []) for n, t in b.local_task_registry.items()}
        norm = lambda d: {n: [(e.get("cron"), e.get("time"), e.get("args", [])) for e in es] for n, es in d.items()}
        if norm(after) != norm(cur): return ("REMOVE", norm(after), norm(cur))
    return None
async def main():
    bad=0
    for i in range(1500):
        r = await one()
        if r: bad+=1; print(r) if bad<4 else None
    print("bad", bad)
asyncio.run(main())
