"""Reference model of ProcessManager.start() (what ProcMan.v will be) vs the real code under fakes, random histories incl. mid-tick events."""
import sys, types, signal as real_signal, logging, random
logging.disable(logging.CRITICAL)
import taskiq.cli.worker.process_manager as pm
from taskiq.cli.worker.args import WorkerArgs
S = real_signal
class Stop(Exception): pass
class World: pass
W = World()
class FProc:
    def __init__(self, target=None, kwargs=None, name=None, daemon=None): self.name=name; self.pid=None; self.state="new"
    def start(self):
        self.pid=W.next_pid; W.next_pid+=1; self.state="live"; W.procs[self.pid]=self; W.trace.append(("start", int(self.name.split("-")[1]), self.pid))
    def terminate(self):
        W.trace.append(("terminate", self.pid))
        if self.state=="live": self.state="zombie"
    def join(self, timeout=None):
        W.trace.append(("join", self.pid)); assert self.state!="live"; self.state="reaped"
    def is_alive(self):
        if sys._getframe(1).f_code.co_name == "start": inject("scan")
        if self.state=="zombie": self.state="reaped"
        return self.state=="live"
class FEvent:
    def wait(self, t=None): return False
class FQueue:
    def __init__(self, n=0): pass
    def put(self, x): W.queue.append(x)
    def get(self): return W.queue.pop(0)
    def empty(self): return not W.queue
def deliver(evs):
    for ev in evs:
        if ev[0]=="die":
            p = W.mgr.workers[ev[1]] if ev[1] < len(W.mgr.workers) else None
            if p and p.state=="live": p.state="zombie"
        elif ev[0]=="hup": W.handlers[S.SIGHUP](S.SIGHUP, None)
        elif ev[0]=="int": W.handlers[S.SIGINT](S.SIGINT, None)
        elif ev[0]=="file": pm.schedule_workers_reload(W.mgr.action_queue)
def inject(point):
    # mid-tick events: delivered before the k-th is_alive call of the scan of tick t
    if not W.started: return
    key=(W.tick, W.scan_idx); W.scan_idx+=1
    deliver(W.mid.get(key, []))
def fsleep(n):
    W.started=True
    if W.tick >= len(W.script): raise Stop
    deliver(W.script[W.tick]); W.tick+=1; W.scan_idx=0; W.trace.append(("tick", W.tick))
class FOs(types.ModuleType):
    def kill(self, pid, sig):
        p=W.procs.get(pid); W.trace.append(("kill", pid))
        if p is None or p.state=="reaped": raise ProcessLookupError(pid)
class FSignal(types.ModuleType):
    def __getattr__(self, n): return getattr(real_signal, n)
    def signal(self, num, h): W.handlers[num]=h
class FCur: name="MainProcess"
pm.Process=FProc; pm.Event=FEvent; pm.Queue=FQueue; pm.sleep=fsleep; pm.os=FOs("os"); pm.signal=FSignal("signal"); pm.current_process=lambda: FCur
def run_real(n, mf, script, mid):
    W.script=script; W.mid=mid; W.tick=0; W.scan_idx=0; W.trace=[]; W.procs={}; W.next_pid=100; W.handlers={}; W.queue=[]; W.started=False
    W.mgr = pm.ProcessManager(WorkerArgs(broker="x:y", modules=[], workers=n, max_fails=mf), worker_function=lambda args: None)
    try: rv = W.mgr.start(); rv = ("exit", rv)
    except Stop: rv=("running",)
    except ProcessLookupError as e: rv=("crash-ESRCH", e.args[0])
    return W.trace, rv
# ---------------- reference model (pure) ----------------
def model(n, mf, script, mid):
    trace=[]; workers=[]; next_pid=100; queue=[]; restarts=0
    state={}  # pid -> live/zombie/reaped
    def start(slot):
        nonlocal next_pid
        pid=next_pid; next_pid+=1; state[pid]="live"; trace.append(("start", slot, pid)); return pid
    for i in range(n): workers.append(start(i))
    def deliver(evs):
        for ev in evs:
            if ev[0]=="die":
                if ev[1] < len(workers) and state[workers[ev[1]]]=="live": state[workers[ev[1]]]="zombie"
            elif ev[0] in ("hup","file"): queue.append(("all",))
            elif ev[0]=="int": queue.append(("shutdown",))
    for t, evs in enumerate(script):
        deliver(evs); trace.append(("tick", t+1))
        reloaded=set()
        while queue:
            a=queue.pop(0)
            if a[0]=="all":
                for i in range(len(workers)): queue.append(("one", i, True))
            elif a[0]=="one":
                _, i, ra = a
                if not ra and mf >= 1:
                    restarts+=1
                    if restarts >= mf: return trace, ("exit", -1)
                if i in reloaded: continue
                pid=workers[i]; trace.append(("terminate", pid))
                if state[pid]=="live": state[pid]="zombie"
                trace.append(("join", pid)); state[pid]="reaped"
                workers[i]=start(i); reloaded.add(i)
            else:
                for pid in workers:
                    trace.append(("kill", pid))
                    if state[pid]=="reaped": return trace, ("crash-ESRCH", pid)
                return trace, ("exit", None)
        for k, pid in enumerate(workers):
            deliver(mid.get((t+1, k), []))
            if state[pid]=="zombie": state[pid]="reaped"
            if state[pid]!="live": queue.append(("one", k, False))
    return trace, ("running",)
rnd=random.Random(int(sys.argv[1])); bad=0; kinds={}
def gen_evs(n, p):
    evs=[]
    while rnd.random()<p:
        k=rnd.random()
        evs.append(("die", rnd.randrange(n)) if k<.5 else ("hup",) if k<.7 else ("file",) if k<.85 else ("int",))
    return evs
for case in range(int(sys.argv[2])):
    n=rnd.randint(1,3); mf=rnd.choice([-1,0,1,2,3]); T=rnd.randint(1,12)
    script=[gen_evs(n, .45 if rnd.random()<.8 else .05) for _ in range(T)]
    # keep INT rare so histories get long
    script=[[e for e in evs if e[0]!="int" or rnd.random()<.3] for evs in script]
    mid={}
    if rnd.random()<.4:
        for _ in range(rnd.randint(1,3)): mid[(rnd.randint(1,T), rnd.randrange(n))]=gen_evs(n,.7)
    a=run_real(n,mf,script,mid); b=model(n,mf,script,mid)
    kinds[b[1][0]+str(b[1][1:] if b[1][0]=="exit" else "")]=kinds.get(b[1][0]+str(b[1][1:] if b[1][0]=="exit" else ""),0)+1
    if a!=b:
        bad+=1
        if bad<4: print("DIFF", n, mf, script, mid, "\n real ", a, "\n model", b)
print("bad", bad, kinds)
# how many ESRCH crashes need mid-tick events?
rnd=random.Random(99); c=0; cm=0; ex=None
for case in range(6000):
    n=rnd.randint(1,3); mf=rnd.choice([-1,0,1,2,3]); T=rnd.randint(1,12)
    script=[gen_evs(n,.45) for _ in range(T)]
    b=model(n,mf,script,{})
    if b[1][0]=="crash-ESRCH":
        c+=1
        if ex is None or len(str(script))<len(str(ex[2])): ex=(n,mf,script,b)
print("sleep-only histories with ESRCH crash:", c, "of 6000"); print(ex)
