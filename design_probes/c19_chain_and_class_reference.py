"""C19: reference prediction (what ExcSer.v will compute from measured flags) of class kind + cause/context/suppress tree vs the real JSON round trip."""
import json, random, sys, threading, collections
from taskiq.result import TaskiqResult
rnd = random.Random(int(sys.argv[1])); N=int(sys.argv[2])
class ModLevel(Exception): pass
class ModBase(BaseException): pass
class Outer:
    class Nested(Exception): pass
class CustomInit(Exception):
    def __init__(self, a, b=2): super().__init__(f"{a}:{b}")
class CustomInitKw(Exception):
    def __init__(self, *, code): super().__init__(code)
class SubOfCustom(CustomInit): pass
def local_cls():
    class Local(Exception): pass
    return Local
Dyn = type("Dyn", (Exception,), {"__module__": "nowhere.mod"})
DynHere = type("DynHere", (ValueError,), {})
classes = [ValueError, KeyError, OSError, KeyboardInterrupt, SystemExit, StopIteration, ModLevel, ModBase, Outer.Nested, CustomInit, CustomInitKw, SubOfCustom, local_cls(), Dyn, DynHere, AssertionError, ImportError, UnicodeDecodeError, json.JSONDecodeError]
class BadRepr:
    def __repr__(self): raise RuntimeError("r")
    __str__ = __repr__
def gen_arg(): return rnd.choice([1, "x", None, 1.5, True, [1,2], {"a":1}, (1,2), {1:2}, b"\xff", {1,2}, lambda: 0, threading.Lock(), BadRepr(), object(), "ünï", 2**70, -0.0, float("nan")])
def mk():
    c = rnd.choice(classes)
    try:
        if c is CustomInitKw: return c(code=gen_arg())
        if c is UnicodeDecodeError: return c("utf-8", b"\xff", 0, 1, "bad")
        if c is json.JSONDecodeError: return c("m", "doc", 0)
        return c(*[gen_arg() for _ in range(rnd.randint(0,3))])
    except Exception: return ValueError("fallback")
def graph():
    nodes = [mk() for _ in range(rnd.randint(1,6))]
    for n in nodes:
        if rnd.random()<.6: n.__cause__ = rnd.choice(nodes)
        if rnd.random()<.6: n.__context__ = rnd.choice(nodes)
        n.__suppress_context__ = rnd.random()<.4
    return nodes[0]
def resolvable(cls):
    try:
        o = sys.modules[cls.__module__]
        for p in cls.__qualname__.split("."): o = getattr(o, p)
        return o is cls
    except (KeyError, AttributeError): return False
def json_native_eq(a):
    try: return json.loads(json.dumps(a)) == a and not (isinstance(a, float) and a != a) and type(json.loads(json.dumps(a))) is type(a)
    except Exception: return False
def predict(e, path=()):
    if id(e) in path: return None
    p = path + (id(e),)
    cls = type(e)
    if not resolvable(cls): kind = ("synthetic", cls.__qualname__)
    else:
        # oracle flag: does cls(*loaded_args) work? measured on the args as they will be loaded
        loaded_args = []
        for a in e.args:
            try: loaded_args.append(json.loads(json.dumps(a)))
            except Exception: loaded_args.append("<text>")
        recon = True
        try:
            rebuilt = cls(*loaded_args); kind = ("orig", cls.__qualname__)
            recon = tuple(rebuilt.args) == tuple(loaded_args)     # constructor that rewrites its args: not reconstructible
        except Exception: kind = ("generic", cls.__name__)
    args_eq = all(json_native_eq(a) for a in e.args)
    if resolvable(cls) and kind[0]=="orig" and not recon: args_eq = False
    cause = predict(e.__cause__, p) if e.__cause__ is not None else None
    ctx = predict(e.__context__, p) if (e.__context__ is not None and not e.__suppress_context__) else None
    return (kind, args_eq, tuple(e.args) if args_eq else None, cause, ctx, bool(e.__suppress_context__))
def observe(l, tmpl):
    if tmpl is None: return None if l is None else "UNEXPECTED-LINK"
    if l is None: return "MISSING-LINK"
    kind, args_eq, args, cause, ctx, sup = tmpl
    cls = type(l)
    if kind[0]=="orig": k = ("orig", cls.__qualname__) if resolvable(cls) else ("?", cls.__qualname__)
    elif kind[0]=="synthetic": k = ("synthetic", cls.__name__) if (cls.__module__=="taskiq.exceptions" and not resolvable(cls)) else ("?", cls.__name__)
    else: k = ("generic", kind[1]) if (cls is Exception and kind[1] in str(l)) else ("?", cls.__name__)
    a = tuple(l.args) if (args_eq and kind[0]!="generic") else None
    return (k, args_eq, a if args_eq and kind[0]!="generic" else (args if kind[0]!="generic" else None) , observe(l.__cause__, cause), observe(l.__context__, ctx), bool(l.__suppress_context__))
def strip_generic(t):
    if t is None: return None
    kind, args_eq, args, cause, ctx, sup = t
    return (kind, args_eq, None if kind[0]=="generic" else args, strip_generic(cause), strip_generic(ctx), sup)
bad=0; kinds=collections.Counter(); links=0
for i in range(N):
    e = graph()
    r = TaskiqResult(is_err=True, return_value=None, execution_time=0.0, error=e)
    exp = strip_generic(predict(e))
    for name, f in [("json", lambda: TaskiqResult.model_validate_json(r.model_dump_json())), ("dict", lambda: TaskiqResult.model_validate(r.model_dump()))]:
        got = observe(f().error, exp)
        def count(t):
            global links
            if t is None: return
            kinds[t[0][0]]+=1; links += (t[3] is not None) + (t[4] is not None); count(t[3]); count(t[4])
        if name=="json": count(exp)
        if got != exp:
            bad+=1
            if bad<5: print("DIFF", name, "\n exp", exp, "\n got", got)
print("graphs", N, "bad", bad, "node kinds", dict(kinds), "links", links)
