"""C12/C06 feasibility: observe the resolver's context tree (own opened deps vs sub-contexts) from outside, and check close order = subs forward then own reversed."""
import asyncio, logging, contextlib
logging.disable(logging.CRITICAL)
from taskiq import TaskiqDepends
from taskiq.brokers.inmemory_broker import InMemoryBroker
from taskiq.message import TaskiqMessage
import taskiq_dependencies.graph as g
SEQ=[]; CTX=[]
orig = g.DependencyGraph.async_ctx
def async_ctx(self, *a, **k):
    c = orig(self, *a, **k); CTX.append(c); return c
g.DependencyGraph.async_ctx = async_ctx
def gen(name, **deps):
    # generator dependency factory with given sub-dependencies
    params = ", ".join(f"{k}=TaskiqDepends({v[0]}, use_cache={v[1]})" for k, v in deps.items())
    src = f"def {name}({params}):\n    SEQ.append(('open','{name}'))\n    try: yield '{name}'\n    finally: SEQ.append(('close','{name}'))\n"
    exec(src, globals())
gen("V"); gen("W"); gen("U", v=("V", True), w=("W", False)); gen("X", u=("U", False), v=("V", True))
@contextlib.asynccontextmanager
async def ACM():
    SEQ.append(("open","ACM"))
    try: yield "acm"
    finally: SEQ.append(("close","ACM"))
b = InMemoryBroker()
@b.task(task_name="t")
async def t(x: str = TaskiqDepends(X), v: str = TaskiqDepends(V), a: str = TaskiqDepends(ACM), u2: str = TaskiqDepends(U, use_cache=False)):
    SEQ.append(("task",)); return 1
def tree(c, names):
    return {"own": [names.get(id(d), type(d).__name__) for d in c.opened_dependencies], "subs": [tree(s, names) for s in c.sub_contexts]}
def close_order(t): return [x for s in t["subs"] for x in close_order(s)] + list(reversed(t["own"]))
async def main():
    r = await b.receiver.run_task(t.original_func, TaskiqMessage(task_id="i", task_name="t", labels={}, args=[], kwargs={}))
    print("seq  ", SEQ)
    # map generator objects to names through their code names
    names = {}
    def walk(c):
        for d in c.opened_dependencies: names[id(d)] = getattr(getattr(d, "gi_code", None), "co_name", None) or "ACM"
        for s in c.sub_contexts: walk(s)
    walk(CTX[0]); T = tree(CTX[0], names)
    print("tree ", T)
    print("model close", close_order(T))
    print("real  close", [n for k, *n in SEQ if k == "close" for n in n])
asyncio.run(main())
