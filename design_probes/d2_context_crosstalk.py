import asyncio, logging
logging.disable(logging.CRITICAL)
from taskiq import Context, TaskiqDepends
from taskiq.brokers.inmemory_broker import InMemoryBroker
from taskiq.message import TaskiqMessage

b = InMemoryBroker()
async def slow_dep():
    await asyncio.sleep(0.05)
    return 1
def ctx_id(ctx: Context = TaskiqDepends()):
    return ctx.message.task_id
@b.task(task_name="t")
async def t(s: int = TaskiqDepends(slow_dep), who: str = TaskiqDepends(ctx_id, use_cache=False), ctx: Context = TaskiqDepends()):
    return (ctx.message.task_id, who)
async def main():
    res = []
    async def one(i, delay):
        await asyncio.sleep(delay)
        m = TaskiqMessage(task_id=f"id{i}", task_name="t", labels={}, args=[], kwargs={})
        r = await b.receiver.run_task(t.original_func, m)
        res.append((i, r.return_value, r.error))
    await asyncio.gather(one(0, 0), one(1, 0.01))
    print(res)
asyncio.run(main())
