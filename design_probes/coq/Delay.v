From Coq Require Import ZArith Lia Bool ZifyBool.
Open Scope Z_scope.
Ltac Zify.zify_post_hook ::= Z.to_euclidean_division_equations.

Definition US := 1000000.
Definition MIN := 60 * US.
Definition floor_minute (t : Z) := (t / MIN) * MIN.
Definition horizon (now : Z) := floor_minute (now + MIN) + US.   (* (now+1min).replace(second=1, microsecond=0) *)
Definition delay (T now : Z) : option Z :=
  if T <=? now then Some 0
  else if T <=? horizon now then
    let d := T - now in
    if (d mod US) =? 0 then Some (d / US) else Some (d / US + 1)
  else None.

Theorem C14_past T now : T <= now -> delay T now = Some 0.
Proof. unfold delay. intros. destruct (T <=? now) eqn:E; [reflexivity|lia]. Qed.

Theorem C14_far T now : T > floor_minute now + MIN + US -> now < T -> delay T now = None.
Proof.
  unfold delay, horizon, floor_minute, MIN, US. intros.
  destruct (T <=? now) eqn:E; [lia|].
  match goal with |- context [if ?b then _ else _] => destruct b eqn:E2 end; [|reflexivity]. lia.
Qed.

Theorem C14_near T now d : now < T -> T <= floor_minute now + MIN + US -> delay T now = Some d ->
  T <= now + d * US < T + US /\ 0 < d <= 61.
Proof.
  unfold delay, horizon, floor_minute, MIN, US. intros H1 H2.
  destruct (T <=? now) eqn:E; [lia|].
  match goal with |- context [if ?b then _ else _] => destruct b eqn:E2 end.
  - match goal with |- context [if ?b then _ else _] => destruct b eqn:E3 end; intros Hd; inversion Hd; subst; clear Hd; lia.
  - lia.
Qed.
Print Assumptions C14_near.
