Require Import Recv.
From Coq Require Import List Arith ZArith Lia Bool.
Import ListNotations.

Lemma nmsgs_app q i : nmsgs (q ++ [i]) = nmsgs q + match i with IMsg _ => 1 | IDone => 0 end.
Proof. unfold nmsgs. rewrite filter_app, app_length. destruct i; reflexivity. Qed.
Lemma nmsgs_cons i q : nmsgs (i :: q) = match i with IMsg _ => 1 | IDone => 0 end + nmsgs q.
Proof. unfold nmsgs. simpl. destruct i; reflexivity. Qed.
Opaque nmsgs.

Definition InvQ (c : cfg) (s : st) : Prop :=
  match pf s with
  | PFExit | PFDone => nmsgs (queue s) <= cP c + rn_get (rn s)
  | _ => semp s + holds_permit (pf s) + nmsgs (queue s) = cP c + rn_get (rn s)
  end.

Ltac brk Hs := repeat (match type of Hs with context [match ?x with _ => _ end] => destruct x eqn:? end; try discriminate).

Lemma step_q c s e s' : InvQ c s -> step c s e = Some s' -> InvQ c s'.
Proof.
  unfold InvQ, step, upd_pf. intros H Hs.
  destruct e; brk Hs; inversion Hs; subst; clear Hs; cbn [pf rn queue semp holds_permit rn_get] in *;
  repeat match goal with H : pf _ = _ |- _ => rewrite H in * end;
  repeat match goal with H : rn _ = _ |- _ => rewrite H in * end;
  repeat match goal with H : queue _ = _ |- _ => rewrite H in * end;
  repeat match goal with H : semp _ = _ |- _ => rewrite H in * end;
  rewrite ?nmsgs_app, ?nmsgs_cons in *; cbn [holds_permit rn_get] in *;
  try (destruct (pf s) eqn:?); try (destruct (rn s) eqn:?); cbn [holds_permit rn_get] in *; try lia.
Qed.

Theorem bound c a s : cA c = Some a -> InvSlots c s -> InvQ c s -> unfinished s <= a + cP c + 1.
Proof.
  unfold InvSlots, InvQ, unfinished. intros Ha H1 H2. rewrite Ha in H1.
  destruct (pf s); destruct (rn s); simpl in *; destruct (look s); simpl; lia.
Qed.

(* lift to all traces *)
Lemma run_inv c : forall tr s s', InvSlots c s -> InvQ c s -> run c s tr = Some s' -> InvSlots c s' /\ InvQ c s'.
Proof.
  induction tr as [|e t IH]; simpl; intros s s' H1 H2 Hr.
  - inversion Hr; subst; auto.
  - destruct (step c s e) eqn:Hs; [|discriminate]. eapply IH; [eapply step_slots; eauto | eapply step_q; eauto | exact Hr].
Qed.

Theorem C04_bound c a tr s : cA c = Some a -> run c (init c) tr = Some s -> unfinished s <= a + cP c + 1.
Proof.
  intros Ha Hr. destruct (run_inv c tr (init c) s) as [H1 H2]; auto.
  - unfold InvSlots, init. rewrite Ha. simpl. lia.
  - unfold InvQ, init. simpl. Transparent nmsgs. unfold nmsgs. simpl. lia.
  - eapply bound; eauto.
Qed.
Print Assumptions C04_bound.
