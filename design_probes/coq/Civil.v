From Coq Require Import ZArith Lia Bool ZifyBool.
Open Scope Z_scope.
Ltac Zify.zify_post_hook ::= Z.to_euclidean_division_equations.

(* Hinnant: days since 1970-01-01 -> (y, m, d) *)
Definition civil_from_days (z0 : Z) : Z * Z * Z :=
  let z := z0 + 719468 in
  let era := z / 146097 in
  let doe := z - era * 146097 in
  let yoe := (doe - doe / 1460 + doe / 36524 - doe / 146096) / 365 in
  let y := yoe + era * 400 in
  let doy := doe - (365 * yoe + yoe / 4 - yoe / 100) in
  let mp := (5 * doy + 2) / 153 in
  let d := doy - (153 * mp + 2) / 5 + 1 in
  let m := if mp <? 10 then mp + 3 else mp - 9 in
  (if m <=? 2 then y + 1 else y, m, d).

Definition days_from_civil (y0 m d : Z) : Z :=
  let y := if m <=? 2 then y0 - 1 else y0 in
  let era := y / 400 in
  let yoe := y - era * 400 in
  let doy := (153 * (if m >? 2 then m - 3 else m + 9) + 2) / 5 + d - 1 in
  let doe := yoe * 365 + yoe / 4 - yoe / 100 + doy in
  era * 146097 + doe - 719468.

Lemma roundtrip z : let '(y, m, d) := civil_from_days z in days_from_civil y m d = z.
Proof.
  unfold civil_from_days, days_from_civil. cbv zeta.
  destruct (_ <? 10) eqn:E1.
  - destruct (_ <=? 2) eqn:E2; destruct (_ >? 2) eqn:E3; try lia.
  - destruct (_ <=? 2) eqn:E2; destruct (_ >? 2) eqn:E3; try lia.
Qed.
