From Coq Require Import List Arith ZArith Lia Bool.
Import ListNotations.

(* configuration *)
Record cfg := { cA : option nat; cP : nat; cN : option nat }.

Inductive item := IMsg (id : nat) | IDone.
Inductive pfpc := PFTop | PFAcq | PFPoll | PFExit | PFDone.
Inductive rnpc := RNAcq | RNGet | RNWait | RNDone.
Inductive la := LANew | LAPending | LAHas (id : nat) | LAEnded | LACancelled.

Record st := {
  sem : nat; semp : nat; queue : list item; pf : pfpc; look : la; fetched : nat;
  rn : rnpc; live : list nat; fin : bool;
  taken : list nat; started : list nat; finished : list nat; lost : list nat;
  takes_after_stop : nat }.

Inductive ev :=
| EStop | ETake (id : nat) | EEnd
| EPfCheck (b : bool) | EPfAcquire | EPfTimeout | EPfGot (id : nat) | EPfExhausted | EPfExit
| ERnAcquire | ERnGet (it : item) | ECbDone (id : nat) | ERnWaited.

Definition init (c : cfg) : st :=
  {| sem := match cA c with Some a => a | None => 0 end; semp := cP c; queue := [];
     pf := PFTop; look := LAPending; fetched := 0; rn := RNAcq; live := []; fin := false;
     taken := []; started := []; finished := []; lost := []; takes_after_stop := 0 |}.

Definition limited (c : cfg) := match cA c with Some _ => true | None => false end.
Definition reachedN (c : cfg) (f : nat) := match cN c with Some n => andb (0 <? n) (n <=? f) | None => false end.

Fixpoint remove1 (x : nat) (l : list nat) : list nat :=
  match l with [] => [] | y :: t => if Nat.eqb x y then t else y :: remove1 x t end.
Fixpoint mem (x : nat) (l : list nat) : bool :=
  match l with [] => false | y :: t => orb (Nat.eqb x y) (mem x t) end.

Definition upd_pf s p := {| sem := sem s; semp := semp s; queue := queue s; pf := p; look := look s; fetched := fetched s; rn := rn s; live := live s; fin := fin s; taken := taken s; started := started s; finished := finished s; lost := lost s; takes_after_stop := takes_after_stop s |}.

Definition step (c : cfg) (s : st) (e : ev) : option st :=
  match e with
  | EStop => Some {| sem := sem s; semp := semp s; queue := queue s; pf := pf s; look := look s; fetched := fetched s; rn := rn s; live := live s; fin := true; taken := taken s; started := started s; finished := finished s; lost := lost s; takes_after_stop := takes_after_stop s |}
  | ETake id =>
      match look s with
      | LAPending => if mem id (taken s) then None else
          Some {| sem := sem s; semp := semp s; queue := queue s; pf := pf s; look := LAHas id; fetched := fetched s; rn := rn s; live := live s; fin := fin s; taken := id :: taken s; started := started s; finished := finished s; lost := lost s; takes_after_stop := if fin s then S (takes_after_stop s) else 0 |}
      | _ => None end
  | EEnd => match look s with LAPending => Some {| sem := sem s; semp := semp s; queue := queue s; pf := pf s; look := LAEnded; fetched := fetched s; rn := rn s; live := live s; fin := fin s; taken := taken s; started := started s; finished := finished s; lost := lost s; takes_after_stop := takes_after_stop s |} | _ => None end
  | EPfCheck b =>
      match pf s with
      | PFTop => if Bool.eqb b (fin s) then
           Some {| sem := sem s; semp := semp s; queue := queue s; pf := if b then PFExit else PFAcq;
                   look := if b then look s else match look s with LANew => LAPending | l => l end;
                   fetched := fetched s; rn := rn s; live := live s; fin := fin s; taken := taken s; started := started s; finished := finished s; lost := lost s; takes_after_stop := takes_after_stop s |}
         else None
      | _ => None end
  | EPfAcquire =>
      match pf s, semp s with
      | PFAcq, S p => Some {| sem := sem s; semp := p; queue := queue s; pf := if reachedN c (fetched s) then PFExit else PFPoll; look := look s; fetched := fetched s; rn := rn s; live := live s; fin := fin s; taken := taken s; started := started s; finished := finished s; lost := lost s; takes_after_stop := takes_after_stop s |}
      | _, _ => None end
  | EPfTimeout =>
      match pf s, look s with
      | PFPoll, LAPending => Some {| sem := sem s; semp := S (semp s); queue := queue s; pf := PFTop; look := look s; fetched := fetched s; rn := rn s; live := live s; fin := fin s; taken := taken s; started := started s; finished := finished s; lost := lost s; takes_after_stop := takes_after_stop s |}
      | _, _ => None end
  | EPfGot id =>
      match pf s, look s with
      | PFPoll, LAHas id' => if Nat.eqb id id' then
          Some {| sem := sem s; semp := semp s; queue := queue s ++ [IMsg id]; pf := PFTop; look := LANew; fetched := S (fetched s); rn := rn s; live := live s; fin := fin s; taken := taken s; started := started s; finished := finished s; lost := lost s; takes_after_stop := takes_after_stop s |} else None
      | _, _ => None end
  | EPfExhausted =>
      match pf s, look s with
      | PFPoll, LAEnded => Some (upd_pf s PFExit)
      | _, _ => None end
  | EPfExit =>
      match pf s with
      | PFExit => Some {| sem := sem s; semp := S (semp s); queue := queue s ++ [IDone]; pf := PFDone;
                          look := match look s with LAHas id => LAHas id | LAEnded => LAEnded | _ => LACancelled end;
                          fetched := fetched s; rn := rn s; live := live s; fin := fin s; taken := taken s; started := started s; finished := finished s;
                          lost := match look s with LAHas id => id :: lost s | _ => lost s end; takes_after_stop := takes_after_stop s |}
      | _ => None end
  | ERnAcquire =>
      match rn s with
      | RNAcq =>
         if limited c then
           match sem s with
           | S k => Some {| sem := k; semp := S (semp s); queue := queue s; pf := pf s; look := look s; fetched := fetched s; rn := RNGet; live := live s; fin := fin s; taken := taken s; started := started s; finished := finished s; lost := lost s; takes_after_stop := takes_after_stop s |}
           | O => None end
         else Some {| sem := sem s; semp := S (semp s); queue := queue s; pf := pf s; look := look s; fetched := fetched s; rn := RNGet; live := live s; fin := fin s; taken := taken s; started := started s; finished := finished s; lost := lost s; takes_after_stop := takes_after_stop s |}
      | _ => None end
  | ERnGet it =>
      match rn s, queue s with
      | RNGet, IMsg id :: q => match it with IMsg id' => if Nat.eqb id id' then
            Some {| sem := sem s; semp := semp s; queue := q; pf := pf s; look := look s; fetched := fetched s; rn := RNAcq; live := id :: live s; fin := fin s; taken := taken s; started := id :: started s; finished := finished s; lost := lost s; takes_after_stop := takes_after_stop s |} else None | IDone => None end
      | RNGet, IDone :: q => match it with IDone =>
            Some {| sem := sem s; semp := semp s; queue := q; pf := pf s; look := look s; fetched := fetched s; rn := match live s with [] => RNDone | _ => RNWait end; live := live s; fin := fin s; taken := taken s; started := started s; finished := finished s; lost := lost s; takes_after_stop := takes_after_stop s |} | _ => None end
      | _, _ => None end
  | ECbDone id =>
      if mem id (live s) then
        Some {| sem := if limited c then S (sem s) else sem s; semp := semp s; queue := queue s; pf := pf s; look := look s; fetched := fetched s; rn := rn s; live := remove1 id (live s); fin := fin s; taken := taken s; started := started s; finished := id :: finished s; lost := lost s; takes_after_stop := takes_after_stop s |}
      else None
  | ERnWaited => match rn s with RNWait => Some {| sem := sem s; semp := semp s; queue := queue s; pf := pf s; look := look s; fetched := fetched s; rn := RNDone; live := live s; fin := fin s; taken := taken s; started := started s; finished := finished s; lost := lost s; takes_after_stop := takes_after_stop s |} | _ => None end
  end.

Fixpoint run (c : cfg) (s : st) (tr : list ev) : option st :=
  match tr with [] => Some s | e :: t => match step c s e with Some s' => run c s' t | None => None end end.

Definition nmsgs (q : list item) : nat := length (filter (fun i => match i with IMsg _ => true | _ => false end) q).
Definition holds_slot (r : rnpc) : nat := match r with RNAcq => 0 | _ => 1 end.
Definition holds_permit (p : pfpc) : nat := match p with PFPoll => 1 | PFExit => 0 | _ => 0 end.
Definition la_n (l : la) : nat := match l with LAHas _ => 1 | _ => 0 end.
Definition rn_get (r : rnpc) : nat := match r with RNAcq => 0 | _ => 1 end.

Definition unfinished (s : st) : nat := la_n (look s) + nmsgs (queue s) + length (live s).

(* slot conservation *)
Definition InvSlots (c : cfg) (s : st) : Prop :=
  match cA c with Some a => sem s + length (live s) + holds_slot (rn s) = a | None => True end.

Lemma remove1_len x l : mem x l = true -> S (length (remove1 x l)) = length l.
Proof. induction l as [|y t IH]; simpl; [discriminate|]. destruct (Nat.eqb x y); simpl; auto. Qed.

Lemma step_slots c s e s' : InvSlots c s -> step c s e = Some s' -> InvSlots c s'.
Proof.
  unfold InvSlots, step, limited, upd_pf. intros H Hs.
  destruct e; repeat (match type of Hs with context [match ?x with _ => _ end] => destruct x eqn:? end; try discriminate);
  inversion Hs; subst; clear Hs; simpl in *; try rewrite ?Heqo in *; try congruence; try lia.
  all: try (destruct (cA c); simpl in *; try discriminate; try lia).
  all: try (match goal with H : mem _ _ = true |- _ => apply remove1_len in H; lia end).
Qed.
