"""Real Receiver.listen() traces -> LTS events -> Coq acceptor (prototype Recv.v)."""
import asyncio, sys, types, logging, random, subprocess, os
logging.disable(logging.CRITICAL)
from vloop import VLoop
import taskiq.receiver.receiver as rmod
from taskiq.abc.broker import AsyncBroker
from taskiq.receiver import Receiver
from taskiq.message import TaskiqMessage
from taskiq.exceptions import NoResultError
rnd = random.Random(int(sys.argv[1])); NCASES=int(sys.argv[2])
EV=[]   # LTS events for current run
def role():
    t = asyncio.current_task(); return getattr(t, "_vrole", None) if t else None
class LSem(asyncio.Semaphore):
    def __init__(self, n, name): super().__init__(n); self.name=name
    async def acquire(self):
        r = await super().acquire(); EV.append((self.name+".acq", role())); return r
    def release(self):
        super().release(); EV.append((self.name+".rel", role()))
def mid(x): return "DONE" if x is rmod.QUEUE_DONE else IDS[bytes(x)]
class LQueue(asyncio.Queue):
    async def put(self, x): EV.append(("q.put", mid(x))); return await super().put(x)
    async def get(self):
        x = await super().get(); EV.append(("q.get", mid(x))); return x
class LEvent(asyncio.Event):
    def is_set(self):
        r = super().is_set(); EV.append(("fin?", r)); return r
    def set(self): EV.append(("STOP",)); super().set()
class Shim(types.ModuleType):
    def __getattr__(self, n): return getattr(asyncio, n)
shim = Shim("asyncio_shim"); shim.Queue = LQueue
async def wait(fs, timeout=None, **kw):
    d, p = await asyncio.wait(fs, timeout=timeout, **kw)
    if role()=="pf":
        EV.append(("poll", len(d)))
        for f in d:
            if f.exception() is not None and isinstance(f.exception(), StopAsyncIteration): EV.append(("exhausted",))
    elif role()=="rn": EV.append(("waited", len(p)))
    return d, p
shim.wait = wait
rmod.asyncio = shim
IDS={}
def run_scenario(sc):
    EV.clear(); IDS.clear()
    loop = VLoop(); asyncio.set_event_loop(loop)
    class B(AsyncBroker):
        async def kick(self, m): pass
        async def listen(self):
            for t, i, data in sc["msgs"]:
                d = t - loop.time()
                if d > 0: await asyncio.sleep(d)
                EV.append(("TAKE", i)); yield data
            if sc["ends"]:
                EV.append(("END",)); return
            await asyncio.sleep(10**7)
    br = B()
    @br.task(task_name="t")
    async def t(d: float, o: str):
        await asyncio.sleep(d)
        if o == "raise": raise ValueError()
        if o == "nores": raise NoResultError()
    msgs=[]
    for i,(at, kind, d, o) in enumerate(sc["spec"]):
        data = b"garbage%d" % i if kind=="bad" else br.formatter.dumps(TaskiqMessage(task_id=str(i), task_name="t" if kind=="ok" else "unknown", labels={}, args=[d, o], kwargs={})).message
        IDS[data]=i; msgs.append((at, i, data))
    sc["msgs"]=msgs
    async def main():
        r = Receiver(br, max_async_tasks=sc["A"], max_prefetch=sc["P"], max_tasks_to_execute=sc["N"], run_startup=False, wait_tasks_timeout=sc["wtt"])
        if r.sem is not None: r.sem = LSem(sc["A"], "sem")
        r.sem_prefetch = LSem(sc["P"], "semp")
        op, orr, ocb = r.prefetcher, r.runner, r.callback
        async def pref(q, ev): asyncio.current_task()._vrole = "pf"; return await op(q, ev)
        async def run(q): asyncio.current_task()._vrole = "rn"; return await orr(q)
        async def cb(message, raise_err=False):
            i = IDS[bytes(message)]
            asyncio.current_task().add_done_callback(lambda _t: EV.append(("cbdone", i)))
            return await ocb(message=message, raise_err=raise_err)
        r.prefetcher, r.runner, r.callback = pref, run, cb
        ev = LEvent()
        if sc["stop"] is not None: loop.call_later(sc["stop"], ev.set)
        loop.call_later(sc["horizon"] - 0.001, lambda: EV.append(("CUTMARK",)))
        try: await asyncio.wait_for(r.listen(ev), sc["horizon"]); EV.append(("RETURN",))
        except asyncio.TimeoutError: EV.append(("CUT",))
    loop.run_until_complete(main()); loop.close()
    return list(EV)
def to_lts(ev, A):
    out=[]; i=0
    if ("CUTMARK",) in ev and ("RETURN",) not in ev[:ev.index(("CUTMARK",))]: ev = ev[:ev.index(("CUTMARK",))]
    while i < len(ev):
        e = ev[i]
        if e[0]=="STOP": out.append("EStop")
        elif e[0]=="TAKE": out.append(f"ETake {e[1]}")
        elif e[0]=="fin?": out.append("EPfCheck %s" % ("true" if e[1] else "false"))
        elif e[0]=="semp.acq": out.append("EPfAcquire")
        elif e[0]=="poll": pass
        elif e[0]=="semp.rel" and e[1]=="pf":
            out.append("EPfTimeout")   # or exit release, fixed below
        elif e[0]=="q.put": out.append("EPfGot %d" % e[1] if e[1]!="DONE" else "PUTDONE")
        elif e[0]=="sem.acq": pass
        elif e[0]=="semp.rel" and e[1]=="rn": out.append("ERnAcquire")
        elif e[0]=="q.get": out.append("ERnGet (IMsg %d)" % e[1] if e[1]!="DONE" else "ERnGet IDone")
        elif e[0]=="cbdone": out.append(f"ECbDone {e[1]}")
        elif e[0]=="sem.rel": pass
        elif e[0]=="waited": out.append("ERnWaited")
        elif e[0]=="END": out.append("EEnd")
        elif e[0]=="exhausted": out.append("EPfExhausted")
        i+=1
    # PUTDONE followed by pf release => EPfExit
    res=[]; k=0
    while k < len(out):
        if out[k]=="PUTDONE":
            assert out[k+1]=="EPfTimeout", out[k:k+3]; res.append("EPfExit"); k+=2
        else: res.append(out[k]); k+=1
    return res
def gen():
    n = rnd.randint(1,10); A = rnd.choice([None,1,1,2,3]); P = rnd.randint(0,3); spec=[]; t=0.0
    for i in range(n):
        t += rnd.choice([0,0,0,0.1,0.5,2.0])
        spec.append((t, rnd.choices(["ok","bad","unk"],[8,1,1])[0], rnd.choice([0,0.05,0.3,1.0,3.0]), rnd.choice(["ret","ret","raise","nores"])))
    return dict(A=A,P=P,N=rnd.choice([None,None,1,2,3,5]), wtt=rnd.choice([None,None,2.0]), stop=rnd.choice([None, rnd.uniform(0,t+4)]), spec=spec, horizon=t+50, ends=rnd.random()<.3)
cases=[]; nev=0
for k in range(NCASES):
    sc = gen(); ev = run_scenario(sc); l = to_lts(ev, sc["A"]); nev+=len(l)
    A = "None" if sc["A"] is None else "(Some %d)" % sc["A"]; N = "None" if sc["N"] is None else "(Some %d)" % sc["N"]
    cases.append("(Build_cfg %s %d %s, [%s])" % (A, sc["P"], N, "; ".join(l)))
os.makedirs("coq", exist_ok=True)
open("coq/RealCases.v","w").write("Require Import Recv.\nFrom Coq Require Import List. Import ListNotations.\nDefinition cases := [\n" + ";\n".join(cases) + "].\n"
 "Fixpoint firstbad (c : cfg) (s : st) (k : nat) (tr : list ev) : option nat := match tr with [] => None | e :: t => match step c s e with Some s' => firstbad c s' (S k) t | None => Some k end end.\n"
 "Fixpoint bad (i : nat) (l : list (cfg * list ev)) : list (nat*nat) := match l with [] => [] | c :: t => match firstbad (fst c) (init (fst c)) 0 (snd c) with None => bad (S i) t | Some k => (i,k) :: bad (S i) t end end.\n"
 "Eval vm_compute in bad 0 cases.\n")
print("cases", NCASES, "events", nev)
open("coq/realcases.txt","w").write("\n".join(cases))
