import sys, types, signal as real_signal, logging
logging.disable(logging.CRITICAL)
import taskiq.cli.worker.process_manager as pm
from taskiq.cli.worker.args import WorkerArgs

class Stop(Exception): pass
class World:
    def __init__(self, script):
        self.script = script  # list of per-tick event lists
        self.tick = 0; self.trace = []; self.procs = {}; self.next_pid = 100; self.handlers = {}
        self.queue = []
W = None
class FProc:
    def __init__(self, target=None, kwargs=None, name=None, daemon=None):
        self.name = name; self.pid = None; self.state = "new"
    def start(self):
        self.pid = W.next_pid; W.next_pid += 1; self.state = "live"; W.procs[self.pid] = self
        W.trace.append(("start", self.name, self.pid))
    def terminate(self):
        W.trace.append(("terminate", self.pid, self.state))
        if self.state == "live": self.state = "zombie"
    def join(self, timeout=None):
        W.trace.append(("join", self.pid))
        if self.state == "live": raise RuntimeError("join would block forever")
        self.state = "reaped"
    def is_alive(self):
        if self.state == "zombie": self.state = "reaped"
        return self.state == "live"
class FEvent:
    def wait(self, t=None): return False
class FQueue:
    def __init__(self, n=0): pass
    def put(self, x): W.queue.append(x)
    def get(self): return W.queue.pop(0)
    def empty(self): return not W.queue
def fsleep(n):
    if W.tick >= len(W.script): raise Stop
    for ev in W.script[W.tick]:
        if ev[0] == "die":
            p = mgr.workers[ev[1]]
            if p.state == "live": p.state = "zombie"; W.trace.append(("died", p.pid))
        elif ev[0] == "sig":
            W.handlers[ev[1]](ev[1], None)
        elif ev[0] == "file":
            pm.schedule_workers_reload(mgr.action_queue)
    W.tick += 1; W.trace.append(("tick", W.tick))
class FOs(types.ModuleType):
    def kill(self, pid, sig):
        p = W.procs.get(pid)
        W.trace.append(("kill", pid, p.state if p else None))
        if p is None or p.state == "reaped": raise ProcessLookupError(pid)
class FSignal(types.ModuleType):
    def __getattr__(self, n): return getattr(real_signal, n)
    def signal(self, num, h): W.handlers[num] = h
class FCur: name = "MainProcess"
pm.Process = FProc; pm.Event = FEvent; pm.Queue = FQueue; pm.sleep = fsleep
pm.os = FOs("os"); pm.signal = FSignal("signal"); pm.current_process = lambda: FCur
S = real_signal
for script, mf, n in [
    ([[("die",0)],[],[("sig",S.SIGHUP)],[("die",1),("sig",S.SIGINT)]], -1, 2),
    ([[("die",0)],[("die",0)],[("die",1)],[]], 2, 2),
    ([[("sig",S.SIGHUP),("die",0)],[("file",),("file",)],[]], 1, 2),
]:
    W = World(script)
    args = WorkerArgs(broker="x:y", modules=[], workers=n, max_fails=mf)
    mgr = pm.ProcessManager(args, worker_function=lambda args: None)
    try: rv = mgr.start()
    except Stop: rv = "running"
    print(rv, W.trace)
# mid-scan signal: worker 0 dies during sleep; SIGINT delivered right before the scan's first is_alive
print("--- mid-scan SIGINT")
W = World([[("die",0)],[],[]])
orig_alive = FProc.is_alive
fired = {"n":0}
def alive(self):
    if W.tick == 1 and fired["n"] == 0:
        fired["n"] = 1; W.handlers[S.SIGINT](S.SIGINT, None); W.trace.append(("SIGINT-midscan",))
    return orig_alive(self)
FProc.is_alive = alive
args = WorkerArgs(broker="x:y", modules=[], workers=2, max_fails=-1)
mgr = pm.ProcessManager(args, worker_function=lambda args: None)
try: rv = mgr.start()
except Stop: rv = "running"
except Exception as e: rv = "EXC " + repr(e)
print(rv, W.trace)
