import pickle, json, traceback
from taskiq.result import TaskiqResult
def rt(exc, label):
    r = TaskiqResult(is_err=True, return_value=None, execution_time=0.0, error=exc)
    out = {}
    for name, f in [("json", lambda: TaskiqResult.model_validate_json(r.model_dump_json())),
                    ("dict", lambda: TaskiqResult.model_validate(r.model_dump())),
                    ("pickle", lambda: pickle.loads(pickle.dumps(r)))]:
        try:
            e = f().error
            out[name] = (type(e).__module__ + "." + type(e).__qualname__, e.args if len(repr(e.args))<80 else "...", type(e.__cause__).__name__, type(e.__context__).__name__, e.__suppress_context__)
        except BaseException as x:
            out[name] = "FAIL " + type(x).__name__ + ": " + str(x)[:150].replace("\n"," ")
    print(label); [print("   ", k, v) for k, v in out.items()]
rt(ValueError("\ud800"), "lone surrogate")
rt(ValueError(float("nan")), "nan")
rt(ValueError((1,2)), "tuple arg")
rt(ValueError({1:2}), "intkey dict")
rt(KeyboardInterrupt("x"), "KeyboardInterrupt")
class Custom(Exception):
    def __init__(self, a, b): super().__init__(f"{a}-{b}"); self.a=a
rt(Custom(1,2), "custom init")
class BadRepr:
    def __repr__(self): raise RuntimeError("no")
    def __str__(self): raise RuntimeError("no")
rt(ValueError(BadRepr()), "bad repr")
def mk():
    class Local(Exception): pass
    return Local
rt(mk()(1), "local class")
a = ValueError("a"); b = KeyError("b"); a.__cause__ = b; b.__context__ = a
rt(a, "cycle")
try:
    try: raise KeyError("k")
    except KeyError as e: raise ValueError("v") from None
except ValueError as e: rt(e, "from None")
rt(ValueError(10**5000), "huge int")
rt(ValueError(b"\xff"), "bytes")
rt(ValueError(lambda: 1), "lambda arg")
class EqW(Exception):
    def __init__(self, *a): super().__init__(*a); self.lock = __import__("threading").Lock()
rt(EqW(1), "unpicklable attr")
rt(UnicodeDecodeError("utf-8", b"\xff", 0, 1, "bad"), "UnicodeDecodeError")
rt(ExceptionGroup("g", [ValueError(1)]), "ExceptionGroup")
rt(OSError(2, "No such file"), "OSError")
