import asyncio, inspect
from typing import Any, get_type_hints
from taskiq.message import TaskiqMessage
from taskiq.receiver.params_parser import parse_params

def f(a, b: int): return (a, b)
m = TaskiqMessage(task_id="1", task_name="t", labels={}, args=["5", "7"], kwargs={})
parse_params(inspect.signature(f), get_type_hints(f), m)
print("C08 args after parse:", m.args, "-> expected ['5', 7]")

# C09 leak
from taskiq.brokers.inmemory_broker import InMemoryBroker
b = InMemoryBroker()
@b.task(task_name="x", lab=1)
async def x(): return 1
async def main():
    await x.kicker().with_labels(extra="q").kiq()
    print("C09 task.labels after kicker.with_labels:", x.labels)
asyncio.run(main())
