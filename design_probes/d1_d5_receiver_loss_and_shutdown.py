import asyncio, sys
from vloop import VLoop
from taskiq.abc.broker import AsyncBroker
from taskiq.acks import AckableMessage
from taskiq.receiver import Receiver
from taskiq.brokers.inmemory_broker import InmemoryResultBackend

LOG=[]
class B(AsyncBroker):
    def __init__(self, arrivals):
        super().__init__()
        self.arrivals = arrivals  # list of (t, bytes)
    async def kick(self, m): pass
    async def listen(self):
        loop = asyncio.get_running_loop()
        for t, data in self.arrivals:
            d = t - loop.time()
            if d > 0: await asyncio.sleep(d)
            LOG.append((loop.time(), "take", data[:30]))
            yield data
        await asyncio.sleep(10**6)

async def main(A, P, N, nmsgs, dur, stop_at=None, wtt=None):
    loop = asyncio.get_running_loop()
    br = B([])
    br.result_backend = InmemoryResultBackend()
    @br.task(task_name="t")
    async def t(i: int, d: float):
        LOG.append((loop.time(), "start", i))
        await asyncio.sleep(d)
        LOG.append((loop.time(), "end", i))
    msgs=[]
    from taskiq.message import TaskiqMessage
    for i in range(nmsgs):
        m = TaskiqMessage(task_id=str(i), task_name="t", labels={}, args=[i, dur], kwargs={})
        msgs.append((0.0, br.formatter.dumps(m).message))
    br.arrivals = msgs
    r = Receiver(br, max_async_tasks=A, max_prefetch=P, max_tasks_to_execute=N, run_startup=False, wait_tasks_timeout=wtt)
    ev = asyncio.Event()
    if stop_at is not None:
        loop.call_later(stop_at, lambda: (LOG.append((loop.time(),"stop")), ev.set()))
    await r.listen(ev)
    LOG.append((loop.time(), "listen-returned"))

loop = VLoop()
asyncio.set_event_loop(loop)
import logging; logging.disable(logging.CRITICAL)
args = eval(sys.argv[1])
try:
    loop.run_until_complete(asyncio.wait_for(main(**args), 5000))
except Exception as e:
    LOG.append(("EXC", repr(e)))
for l in LOG: print(l)
