import asyncio, logging, itertools
logging.disable(logging.CRITICAL)
from taskiq import Context, TaskiqDepends, TaskiqMiddleware, SimpleRetryMiddleware
from taskiq.abc.broker import AsyncBroker
from taskiq.abc.result_backend import AsyncResultBackend
from taskiq.acks import AckableMessage, AcknowledgeType
from taskiq.exceptions import NoResultError
from taskiq.receiver import Receiver
LOG=[]
class RB(AsyncResultBackend):
    fail=False
    async def set_result(self, tid, r):
        LOG.append(("save.enter", tid, r.is_err, type(r.error).__name__, r.return_value, dict(r.labels)))
        if self.fail: raise RuntimeError("backend down")
        LOG.append(("save.exit", tid))
    async def is_result_ready(self, t): return True
    async def get_result(self, t, with_logs=False): return None
class B(AsyncBroker):
    def __init__(self): super().__init__(); self.sent=[]
    async def kick(self, m): LOG.append(("kick", m.task_id, dict(m.labels))); self.sent.append(m)
    async def listen(self):
        yield b""
def mw(i, asyn):
    class M(TaskiqMiddleware):
        if asyn:
            async def pre_execute(self, m): LOG.append(("pre_execute", i)); return m
            async def post_execute(self, m, r): LOG.append(("post_execute", i))
            async def post_save(self, m, r): LOG.append(("post_save", i))
            async def on_error(self, m, r, e): LOG.append(("on_error", i, type(e).__name__))
            async def pre_send(self, m): LOG.append(("pre_send", i)); return m
            async def post_send(self, m): LOG.append(("post_send", i))
        else:
            def pre_execute(self, m): LOG.append(("pre_execute", i)); return m
            def post_execute(self, m, r): LOG.append(("post_execute", i))
            def post_save(self, m, r): LOG.append(("post_save", i))
            def on_error(self, m, r, e): LOG.append(("on_error", i, type(e).__name__))
            def pre_send(self, m): LOG.append(("pre_send", i)); return m
            def post_send(self, m): LOG.append(("post_send", i))
    return M()
def dep():
    LOG.append(("dep.open",))
    try: yield 1
    except BaseException as e: LOG.append(("dep.saw", type(e).__name__)); raise
    finally: LOG.append(("dep.close",))
async def run(ack_type, outcome, backend_fail, ack_async, timeout=None):
    LOG.clear()
    b = B(); b.result_backend = RB(); b.result_backend.fail = backend_fail
    b.add_middlewares(mw(0, False), mw(1, True))
    labels = {"timeout": timeout} if timeout else {}
    @b.task(task_name="t", **labels)
    async def t(d: int = TaskiqDepends(dep)):
        LOG.append(("task.start",))
        try:
            if outcome == "raise": raise ValueError("x")
            if outcome == "base": raise KeyboardInterrupt()
            if outcome == "nores": raise NoResultError()
            if outcome == "slow": await asyncio.sleep(1)
            return 42
        finally: LOG.append(("task.end",))
    await t.kiq()
    msg = b.sent[0].message
    if ack_async:
        async def ack(): LOG.append(("ACK",))
    else:
        def ack(): LOG.append(("ACK",))
    r = Receiver(b, max_async_tasks=1, run_startup=False, ack_type=ack_type)
    await r.callback(AckableMessage(data=msg, ack=ack))
    return [x[0] if x[0] not in ("save.enter","on_error","dep.saw") else x[:4] for x in LOG]
async def main():
    for at in AcknowledgeType:
        for outcome, to in [("ret",None),("raise",None),("base",None),("nores",None),("slow",0.1)]:
            for bf in (False, True):
                seq = await run(at, outcome, bf, ack_async=bf, timeout=to)
                print(at.value, outcome, "backendfail" if bf else "", "->", [s if isinstance(s,str) else s for s in seq][4:])
asyncio.run(main())
