"""Shared by harness/props/C17.py and C18.py: history generators, Coq literals, the direct oracles
(literal transcriptions of the two statements over the fake-process observations of
drivers/pm_driver.py - they never look at the model) and the correspondence run."""
import itertools
import json

import common as C
import srctie

MFS_QUICK = [-1, 0, 1, 2, 3, 5]


# --------------------------------------------------------------------------- generators
def gen_evs(r, n, p, pint):
    evs = []
    while r.random() < p:
        k = r.random()
        if k < .55:
            # "dies" = a death that some poll outside the manager's loop reaps at once (see pm_driver: startup windows)
            evs.append(["die" if r.random() < .96 else "dies", r.randrange(n) if r.random() < .97 else n + r.randrange(2)])
        elif k < .75:
            evs.append(["hup"])
        elif k < .9:
            evs.append(["file"])
        elif r.random() < pint:
            evs.append([r.choice(["int", "int", "term"])])
    return evs


# the process the manager itself runs in (the statements do not depend on it).  No name starts with "worker":
# that is what the manager's own children are called.
CHILD_NAMES = ["Process-1", "Process-7", "supervisor-child", "SpawnProcess-3", "ForkPoolWorker-2",
               "taskiq-worker-manager", "Worker-host"]
RENAMED_MAIN = ["taskiq-manager", "my worker manager", "Worker", "main"]


def gen_env(r):
    k = r.random()
    if k < .25:
        return dict(name=r.choice(CHILD_NAMES), child=True)     # started by multiprocessing (a supervisor's Process)
    if k < .32:
        return dict(name=r.choice(RENAMED_MAIN), child=False)   # top-level process that renamed itself
    return None                                                 # MainProcess


# the configuration the manager is built from (see pm_driver: "cfg").  The statements do not depend on it.
EXTRA_ARGS = dict(shutdown_timeout=[0.5, 5, 30], max_async_tasks=[1, 10, 100], max_prefetch=[0, 1, 8], hardkill_count=[1, 3],
                  max_tasks_per_child=[1, 50], wait_tasks_timeout=[0.5, 10], max_threadpool_threads=[1, 4],
                  log_level=["DEBUG", "WARNING", "ERROR"], use_process_pool=[True], no_parse=[True], fs_discover=[True],
                  no_propagate_errors=[True], configure_logging=[False])


def gen_cfg(r):
    """absent (55 %) = the configuration of every earlier case: reload off, no observer, WorkerArgs built directly"""
    if r.random() < .55:
        return None
    reload = r.random() < .65
    extras = r.random() < .6                # the optional `reload` extra (watchdog, gitignore-parser) is importable
    if reload and extras:
        observer = "rec" if r.random() < .8 else "none"     # what the CLI passes / ProcessManager(args, func) by hand
    elif extras and r.random() < .15:
        observer = "rec"                    # an observer although reload is off: nothing must be scheduled on it
    else:
        observer = "none"                   # --reload without the extra: the CLI warns and passes None
    cfg = dict(reload=reload, extras=extras, observer=observer, no_gitignore=r.random() < .3, gitignore=r.random() < .5,
               via="cli" if r.random() < .25 else "direct")
    if r.random() < .4:
        cfg["args"] = {k: r.choice(EXTRA_ARGS[k]) for k in r.sample(sorted(EXTRA_ARGS), r.randint(1, 3))}
    return cfg


def mark(ev, at, j):
    return ev + [dict(at=at, j=j)]


def prep_rank(n, at, j):
    """order in which the points of prepare_workers occur: start 0..n-1, then poll j, wait j for j = 0..n-1"""
    return j if at == "start" else n + 2 * j + (at == "wait")


def prep_death(n, i, at, j):
    """worker i exits at point (at, j) of prepare_workers: before the poll of its own startup wait that poll reaps it
    (Live -> Reaped: "dies"), after it the process stays a zombie until the first scan ("die")"""
    return mark(["dies" if prep_rank(n, at, j) <= prep_rank(n, "poll", i) else "die", i], at, j)


def gen_prepare_window(r, n, pint):
    """events that happen INSIDE prepare_workers (the first 0.1 s x workers of the manager's life): workers that exit
    at once (import error, wrong broker path, OOM kill), signals, file changes.  Returned in the order in which the
    points occur; goes in front of the first tick's sleep events."""
    out = []
    points = [("start", j) for j in range(n)] + [(a, j) for j in range(n) for a in ("poll", "wait")]
    style = r.random()
    if style > .85:
        # the operator (or the supervisor, or the file watcher) acts while the workers are still starting: one or two
        # requests at arbitrary points of prepare_workers, maybe next to a worker that exits at once
        for _ in range(r.choice([1, 1, 2])):
            at, j = r.choice(points)
            k = r.random()
            out.append(mark([r.choice(["int", "term"]) if k < .6 and pint else "hup" if k < .8 else "file"], at, j))
        if r.random() < .35:
            i = r.randrange(n)
            at, j = r.choice([("start", i), ("poll", i), ("wait", i)])
            out.append(prep_death(n, i, at, j))
    elif style < .2:                                    # every worker crashes at startup
        for i in range(n):
            at, j = r.choice([("start", i), ("poll", i), ("poll", i), ("wait", i), r.choice(points[i:])])
            out.append(prep_death(n, i, at, j))
    else:
        for at, j in points:
            started = (j + 1) if at == "start" else n
            while r.random() < (.25 if style < .7 else .5):
                k = r.random()
                if k < .7:
                    i = j if r.random() < .7 else r.randrange(started)
                    out.append(prep_death(n, i, at, j))
                elif k < .8:
                    out.append(mark(["hup"], at, j))
                elif k < .9:
                    out.append(mark(["file"], at, j))
                elif r.random() < pint:
                    out.append(mark([r.choice(["int", "term"])], at, j))
    out.sort(key=lambda e: prep_rank(n, e[-1]["at"], e[-1]["j"]))
    return out or [prep_death(n, r.randrange(n), "poll", n - 1)]


def gen_reload_window(r, n, pint):
    """events inside the startup window of ONE replacement (ReloadOneAction.handle): before the poll of its startup
    wait only polled deaths ("dies": the window's own worker is reaped by that poll, any other by the fake), inside
    Event.wait anything"""
    out = []
    for at in ("start", "poll", "wait"):
        while r.random() < .45:
            k = r.random()
            if k < .65:
                out.append(mark(["dies" if at != "wait" else "die", r.randrange(n)], at, 0))
            elif k < .8:
                out.append(mark(["hup"], at, 0))
            elif k < .9:
                out.append(mark(["file"], at, 0))
            elif r.random() < pint:
                out.append(mark([r.choice(["int", "term"])], at, 0))
    return out


def add_reload_windows(r, n, pint, ticks):
    """make a replacement likely (a death one tick earlier: drain point 1 follows its reload; or a reload-all: drain
    points 2.. follow the reloads) and put window events at the head of the drain point that follows it"""
    if len(ticks) < 2:
        return
    for _ in range(r.choice([1, 1, 2])):
        t = r.randrange(1, len(ticks))
        i = r.randrange(n)
        if r.random() < .6:
            ticks[t - 1]["sleep"].append(["die", i])
            ks = [1]
        else:
            ticks[t]["sleep"].insert(0, r.choice([["hup"], ["file"]]))
            ks = r.sample(range(2, n + 2), r.randint(1, min(n, 2)))
        d = ticks[t]["drain"]
        for k in ks:
            d += [[] for _ in range(k + 1 - len(d))]
            if not (d[k] and isinstance(d[k][0][-1], dict)):
                d[k] = (gen_reload_window(r, n, pint) or [mark(["dies", i], "poll", 0)]) + d[k]


def gen_case(r, max_ticks=40, mfs=MFS_QUICK, max_n=4):
    n = r.randint(1, max_n)
    if r.random() < .06:
        n = 5
    mf = r.choice(mfs)
    T = r.choice([r.randint(1, 6), r.randint(4, 15), r.randint(10, max_ticks)])
    rate = r.choice([.08, .3, .3, .55, .7])
    pint = r.choice([0, .1, .3, 1])
    if mf >= 1 and r.random() < .5:      # keep some budgeted histories long: few deaths
        rate = .08
    ticks = [dict(sleep=gen_evs(r, n, rate, pint), drain=[], alive=[]) for _ in range(T)]
    if r.random() < .45:
        for _ in range(r.randint(1, 5)):
            t = r.choice(ticks)
            evs = gen_evs(r, n, .7, pint) or [["die", r.randrange(n)]]
            if r.random() < .45:
                k = r.choice([0, 0, 1, 1, 2, 3, 4])
                t["drain"] += [[] for _ in range(k + 1 - len(t["drain"]))]
                t["drain"][k] = t["drain"][k] + evs
            else:
                k = r.randrange(n)
                t["alive"] += [[] for _ in range(k + 1 - len(t["alive"]))]
                t["alive"][k] = t["alive"][k] + evs
    if r.random() < .07:
        # request burst: several reload (and maybe a shutdown) requests reach the manager within ONE tick - a noisy
        # file watcher, repeated SIGHUPs.  Queue occupancy grows with (requests x workers): crosses any bound that
        # was sized from the worker count.
        t = r.choice(ticks)
        for _ in range(r.choice([2, 2, 3, 4, 6])):
            ev = [r.choice(["hup", "hup", "file"])]
            k = r.random()
            if k < .6:
                t["sleep"].insert(r.randint(0, len(t["sleep"])), ev)
            else:
                j = r.choice([0, 0, 1, 2])
                t["drain"] += [[] for _ in range(j + 1 - len(t["drain"]))]
                t["drain"][j] = t["drain"][j] + [ev]
        if r.random() < .25:
            t["sleep"].append([r.choice(["int", "term"])])
    k = r.random()
    if k < .09:
        # startup windows: things that happen while prepare_workers / a reload is still waiting for the new process
        ticks[0]["sleep"] = gen_prepare_window(r, n, pint) + ticks[0]["sleep"]
    if .06 < k < .13:
        add_reload_windows(r, n, pint, ticks)
    c = dict(n=n, mf=mf, p0=r.choice([1, 100, 100, 1000, r.randint(1, 2000)]), ticks=ticks)
    if r.random() < .35:
        c["slow"] = r.choice([2, 2, 3])     # workers that need an unbounded join() to exit after terminate()
    env = gen_env(r)
    if env:
        c["env"] = env
    cfg = gen_cfg(r)
    if cfg:
        c["cfg"] = cfg
    return c


def reload_requests(t):
    return sum(1 for evs in [t["sleep"]] + t["drain"] + t["alive"] for e in evs if e[0] in ("hup", "file"))


def has_mid(c):
    return any(any(t["drain"]) or any(t["alive"]) for t in c["ticks"])


def tick_alphabet(n, reduced):
    """events of one sleep: any subset of workers dies x reload requests x shutdown signal.
    full: reload in {none, SIGHUP, SIGHUP+file change}, signal in {none, SIGINT first, SIGTERM last};
    reduced (histories that also get a mid-tick injection): reload in {none, SIGHUP}, signal in {none, SIGINT first}.
    Returns (events, stops) - a tick with SIGINT/SIGTERM makes the manager return, so the history ends there."""
    out = []
    for deaths in itertools.product([0, 1], repeat=n):
        d = [["die", i] for i in range(n) if deaths[i]]
        for rl in (([], [["hup"]]) if reduced else ([], [["hup"]], [["hup"], ["file"]])):
            for it in ((0, 1) if reduced else (0, 1, 2)):
                out.append((([["int"]] if it == 1 else []) + d + rl + ([["term"]] if it == 2 else []), it != 0))
    return out


def sleep_histories(n, depth, reduced):
    alpha = tick_alphabet(n, reduced)

    def rec(prefix, d):
        if d == 0:
            yield prefix
            return
        for evs, stop in alpha:
            t = dict(sleep=evs, drain=[], alive=[])
            if stop:
                yield prefix + [t]
            else:
                yield from rec(prefix + [t], d - 1)
    return rec([], depth)


def exhaustive_sleep(n, mf, depth):
    """every history of at most `depth` ticks whose events all fall inside the sleeps"""
    for h in sleep_histories(n, depth, False):
        yield dict(n=n, mf=mf, p0=100, ticks=h)


def exhaustive_mid(n, mf, depth):
    """every (reduced-alphabet) history of at most `depth` ticks x one mid-tick injection: tick t, point in
    {1st empty() call, 2nd empty() call, before the j-th is_alive() of start()}, events in
    {one death, SIGHUP, SIGINT, death+SIGINT}"""
    evsets = [[["die", i]] for i in range(n)] + [[["hup"]], [["int"]], [["die", 0], ["int"]]]
    points = [("drain", 0), ("drain", 1)] + [("alive", j) for j in range(n)]
    for h in sleep_histories(n, depth, True):
        for t in range(len(h)):
            for kind, k in points:
                for evs in evsets:
                    h2 = [dict(x) for x in h]
                    h2[t] = dict(h[t])
                    h2[t][kind] = [[] for _ in range(k)] + [evs]
                    yield dict(n=n, mf=mf, p0=100, ticks=h2)


PREP_CFGS = [None,
             dict(reload=True, extras=True, observer="rec", no_gitignore=False, gitignore=True, via="direct"),
             dict(reload=True, extras=False, observer="none", no_gitignore=False, gitignore=False, via="cli")]


def exhaustive_prep(n, mf, depth):
    """every way the workers can exit inside prepare_workers (each worker: not at all / inside its own Process.start()
    / right before the poll of its startup wait / inside the Event.wait of that wait) x {no signal, SIGHUP inside the
    first start(), SIGINT inside the last Event.wait that is reached} x every (reduced-alphabet) history of at most
    `depth` ticks"""
    k = 0
    for fates in itertools.product([None, "start", "poll", "wait"], repeat=n):
        for sig in (None, "hup", "int"):
            pre = [prep_death(n, i, at, i) for i, at in enumerate(fates) if at]
            if sig == "hup":
                pre.append(mark(["hup"], "start", 0))
            if sig == "int":
                pre.append(mark(["int"], "wait", n - 1))
            if not pre:
                continue
            k += 1          # decorrelate the configuration from the position in the history enumeration
            pre.sort(key=lambda e: prep_rank(n, e[-1]["at"], e[-1]["j"]))
            for h in sleep_histories(n, depth, True):
                h2 = [dict(x) for x in h]
                h2[0]["sleep"] = pre + h2[0]["sleep"]
                c = dict(n=n, mf=mf, p0=100, ticks=h2)
                cfg = PREP_CFGS[k % len(PREP_CFGS)]
                k += 1
                if cfg:
                    c["cfg"] = cfg
                yield c


# --------------------------------------------------------------------------- Coq literals
def c_ev(e):
    return {"die": lambda: "Die %d" % e[1], "dies": lambda: "DieS %d" % e[1], "hup": lambda: "Hup", "int": lambda: "Int", "term": lambda: "Term",
            "file": lambda: "FileChange"}[e[0]]()


def c_evs(l):
    return C.clist([c_ev(e) for e in l])


def c_tick(t):
    return "(mkTE %s %s %s)" % (c_evs(t["sleep"]), C.clist([c_evs(x) for x in t["drain"]]),
                                C.clist([c_evs(x) for x in t["alive"]]))


def c_action(a):
    if a[0] == "all":
        return "ReloadAll"
    if a[0] == "one":
        return "(ReloadOne %d %s)" % (a[1], C.cb(a[2]))
    if a[0] == "shutdown":
        return "Shutdown"
    raise ValueError(a)


def c_eff(e):
    k = e[0]
    if k == "start":
        return "Start %d %d" % (e[1], e[2])
    if k in ("terminate", "join", "kill"):
        return "%s %d" % (k.capitalize(), e[1])
    if k == "got":
        return "Got " + c_action(e[1:])
    if k == "exit":
        return "EExit " + ("ExitNone" if e[1] == "none" else "ExitFail")
    raise ValueError(e)


def c_outcome(res):
    if res[0] == "running":
        return "Cont"
    if res[0] == "exit":
        return "(Exited %s)" % ("ExitNone" if res[1] == "none" else "ExitFail")
    if res[0] == "crash" and isinstance(res[1], int):
        return "(Crashed %d)" % res[1]
    raise ValueError(res)


PST = {"live": "Live", "zombie": "Zombie", "reaped": "Reaped"}


def c_case(c, o):
    """raises ValueError when the observation has no counterpart in the model's types"""
    for t in o["ticks"]:
        for e in t:
            if e[0] in ("start", "terminate", "join", "kill") and not (isinstance(e[-1], int) and 0 <= e[-1] < 5000):
                raise ValueError(e)
    return C.cpair(
        "%d" % c["n"], C.cz(c["mf"]), "%d" % c["p0"], C.clist([c_tick(t) for t in c["ticks"]]),
        C.clist([C.clist([c_eff(e) for e in t]) for t in o["ticks"]]), c_outcome(o["result"]),
        C.clist(["mkProc %d %s" % (p, PST[s]) for p, s in o["final"]]), C.clist([c_action(a) for a in o["queue"]]))


COQ_HEADER = """From Coq Require Import ZArith List Bool. Import ListNotations.
From TQ Require Import ProcMan.
Definition case_t := (nat * Z * nat * list tick_events * list (list effect) * outcome * list proc * list action)%type."""
COQ_BODY = """Definition ok (c : case_t) : bool :=
  let '(n, mf, p0, hist, oticks, oo, ofinal, oqueue) := c in
  let '(mt, mo, ms) := run (mkCfg n mf) p0 hist in
  andb (list_eqb (list_eqb effect_eqb) mt oticks)
  (andb (outcome_eqb mo oo)
  (andb (list_eqb proc_eqb (workers ms) ofinal)
  (andb (list_eqb action_eqb (queue ms) oqueue)
  (andb (C17_check n oticks ofinal) (C18_check n mf oticks oo ofinal))))).
Fixpoint bad (i : nat) (l : list case_t) : list nat :=
  match l with [] => [] | c :: t => if ok c then bad (S i) t else i :: bad (S i) t end.
Eval vm_compute in bad 0%nat (cases : list case_t)."""


# --------------------------------------------------------------------------- direct oracles
def flat(o):
    return [e for t in o["ticks"] for e in t]


def oracle_c17(c, o):
    """'never two live processes for the same slot (the old one is terminated and waited for before its
    replacement starts), never changes the number of slots, replaces every worker that died within two
    supervision ticks unless it is shutting down or has exhausted its failure budget'"""
    bad = []
    n = c["n"]
    # (a) number of slots
    for b, snap in enumerate(o["bounds"] + [o["final"]]):
        if len(snap) != n:
            bad.append(("number of worker slots changed", dict(boundary=b, slots=len(snap), expected=n)))
            break
    prep = o["ticks"][0]
    if [e[:2] for e in prep] != [["start", i] for i in range(n)]:
        bad.append(("prepare_workers did not start exactly one process per slot", dict(prepare=prep)))
    # (b) one live process per slot - from the fake processes' own states at every start() ...
    for si in o["start_info"]:
        if si["live"]:
            bad.append(("two live processes for one slot", si))
            break
        if si["unreaped"]:
            bad.append(("replacement started before the old process was waited for", si))
            break
        if not 0 <= si["slot"] < n:
            bad.append(("process started for a slot that does not exist", si))
            break
    # ... and from the effect trace: previous occupant terminated, then joined, before the next Start of the slot
    cur, term, joined = {}, set(), set()
    for e in flat(o):
        if e[0] == "start":
            q = cur.get(e[1])
            if q is not None and q not in joined:
                bad.append(("Start of a slot whose previous process was not terminated and joined", dict(effect=e, prev=q)))
                break
            cur[e[1]] = e[2]
        elif e[0] == "terminate":
            term.add(e[1])
        elif e[0] == "join":
            if e[1] not in term:
                bad.append(("join without terminate", dict(effect=e)))
                break
            joined.add(e[1])
    if o["result"][0] == "join-blocks":
        bad.append(("join() on a live process that was never terminated (would block forever)", dict(result=o["result"])))
    if o["result"][0] in ("put-blocks", "get-blocks"):
        # the manager's thread is the only consumer of its action queue: a blocking put() on a full queue (or a
        # blocking get() on an empty one) made by that thread never returns.  It is neither shutting down nor out of
        # budget, and from here on no worker that dies (or is waiting in the queue) is ever replaced.
        bad.append(("the manager blocked forever on its own action queue: supervision stopped, no worker that dies "
                    "from now on is replaced", dict(result=o["result"], workers=o["final"], pending=o["queue"])))
    # (c) replacement within two ticks
    K = len(o["ticks"]) - 1                      # executed (possibly partially, if it exited) ticks
    exited = o["result"][0] != "running"
    for b, snap in enumerate(o["bounds"]):
        for i, (pid, stt) in enumerate(snap):
            if stt == "live":
                continue
            last = b + 2
            if K < last or (exited and K <= last):
                continue                         # script over, or the manager exited within those two ticks
            if not any(e[0] == "start" and e[1] == i for t in o["ticks"][b + 1:last + 1] for e in t):
                bad.append(("dead worker not replaced within two ticks", dict(slot=i, pid=pid, dead_at_boundary=b)))
                return bad
    return bad


def oracle_c18(c, o):
    """'exits with the failure status exactly when the number of unexpected worker exits it has handled reaches
    max_fails (never, if max_fails < 1); reload-all restarts every worker exactly once per tick in which they
    are handled without consuming that budget; on SIGINT/SIGTERM it signals every live worker exactly once and
    no process other than its own current workers, starts no further process, returns the success status'"""
    bad = []
    n, mf, res = c["n"], c["mf"], o["result"]
    if res[0] in ("put-blocks", "get-blocks"):
        # only the manager's own thread consumes the action queue: it will never take another action, so neither the
        # failure exit nor a reload-all nor a SIGINT/SIGTERM shutdown can happen any more
        bad.append(("the manager blocked forever on its own action queue: no further failure is handled, no reload-all "
                    "performed, no shutdown request honoured", dict(result=res, pending=o["queue"])))
    elif res[0] not in ("running", "exit"):
        bad.append(("start() raised or returned something other than None / -1", dict(result=res)))
    # handled unexpected exits = ReloadOne(is_reload_all=False) actions taken from the queue
    tr = flat(o)
    k = sum(1 for e in tr if e[:2] == ["got", "one"] and e[3] is False)
    if res == ["exit", "fail"]:
        if not (mf >= 1 and k == mf):
            bad.append(("failure exit although the handled unexpected exits did not reach max_fails",
                        dict(max_fails=mf, handled=k)))
    elif not (mf < 1 or k < mf):
        bad.append(("no failure exit although the handled unexpected exits reached max_fails",
                    dict(max_fails=mf, handled=k, result=res)))
    for p in o["puts"]:
        if p["state"] == "live" or p["state"] is None:
            bad.append(("failure reload scheduled for a worker that is alive", p))
            break
    # reload-all: every slot restarted exactly once in a tick that handles one (at most once if that tick exits)
    for t, effs in enumerate(o["ticks"][1:], 1):
        if not any(e[:2] == ["got", "all"] for e in effs):
            continue
        exits = t == len(o["ticks"]) - 1 and res[0] != "running"
        for i in range(n):
            cnt = sum(1 for e in effs if e[0] == "start" and e[1] == i)
            if (cnt > 1) if exits else (cnt != 1):
                bad.append(("reload-all tick did not restart every worker exactly once", dict(tick=t, slot=i, starts=cnt)))
                break
    # shutdown
    last = o["ticks"][-1]
    idx = next((j for j, e in enumerate(last) if e[:2] == ["got", "shutdown"]), None)
    if any(e[:2] == ["got", "shutdown"] for t in o["ticks"][:-1] for e in t):
        bad.append(("manager kept running after taking the shutdown action", {}))
    if idx is not None:
        suf = last[idx + 1:]
        if any(e[0] in ("start", "terminate", "join", "got") for e in suf):
            bad.append(("process started / action handled after the shutdown action", dict(after=suf)))
        if res != ["exit", "none"]:
            bad.append(("shutdown did not return the success status (None)", dict(result=res)))
        killed = [e[1] for e in suf if e[0] == "kill"]
        if len(set(killed)) != len(killed):
            bad.append(("a worker was signalled more than once", dict(killed=killed)))
        for kinfo in o["kills"]:
            if not kinfo["current"] or kinfo["state"] not in ("live", "zombie"):
                bad.append(("shutdown signalled a pid that is not a live current worker's", kinfo))
                break
        for pid, stt in o["final"]:
            if stt == "live" and pid not in killed:
                bad.append(("a live worker was not signalled on shutdown", dict(pid=pid)))
                break
    elif o["kills"]:
        bad.append(("os.kill outside the shutdown action", dict(kills=o["kills"])))
    # "on SIGINT/SIGTERM it signals every live worker ... returns the success status": a signal that reached the
    # manager's handler in tick t (0 = while prepare_workers was still starting the workers) is acted upon.  The
    # statement names no deadline; the reading that demands least of a manager that looks at its requests once per
    # tick: it has not happened if the manager completed two further whole ticks and is still running.  (A manager that
    # left through the failure exit first, or that blocked, is not "running" and is judged above.)
    K = len(o["ticks"]) - 1
    if res == ["running"]:
        for sg in o.get("signals") or []:
            if K >= sg["tick"] + 2:
                bad.append(("SIGINT/SIGTERM reached the manager's handler but two whole ticks later the manager is still "
                            "running: no worker was signalled, start() did not return",
                            dict(signal=sg, ticks_completed=K, config=o.get("args"))))
                break
    return bad


ORACLES = {"C17": oracle_c17, "C18": oracle_c18}


# --------------------------------------------------------------------------- distribution / coverage
def nontrivial(c, o):
    if any(len(t["sleep"]) + sum(map(len, t["drain"])) + sum(map(len, t["alive"])) >= 2 for t in c["ticks"]):
        return True
    ts = o["ticks"]
    return any(any(e[0] == "start" for e in ts[i]) for i in range(2, len(ts)))   # a death, then its reload


def count_case(rep, c, o):
    rep.count("workers:%d" % c["n"])
    rep.count("max_fails:%d" % c["mf"])
    if c.get("slow"):
        rep.count("with_slow_exit_workers")
    for pid_, code in o.get("exitcodes", []):
        rep.count("exit_status:%s" % code)
    rep.count("ticks:%s" % ("1-5" if len(c["ticks"]) <= 5 else "6-15" if len(c["ticks"]) <= 15 else "16+"))
    rep.count("outcome:" + "-".join(map(str, o["result"][:2] if o["result"][0] == "exit" else o["result"][:1])))
    if has_mid(c):
        rep.count("with_mid_tick_events")
    env = c.get("env")
    rep.count("manager_process:" + ("MainProcess" if not env else "multiprocessing-child" if env.get("child")
                                    else "renamed-main"))
    if env and any(e[0] in ("hup", "int", "term") for t in c["ticks"] for evs in [t["sleep"]] + t["drain"] + t["alive"]
                   for e in evs):
        rep.count("manager_process:non-main-and-signalled")
    cfg = c.get("cfg")
    if not cfg:
        rep.count("config:default(reload-off,no-observer,direct)")
    else:
        rep.count("config:reload-%s" % ("on" if cfg.get("reload") else "off"))
        rep.count("config:observer-%s" % cfg.get("observer"))
        rep.count("config:reload-extra-%s" % ("importable" if cfg.get("extras") else "missing"))
        rep.count("config:args-via-%s" % cfg.get("via", "direct"))
        if cfg.get("no_gitignore"):
            rep.count("config:no_gitignore")
        if cfg.get("gitignore"):
            rep.count("config:.gitignore-in-cwd")
        for k in cfg.get("args") or {}:
            rep.count("config:extra-arg-" + k)
        if o.get("watches"):
            rep.count("config:file-watcher-scheduled-on-observer")
        sigs = o.get("signals") or []
        if cfg.get("reload") and sigs:
            rep.count("config:reload-on-and-SIGINT/SIGTERM")
            if any(sg["tick"] == 0 for sg in sigs):
                rep.count("config:reload-on-and-SIGINT/SIGTERM-inside-prepare_workers")
    fv = o.get("file_via") or {}
    if fv.get("watcher"):
        rep.count("file_change:through-FileWatcher.dispatch")
    if fv.get("direct"):
        rep.count("file_change:direct-callback")
    if any(sg["tick"] == 0 for sg in o.get("signals") or []):
        rep.count("startup_window:SIGINT/SIGTERM-delivered-inside-prepare_workers")
    burst = max([reload_requests(t) for t in c["ticks"]] or [0])
    if burst >= 2:
        rep.count("reload_requests_in_one_tick:%s" % (burst if burst < 4 else "4+"))
        if c["n"] >= 3:
            rep.count("reload_burst_with_3+_workers")
    for m in o.get("qmax", []):
        rep.count("action_queue:" + ("unbounded" if not m else "bounded"))
    if o.get("full_puts"):
        rep.count("action_queue:put-on-full-queue")
    reloaded = None
    for effs in o["ticks"][1:]:
        seen = set()
        for j, e in enumerate(effs):
            if e[0] == "got":
                rep.count("branch:got-" + e[1] + ("-reload-all" if e[1] == "one" and e[3] else "-failure" if e[1] == "one" else ""))
                if e[1] == "one":
                    nxt = effs[j + 1][0] if j + 1 < len(effs) else None
                    if nxt == "terminate":
                        rep.count("branch:reload-handled")
                    elif nxt == "exit":
                        rep.count("branch:budget-exhausted")
                    else:
                        rep.count("branch:reload-deduplicated")
                        if not e[3]:
                            rep.count("branch:failure-reload-deduplicated")
            elif e[0] == "kill":
                rep.count("branch:shutdown-kill")
    for p in o["puts"]:
        rep.count("branch:scan-found-dead")
    if o["result"] == ["exit", "none"] and any(s != "live" for _, s in o["final"]):
        rep.count("branch:shutdown-skips-dead-worker")
    ev_lists = [(ti, kind, evs) for ti, t in enumerate(c["ticks"])
                for kind, evs in [("sleep", t["sleep"])] + [("drain", x) for x in t["drain"]] + [("alive", x) for x in t["alive"]]]
    marked = [(ti, kind, e) for ti, kind, evs in ev_lists for e in evs if isinstance(e[-1], dict)]
    if any(kind == "sleep" for _, kind, _ in marked):
        rep.count("startup_window:events-scripted-inside-prepare_workers")
        for at in sorted({e[-1]["at"] for _, kind, e in marked if kind == "sleep"}):
            rep.count("startup_window:prepare-point-" + at)
        if any(e[0] in ("die", "dies") for _, kind, e in marked if kind == "sleep"):
            rep.count("startup_window:worker-exits-inside-prepare_workers")
            dead = {e[1] for _, kind, e in marked if kind == "sleep" and e[0] in ("die", "dies")}
            if len(dead) >= c["n"]:
                rep.count("startup_window:every-worker-exits-inside-prepare_workers")
        if any(e[0] in ("hup", "file", "int", "term") for _, kind, e in marked if kind == "sleep"):
            rep.count("startup_window:signal-or-file-change-inside-prepare_workers")
    if any(kind == "drain" for _, kind, _ in marked):
        rep.count("startup_window:events-scripted-inside-a-reload")
    early = o.get("early") or {}
    if early.get("prepare"):
        rep.count("startup_window:delivered-inside-prepare_workers")
    if early.get("reload"):
        rep.count("startup_window:delivered-inside-a-reload")
    polled = o.get("polled") or {}
    if polled.get("by-startup-wait"):
        rep.count("startup_window:death-reaped-by-the-startup-wait")
    if polled.get("elsewhere"):
        rep.count("events:death-polled-outside-the-loop")
    if (o.get("deaths") or {}).get("startup-window"):
        rep.count("startup_window:worker-died-inside-a-window")
    for t in c["ticks"]:
        if any(t["drain"]):
            rep.count("events:mid-drain")
        if any(t["alive"]):
            rep.count("events:mid-scan-or-shutdown")


# --------------------------------------------------------------------------- the run
def explore(ctx, rep, pid, cases, label, shard=300, coq=True):
    """implementation run + direct oracle of `pid` + correspondence (whole trace, outcome, final state)"""
    obs = C.run_driver(ctx, "pm_driver", cases)
    lits, keep = [], []
    nbad = 0
    for c, o in zip(cases, obs):
        if "_crash" in o:
            rep.case(c, False)
            rep.fail("driver crashed", c, observed=o["_crash"])
            continue
        rep.case(c, nontrivial(c, o))
        count_case(rep, c, o)
        for what, detail in ORACLES[pid](c, o)[:1]:
            rep.fail(what, c, observed=dict(detail=detail, result=o["result"], ticks=o["ticks"]),
                     expected="see the statement of " + pid)
        try:
            lits.append(c_case(c, o))
            keep.append(c)
        except ValueError:
            nbad += 1      # observation outside the model's vocabulary: counts as a correspondence failure
    if not coq:            # failing-input search: implementation + direct oracle only
        return False
    bad, fails, _ = C.coq_eval(ctx, label, COQ_HEADER, lits, COQ_BODY, shard=shard)
    if nbad:
        fails = fails + ["%d observations not expressible in the model (start() raised / unexpected return)" % nbad]
    rep.corr(label, len(lits), bad, fails, lambda i: keep[i])
    rep.traces += len(lits) - len(bad)
    return bool(bad or fails)


def run(ctx, pid, meta):
    rep = C.Report(ctx, meta)
    rep.add_obligations(C.proof_obligations(pid))
    # source tie: ProcessManager.start / prepare_workers and the two handle() methods re-translated from the source text;
    # srcproofs/Src_procman_common.v + Src_procman_<pid>.v re-checked against the generated definitions
    src_obs, src_info = srctie.obligations(ctx, "procman", pid)
    rep.add_obligations(src_obs)
    rep.extra["source_tie"] = src_info
    corpus = [c for pp in ("C17", "C18") for _, c in C.load_corpus(pp)]
    broken = explore(ctx, rep, pid, corpus, "corpus") if corpus else False
    r = ctx.sub_rng("gen")
    cases = [gen_case(r) for _ in range(ctx.n(1500, 50000))]
    broken |= explore(ctx, rep, pid, cases, "random", shard=100)
    if not ctx.quick:
        rep.exhaustive = True
        for fam, n, depth in THOROUGH[pid]:
            gen = {"sleep": exhaustive_sleep, "mid": exhaustive_mid, "prep": exhaustive_prep}[fam]
            it = (c for mf in (-1, 0, 1, 2, 3) for c in gen(n, mf, depth))
            total, k = 0, 0
            while True:
                batch = list(itertools.islice(it, 40000))
                if not batch:
                    break
                broken |= explore(ctx, rep, pid, batch, "exh_%s_n%d_d%d_%d" % (fam, n, depth, k), shard=2500)
                total += len(batch)
                k += 1
            rep.extra["exhaustive_%s_n%d" % (fam, n)] = dict(depth=depth, max_fails=[-1, 0, 1, 2, 3], histories=total)
    if (broken or any(not ob["ok"] for ob in rep.obligations)) and not rep.failures:
        r2 = ctx.sub_rng("search")
        explore(ctx, rep, pid, [gen_case(r2) for _ in range(ctx.n(15000, 100000))], "search", coq=False)
    return rep.finish()


# exhaustive families of the thorough tier (family, workers, depth).  Same model and driver for both properties:
# C17 carries the deep sleep-event family, C18 the deep mid-tick family, each also runs the other one shallower.
THOROUGH = {
    "C17": [("sleep", 1, 4), ("sleep", 2, 4), ("sleep", 3, 3), ("mid", 1, 2), ("mid", 2, 2), ("mid", 3, 1),
            ("prep", 1, 3), ("prep", 2, 2), ("prep", 3, 1)],
    "C18": [("mid", 1, 3), ("mid", 2, 3), ("mid", 3, 2), ("sleep", 1, 3), ("sleep", 2, 3), ("sleep", 3, 2),
            ("prep", 1, 2), ("prep", 2, 1)],
}


def replay(ctx, pid, path):
    rec = json.load(open(path))
    c = rec.get("case", rec)
    o = C.run_driver(ctx, "pm_driver", [c], nproc=1)[0]
    print("case:", json.dumps({k: c[k] for k in ("n", "mf", "p0", "slow", "env", "cfg", "ticks") if k in c}))
    if "_crash" in o:
        print("driver crashed:", o["_crash"])
        return 1
    print("implementation: result", o["result"])
    for t, effs in enumerate(o["ticks"]):
        print("  tick %d: %s" % (t, effs))
    print("  final workers:", o["final"], "queue:", o["queue"])
    print("  SIGINT/SIGTERM deliveries:", o.get("signals"), " file changes:", o.get("file_via"), " watches:", o.get("watches"))
    text = COQ_HEADER + "\nEval vm_compute in (run (mkCfg %d %s) %d %s).\n" % (
        c["n"], C.cz(c["mf"]), c["p0"], C.clist([c_tick(t) for t in c["ticks"]]))
    rc, out = C.coq_eval_raw(ctx, "replay", text)
    print("model (ProcMan.run):", " ".join(out.split())[:3000])
    bad = ORACLES[pid](c, o)
    for what, detail in bad:
        print("VIOLATED:", what, json.dumps(detail, default=str))
    print("holds" if not bad else "statement of %s violated" % pid)
    return 1 if bad else 0
