"""Shared machinery of the /verif checks.

Everything a property module (harness/props/Cxx.py) needs:
  * Ctx            - seed / tier / rng / scratch directory of one check run
  * coq_build      - full `make` of /verif/coq (flock-ed, under shell timeout)
  * coq_props      - compile coq/props/<ID>.v, one obligation per `Print Assumptions`
  * coq_eval       - write cases_k.v shards, evaluate with `vm_compute` in parallel
  * run_driver     - run an implementation driver (child /venv/bin/python, PYTHONPATH=/repo)
  * verdict        - known-findings matching, replay files, VIOLATION lines, evidence
Coq literal printers (cz, cn, cb, clist, copt, cstr, cbytes) are here too.
"""
import fcntl
import hashlib
import json
import os
import random
import re
import shutil
import subprocess
import sys
import time
from concurrent.futures import ThreadPoolExecutor

VERIF = os.path.dirname(os.path.dirname(os.path.abspath(__file__)))
REPO = os.environ.get("VERIF_REPO", "/repo")
COQ = os.path.join(VERIF, "coq")
BUILD = os.path.join(VERIF, "build")
PY = "/venv/bin/python"
NPROC = int(os.environ.get("VERIF_NPROC") or min(16, os.cpu_count() or 4))
FORBIDDEN = re.compile(
    r"\b(Admitted|admit|Axiom|Axioms|Parameter|Parameters|Conjecture|Conjectures|"
    r"Admit Obligations|Unset Guard Checking|Unset Positivity Checking|"
    r"Unset Universe Checking|bypass_check|type-in-type|impredicative-set|native_compute)\b"
)
# axioms declared by Coq's standard library that a property theorem may depend on
ALLOWED_AXIOMS = {
    "ClassicalDedekindReals.sig_forall_dec",
    "ClassicalDedekindReals.sig_not_dec",
    "FunctionalExtensionality.functional_extensionality_dep",
    "Classical_Prop.classic",
}
KERNEL_TB = "Coq 8.16.1 kernel + vm_compute (no native_compute, no extraction)"


# --------------------------------------------------------------------------- Coq literals
def cz(n):
    n = int(n)
    return "(%d)%%Z" % n if n < 0 else "%d%%Z" % n


def cn(n):
    n = int(n)
    assert 0 <= n < 5000, "nat literal too large: %r" % n
    return "%d%%nat" % n


def cb(b):
    return "true" if b else "false"


def clist(items):
    return "[" + "; ".join(items) + "]"


def copt(x, f=lambda v: v):
    return "None" if x is None else "(Some %s)" % f(x)


def cpair(*xs):
    return "(" + ", ".join(xs) + ")"


def cbytes(bs):
    """list of N (byte values)"""
    return "[" + "; ".join("%d%%N" % b for b in bs) + "]"


def cstr(s):
    """Coq string literal (ASCII printable only)."""
    assert all(32 <= ord(c) < 127 for c in s), s
    return '"' + s.replace('"', '""') + '"%string'


# --------------------------------------------------------------------------- context
def _norm_hash(path):
    """hash of a Python file's AST with docstrings removed (comments / layout / docstrings do not count)"""
    import ast
    try:
        tree = ast.parse(open(path).read())
    except (OSError, SyntaxError) as e:
        return "unreadable:%s" % type(e).__name__
    for node in ast.walk(tree):
        body = getattr(node, "body", None)
        if isinstance(body, list) and body and isinstance(body[0], ast.Expr) and \
                isinstance(getattr(body[0], "value", None), ast.Constant) and isinstance(body[0].value.value, str):
            node.body = body[1:] or [ast.Pass()]
    return hashlib.sha1(ast.dump(tree).encode()).hexdigest()


SRC_BASELINE = os.path.join(VERIF, "harness", "src_baseline.json")


def source_hashes(repo):
    out = {}
    root = os.path.join(repo, "taskiq")
    for dp, _dn, fns in os.walk(root):
        for fn in fns:
            if fn.endswith(".py"):
                full = os.path.join(dp, fn)
                out[os.path.relpath(full, repo)] = _norm_hash(full)
    return out


def changed_sources():
    """files under taskiq/ whose code differs from the tree the models were last validated against
    (harness/src_baseline.json, regenerated with ./check --baseline after every commit to /repo)"""
    try:
        base = json.load(open(SRC_BASELINE))
    except (OSError, ValueError):
        return []
    cur = source_hashes(REPO)
    return sorted(f for f in set(base) | set(cur) if base.get(f) != cur.get(f))


class Ctx:
    def __init__(self, pid, tier, seed, replay=None):
        self.pid, self.tier, self.seed, self.replay = pid, tier, seed, replay
        # change-aware effort: when the code under taskiq/ is not the code the models were last validated against,
        # the quick tier explores BOOST times as many cases (never an alarm by itself)
        self.changed = changed_sources()
        self.boost = int(os.environ.get("VERIF_BOOST", "2")) if self.changed else 1
        self.in_search = False
        self.rng = random.Random("%s/%d" % (pid, seed))
        self.dir = os.path.join(BUILD, pid if REPO == "/repo" else "%s-%s" % (pid, chash_s(REPO)))
        shutil.rmtree(self.dir, ignore_errors=True)
        os.makedirs(self.dir, exist_ok=True)
        self.t0 = time.time()
        self.quick = tier == "quick"

    def n(self, quick, thorough):
        if not self.quick:
            return thorough
        if self.boost <= 1 or self.in_search or not isinstance(quick, int) or not isinstance(thorough, int) \
                or isinstance(quick, bool) or quick >= 20000 or thorough <= quick:
            return quick        # extra-search budgets and non-count parameters are never multiplied
        return max(quick, min(quick * self.boost, 20000, thorough))

    def sub_rng(self, tag):
        if str(tag).startswith("search"):
            self.in_search = True
        return random.Random("%s/%d/%s" % (self.pid, self.seed, tag))


def chash_s(x):
    return hashlib.sha1(str(x).encode()).hexdigest()[:8]


def sh(cmd, timeout, cwd=None, env=None, inp=None):
    """Run a command under a shell-level timeout; returns (rc, stdout+stderr)."""
    full = ["timeout", "-k", "5", str(int(timeout))] + cmd
    p = subprocess.run(full, cwd=cwd, env=env, input=inp, stdout=subprocess.PIPE,
                       stderr=subprocess.STDOUT, text=True)
    return p.returncode, p.stdout


# --------------------------------------------------------------------------- Coq project
def _coq_sources():
    out = []
    for d in ("theories", "proofs", "findings", "props"):
        p = os.path.join(COQ, d)
        if os.path.isdir(p):
            out += sorted(os.path.join(d, f) for f in os.listdir(p) if f.endswith(".v"))
    return out


def coq_hygiene():
    """fail-closed grep over every .v file of the development"""
    bad = []
    for rel in _coq_sources():
        txt = open(os.path.join(COQ, rel)).read()
        txt = re.sub(r"\(\*.*?\*\)", "", txt, flags=re.S)
        for m in FORBIDDEN.finditer(txt):
            bad.append("%s: %s" % (rel, m.group(0)))
        if re.search(r"^\s*(Variable|Variables|Hypothesis|Hypotheses|Context)\b", txt, re.M):
            # allowed only inside a Section: check that a Section is open at that point
            depth = 0
            for line in txt.splitlines():
                if re.match(r"\s*Section\s+\w+\s*\.", line):
                    depth += 1
                elif re.match(r"\s*End\s+\w+\s*\.", line) and depth > 0:
                    depth -= 1
                elif re.match(r"\s*(Variable|Variables|Hypothesis|Hypotheses|Context)\b", line) and depth == 0:
                    bad.append("%s: %s outside a Section" % (rel, line.strip()))
    return bad


def coq_build(force_makefile=False):
    """Full .vo build of the whole development (never -vos). Returns (ok, log)."""
    os.makedirs(BUILD, exist_ok=True)
    with open(os.path.join(BUILD, ".coq.lock"), "w") as lk:
        fcntl.flock(lk, fcntl.LOCK_EX)
        cp = os.path.join(COQ, "_CoqProject")
        want = "-R . TQ\n-arg -w -arg -all\n" + "\n".join(_coq_sources()) + "\n"
        if not os.path.exists(cp) or open(cp).read() != want:
            open(cp, "w").write(want)
            force_makefile = True
        if force_makefile or not os.path.exists(os.path.join(COQ, "Makefile")):
            rc, out = sh(["coq_makefile", "-f", "_CoqProject", "-o", "Makefile"], 120, cwd=COQ)
            if rc != 0:
                return False, out
        rc, out = sh(["make", "-j%d" % NPROC], 3000, cwd=COQ)
        return rc == 0, out


def coq_props(pid):
    """Compile coq/props/<pid>.v on its own and read its Print Assumptions blocks.

    Returns a list of obligations: dict(name, ok, axioms, detail)."""
    src = os.path.join(COQ, "props", pid + ".v")
    text = open(src).read()
    wanted = re.findall(r"Print Assumptions\s+([\w.']+)\s*\.", text)
    theorems = re.findall(r"^\s*(?:Theorem|Lemma|Corollary)\s+([\w']+)", text, re.M)
    missing = [t for t in theorems if t not in wanted]
    rc, out = sh(["coqc", "-R", ".", "TQ", "-w", "-all", "props/%s.v" % pid], 900, cwd=COQ)
    obs = []
    if rc != 0:
        # find which theorem failed: compile error message carries a line number
        m = re.search(r'line (\d+), characters', out)
        line = int(m.group(1)) if m else 0
        failing = None
        for mm in re.finditer(r"^\s*(?:Theorem|Lemma|Corollary|Example)\s+([\w']+)", text, re.M):
            if text.count("\n", 0, mm.start()) + 1 <= line:
                failing = mm.group(1)
        return [dict(name=failing or (pid + ".v"), ok=False, axioms=[],
                     detail="coqc failed: " + out.strip()[-600:])]
    # split output per Print Assumptions, in order
    blocks = re.split(r"(?=Closed under the global context|Axioms:)", out)
    blocks = [b for b in blocks if b.startswith("Closed") or b.startswith("Axioms:")]
    for i, name in enumerate(wanted):
        if i >= len(blocks):
            obs.append(dict(name=name, ok=False, axioms=[], detail="no Print Assumptions output"))
            continue
        b = blocks[i]
        if b.startswith("Closed"):
            obs.append(dict(name=name, ok=True, axioms=[], detail="Closed under the global context"))
        else:
            ax = re.findall(r"^([\w.']+)\s*:", b, re.M)
            ax = [a for a in ax if a != "Axioms"]
            bad = [a for a in ax if a not in ALLOWED_AXIOMS]
            obs.append(dict(name=name, ok=not bad, axioms=ax,
                            detail=("axioms: " + ", ".join(ax)) if not bad else ("disallowed: " + ", ".join(bad))))
    for t in missing:
        obs.append(dict(name=t, ok=False, axioms=[], detail="theorem without Print Assumptions"))
    return obs


def coq_chk(pid):
    """thorough tier: re-check props/<pid>.vo and everything it depends on with the independent checker"""
    rc, out = sh(["coqchk", "-o", "-silent", "-R", ".", "TQ", "TQ.props." + pid], 1800, cwd=COQ)
    ax = []
    m = re.search(r"\* Axioms:(.*?)(?:\n\* |\Z)", out, re.S)
    if m:
        ax = [a.strip() for a in m.group(1).strip().splitlines() if a.strip() and "<none>" not in a]
    own = [a for a in ax if a.startswith("TQ.")]
    ok = rc == 0 and not own
    return dict(name="coqchk -o TQ.props.%s" % pid, ok=ok, axioms=[],
                detail=("re-checked; axioms of all loaded libraries: " + ", ".join(ax)[:1500]) if ok else
                ("coqchk rc=%d own-axioms=%r: %s" % (rc, own, out.strip()[-600:])))


def proof_obligations(pid):
    """hygiene + build + property file: list of obligations (each dict(name, ok, detail))."""
    obs = []
    bad = coq_hygiene()
    obs.append(dict(name="hygiene(no Admitted/Axiom/Parameter/unchecked)", ok=not bad, axioms=[],
                    detail="; ".join(bad)[:500] if bad else "clean"))
    ok, log = coq_build()
    obs.append(dict(name="make(coq, full .vo build)", ok=ok, axioms=[], detail="ok" if ok else log.strip()[-800:]))
    if ok:
        obs += coq_props(pid)
        if os.environ.get("VERIF_TIER") == "thorough" and all(o["ok"] for o in obs):
            obs.append(coq_chk(pid))
    return obs


_RES = re.compile(r"=\s*(.*?)\s*:\s*(?:list|prod|nat|bool|N\b|Z\b|option|\()", re.S)


def parse_nat_list(txt):
    """parse `= [1; 2] : list nat` style output (possibly wrapped) into list of ints"""
    m = re.search(r"=\s*\[(.*?)\]\s*:\s*list", txt, re.S)
    if not m:
        return None
    body = m.group(1).strip()
    if not body:
        return []
    return [int(re.sub(r"%\w+", "", x).strip()) for x in body.split(";")]


def coq_eval(ctx, name, header, case_lits, body, shard=400, timeout=900):
    """Evaluate cases inside Coq.

    header: Coq text (Requires + helper definitions).
    case_lits: list of Coq terms, one per case (all of one type).
    body: Coq text using `cases` (a list) that ends with one
          `Eval vm_compute in <expr : list nat>.`  The expression must return the
          indices (within the shard) of the cases on which the check fails.
    Returns (bad_indices(global), shard_failures[list of str], nshards)."""
    d = os.path.join(ctx.dir, name)
    os.makedirs(d, exist_ok=True)
    shards = [case_lits[i:i + shard] for i in range(0, len(case_lits), shard)] or [[]]
    files = []
    for k, sl in enumerate(shards):
        fn = os.path.join(d, "cases_%d.v" % k)
        with open(fn, "w") as f:
            f.write(header + "\nDefinition cases := [\n" + ";\n".join(sl) + "\n].\n" + body + "\n")
        files.append(fn)

    def one(fn):
        return sh(["coqc", "-R", COQ, "TQ", "-Q", d, "Cases", "-w", "-all", fn], timeout, cwd=d)

    with ThreadPoolExecutor(NPROC) as ex:
        res = list(ex.map(one, files))
    bad, fails = [], []
    for k, (rc, out) in enumerate(res):
        if rc != 0:
            fails.append("shard %d: coqc rc=%d: %s" % (k, rc, out.strip()[-400:]))
            continue
        l = parse_nat_list(out)
        if l is None:
            fails.append("shard %d: unparsable output: %s" % (k, out.strip()[-300:]))
            continue
        bad += [k * shard + i for i in l]
    return bad, fails, len(shards)


def coq_eval_raw(ctx, name, text, timeout=900):
    """Compile one generated .v file, return (rc, output)."""
    d = os.path.join(ctx.dir, name)
    os.makedirs(d, exist_ok=True)
    fn = os.path.join(d, name + ".v")
    open(fn, "w").write(text)
    return sh(["coqc", "-R", COQ, "TQ", "-Q", d, "Cases", "-w", "-all", fn], timeout, cwd=d)


# --------------------------------------------------------------------------- implementation side
def impl_env():
    env = dict(os.environ)
    env.update(PYTHONPATH=REPO + ":" + os.path.join(VERIF, "harness"), PYTHONDONTWRITEBYTECODE="1",
               PYTHONHASHSEED="0", TZ="UTC")
    env.pop("TASKIQ_VERIF", None)
    return env


def run_driver(ctx, driver, cases, opts=None, nproc=None, timeout=1800, chunk=None):
    """Run harness/drivers/<driver>.py over `cases` in parallel child processes.

    A driver defines `run_case(case, opts) -> observation` (JSON-able).  Returns the list of
    observations in case order; an observation {"_crash": "..."} stands for a driver failure."""
    nproc = nproc or NPROC
    if not cases:
        return []
    chunk = chunk or max(1, -(-len(cases) // nproc))
    parts = [cases[i:i + chunk] for i in range(0, len(cases), chunk)]
    d = os.path.join(ctx.dir, "impl_" + driver)
    os.makedirs(d, exist_ok=True)
    tag = "%d" % (time.time_ns() % 10**9)

    def one(k):
        fin = os.path.join(d, "in_%s_%d.json" % (tag, k))
        fout = os.path.join(d, "out_%s_%d.json" % (tag, k))
        json.dump(dict(cases=parts[k], opts=opts or {}), open(fin, "w"))
        rc, out = sh([PY, os.path.join(VERIF, "harness", "drivers", "_main.py"), driver, fin, fout],
                     timeout, cwd=d, env=impl_env())
        if rc != 0 or not os.path.exists(fout):
            return [{"_crash": "driver rc=%d: %s" % (rc, out.strip()[-1500:])}] * len(parts[k])
        r = json.load(open(fout))
        os.remove(fin)
        os.remove(fout)
        return r

    with ThreadPoolExecutor(nproc) as ex:
        res = list(ex.map(one, range(len(parts))))
    return [o for r in res for o in r]


# --------------------------------------------------------------------------- findings / verdict
def load_known():
    p = os.path.join(VERIF, "known_findings.json")
    return json.load(open(p)) if os.path.exists(p) else []


def canon(x):
    return json.dumps(x, sort_keys=True, default=str)


def chash(x):
    return hashlib.sha1(canon(x).encode()).hexdigest()[:12]


class Report:
    """Collects what one check run established and turns it into exit code + evidence."""

    def __init__(self, ctx, meta):
        self.ctx, self.meta = ctx, meta
        self.obligations = []      # dict(name, ok, detail)
        self.failures = []         # oracle failures on the implementation: dict(what, case, observed, expected, sig)
        self.mismatches = []       # model/implementation differences: dict(shard/name, case, impl, model)
        self.evaluations = 0
        self.nontrivial = set()
        self.samples = []
        self.dist = {}
        self.traces = 0
        self.extra = {}
        self.assumptions = []
        self.exhaustive = False

    # ---- recording
    def add_obligations(self, obs):
        self.obligations += obs

    def corr(self, name, n_cases, bad, fails, describe):
        """record one correspondence obligation (a family of shards)"""
        ok = not bad and not fails
        self.obligations.append(dict(name="correspondence:" + name, ok=ok, axioms=[],
                                     detail="%d cases, model = implementation" % n_cases if ok else
                                     "%d differing cases, %d shard failures" % (len(bad), len(fails))))
        for i in bad[:20]:
            self.mismatches.append(dict(name=name, index=i, case=describe(i)))
        for f in fails[:5]:
            self.mismatches.append(dict(name=name, index=None, case=f))

    def count(self, key, k=1):
        self.dist[key] = self.dist.get(key, 0) + k

    def case(self, c, nontrivial):
        self.evaluations += 1
        if nontrivial:
            self.nontrivial.add(chash(c))
        if len(self.samples) < 3:
            self.samples.append(c)

    def fail(self, what, case, observed=None, expected=None, sig=None):
        if what == "driver crashed" and isinstance(observed, str) and "importlib.import_module" in observed \
                and "/verif/harness/drivers/" in observed.split("import_module")[-1] and "taskiq/" not in observed.split("import_module")[-1]:
            # the driver process died while its own module was being imported, in harness code: no case ran at all.  That is
            # the harness failing to set up its observation on this tree - not an input on which the implementation
            # breaks the property; reported as an obligation that no longer checks (no-failing-input-found), once.
            name = "harness:driver-start"
            if not any(o["name"] == name for o in self.obligations):
                self.obligations.append(dict(name=name, ok=False, axioms=[], detail="the driver could not be started on this "
                                             "tree: " + " ".join(observed.split())[-400:]))
            return
        if what == "driver crashed" and isinstance(observed, str):
            import re as _re
            frames = _re.findall(r'File "([^"]+)", line \d+', observed)
            if frames and frames[-1].startswith(os.path.join(VERIF, "harness") + os.sep):
                # the exception was raised by harness code itself (innermost frame under /verif/harness): the harness failed to
                # observe this run - not an input on which the implementation is shown to break the property
                name = "harness:driver-crash"
                if not any(o["name"] == name for o in self.obligations):
                    self.obligations.append(dict(name=name, ok=False, axioms=[], detail="the driver raised in its own code: "
                                                 + " ".join(observed.split())[-400:]))
                return
        self.failures.append(dict(what=what, case=case, observed=observed, expected=expected, sig=sig or {}))

    # ---- verdict
    def finish(self, signatures=None, corpus_known=None):
        """signatures: name -> predicate(failure dict) for known findings of this property.
        corpus_known: name -> bool, whether the known finding's corpus replay reproduced on this tree."""
        ctx, pid = self.ctx, self.ctx.pid
        signatures = signatures or {}
        corpus_known = corpus_known or {}
        known = [k for k in load_known() if k["property"] == pid and k["status"] == "known"]
        lines, violations, replays = [], 0, []
        unexplained = []
        hit = set()
        for f in self.failures:
            m = None
            for k in known:
                pred = signatures.get(k["signature"])
                if pred is not None and pred(f):
                    m = k
                    break
            if m is None:
                unexplained.append(f)
            else:
                hit.add(m["signature"])
        for k in known:
            if k["signature"] in hit or corpus_known.get(k["signature"]):
                lines.append("KNOWN-FINDING: property=%s %s" % (pid, k["what_fails"]))
        os.makedirs(os.path.join(VERIF, "replays"), exist_ok=True)
        seen = set()
        for f in unexplained:
            key = f["what"]
            if key in seen:
                continue
            seen.add(key)
            path = os.path.join(VERIF, "replays", "%s-%s.json" % (pid, chash(f)))
            json.dump(dict(property=pid, kind="failing-input", seed=ctx.seed, tier=ctx.tier, **f,
                           replay_cmd="./check %s --replay %s" % (pid, path)), open(path, "w"), indent=1, default=str)
            lines.append("VIOLATION property=%s replay=%s" % (pid, path))
            replays.append(path)
            violations += 1
        broken = [o for o in self.obligations if not o["ok"]]
        if broken and not unexplained:
            path = os.path.join(VERIF, "replays", "%s-unproved-%s.json" % (pid, chash([o["name"] for o in broken])))
            json.dump(dict(property=pid, kind="obligation-no-longer-checks", seed=ctx.seed, tier=ctx.tier,
                           broken_obligations=broken, first_differing_cases=self.mismatches[:10],
                           note="the search over corpus, this run's cases and the extra budget found no input on "
                                "which the implementation itself breaks the property"),
                      open(path, "w"), indent=1, default=str)
            lines.append("VIOLATION property=%s replay=%s no-failing-input-found" % (pid, path))
            violations += 1
        self.write_evidence(violations)
        for l in lines:
            print(l)
        nob = len(self.obligations)
        print("%s tier=%s seed=%d: obligations %d/%d, evaluations %d (non-trivial distinct %d), "
              "oracle failures %d (unexplained %d), %.1fs" % (
                  pid, ctx.tier, ctx.seed, nob - len(broken), nob, self.evaluations, len(self.nontrivial),
                  len(self.failures), len(unexplained), time.time() - ctx.t0))
        for o in broken:
            print("  BROKEN obligation %s: %s" % (o["name"], o["detail"][:400]))
        shutil.rmtree(ctx.dir, ignore_errors=True)
        return 1 if violations else 0

    def write_evidence(self, violations):
        ctx, meta = self.ctx, self.meta
        axioms = sorted({a for o in self.obligations for a in o.get("axioms", [])})
        tb = [KERNEL_TB,
              "axioms reported by Print Assumptions: " + (", ".join(axioms) if axioms else "none (closed under the global context)"),
              "correspondence harness (generators, shims/fakes, Python->Coq literal printer, canonicalisers): /verif/harness"]
        tb += meta.get("trusted_base", [])
        cov = dict(
            obligations=len(self.obligations),
            discharged=sum(1 for o in self.obligations if o["ok"] and not o.get("skipped")),
            skipped=[o["name"] + ": " + o["detail"] for o in self.obligations if o.get("skipped")],
            checker_cmd="cd /verif/coq && make && coqc -R . TQ props/%s.v  (driven by ./check %s --tier %s)" % (
                ctx.pid, ctx.pid, ctx.tier),
            trusted_base=tb,
            obligation_list=[dict(name=o["name"], ok=o["ok"], detail=o["detail"][:300]) for o in self.obligations],
            evaluations=self.evaluations,
            distinct_nontrivial=len(self.nontrivial),
            rule=meta.get("rule", ""),
            samples=self.samples[:3] or ["(none)"],
            traces_validated_against_impl=self.traces,
            input_distribution=self.dist,
            exhaustive=self.exhaustive,
        )
        cov.update(self.extra)
        cov["source_changed_since_models_validated"] = ctx.changed[:50]
        cov["search_budget_factor"] = ctx.boost
        ev = dict(property_id=ctx.pid, tier=ctx.tier, seed=ctx.seed, level="proof", coverage=cov,
                  assumptions=meta.get("assumptions", []) + self.assumptions,
                  wall_s=round(time.time() - ctx.t0, 2), violations=violations)
        evd = os.environ.get("VERIF_EVIDENCE_DIR") or os.path.join(VERIF, "evidence")  # override: development only
        os.makedirs(evd, exist_ok=True)
        p = os.path.join(evd, ctx.pid + ".json")
        json.dump(ev, open(p + ".tmp", "w"), indent=1, default=str)
        os.replace(p + ".tmp", p)


def load_corpus(pid):
    d = os.path.join(VERIF, "corpus", pid)
    out = []
    if os.path.isdir(d):
        for f in sorted(os.listdir(d)):
            if f.endswith(".json"):
                out.append((f, json.load(open(os.path.join(d, f)))))
    return out
