"""Logging shims for the concurrent receiver (taskiq/receiver/receiver.py), installed from the driver process.

Nothing in /repo is edited: `taskiq.receiver.receiver.asyncio` is replaced by a module object that forwards to
the real asyncio except for Queue / wait (task creation is observed by the virtual loop's task TAGGER - vloop.VLoop.set_task_tagger -, whichever API is used; the loop's task factory stays what the code under test made it); the two semaphores and the finish event are logging
subclasses; prefetcher / runner / callback are wrapped as *instance attributes* only to tag the running task
with a role; the task tagger of the driver's loop logs every task created while a message's callback task is running
(`bg.new i` / `bg.done i`: work spawned for message i).  Every shim appends `[t_us, tag, a, b]` to one global raw log; `to_lts` maps the raw log to
events of coq/theories/RecvLTS.v (fail-closed: an unexpected raw sequence becomes an `EBad` marker that the
caller reports as a rejected trace)."""
import asyncio
import asyncio.queues as _aio_queues
import asyncio.tasks as _aio_tasks
import types


class Log:
    def __init__(self, loop):
        self.loop = loop
        self.ev = []

    def add(self, tag, a=None, b=None):
        self.ev.append([self.loop.time_us(), tag, a, b])


def role():
    try:
        t = asyncio.current_task()
    except RuntimeError:
        return None
    return getattr(t, "_vrole", None) if t is not None else None


def make_sem(log, n, name, base=asyncio.Semaphore):
    class LSem(base):
        _vlog = True

        async def acquire(self):
            r = await super().acquire()
            log.add(name + ".acq", role())
            return r

        def release(self):
            super().release()
            log.add(name + ".rel", role())

    return LSem(n)


def make_event(log):
    class LEvent(asyncio.Event):
        def is_set(self):
            r = super().is_set()
            if role() == "pf":
                log.add("fin?", bool(r))
            return r

        def set(self):
            log.add("STOP")
            super().set()

    return LEvent()


def adopt_event(ev, log):
    """an asyncio.Event object that somebody else created (the worker's entry point: its signal handlers set it) becomes a
    logging one IN PLACE: the same object, the class of make_event's (no state of its own); a repeated set() - a second
    signal - is logged once"""
    cls = type(make_event(log))

    class LEventOnce(cls):
        def set(self):
            if not asyncio.Event.is_set(self):
                cls.set(self)

    ev.__class__ = LEventOnce
    return ev


def install(rmod, log, ident):
    """replace `asyncio` inside taskiq.receiver.receiver; ident(message) -> message id (int)"""

    def mid(x):
        return "DONE" if x is rmod.QUEUE_DONE else ident(x)

    class LQueue(asyncio.Queue):
        async def put(self, x):
            log.add("q.put", mid(x), role())
            return await super().put(x)

        async def get(self):
            x = await super().get()
            log.add("q.get", mid(x), role())
            if role() == "rn":
                LAST_GET["id"] = mid(x)     # the message the runner holds when it creates the next callback task
            return x

    async def wait(fs, timeout=None, **kw):
        fs = set(fs)
        d, p = await asyncio.wait(fs, timeout=timeout, **kw)
        r = role()
        if r == "pf":
            log.add("poll", len(d))
            for f in d:
                if not f.cancelled() and isinstance(f.exception(), StopAsyncIteration):
                    log.add("exh")
        elif r == "rn":
            log.add("waited", len(p))
        return d, p

    def note_created(t, r):
        """called by the loop's task tagger for a task created while the prefetcher (r == "pf") or the runner (r == "rn") is the
        running task - whatever API made it (asyncio.create_task, loop.create_task, ensure_future); returns done-callbacks"""
        if r == "pf":
            log.add("la.new")
            # the look-ahead fetch ended because the broker's stream ended (used by the mapping only when the prefetcher
            # does not wait through asyncio.wait, see to_lts)
            return [lambda _t: log.add("la.exh") if not _t.cancelled()
                    and isinstance(_t.exception(), StopAsyncIteration) else None]
        if r == "rn":
            # the task is created for the message the runner has just taken from the queue.  The callback coroutine may
            # be handed over directly (LAST_CB says for which message it was made) or wrapped by the runner in a coroutine of
            # its own (a harmless refactoring): then the message is the one of the preceding q.get, and the callback that
            # eventually starts inside this task must be for that message (checked in the callback wrapper: `cb.wrong`)
            made_for = LAST_CB.pop("id", None)
            got = LAST_GET.pop("id", None)
            t._vexpect = got
            log.add("spawn", made_for if made_for is not None else got)
        return []

    class Shim(types.ModuleType):
        def __getattr__(self, n):
            return getattr(asyncio, n)

    def tag(t, loop):
        """the task tagger of the driver's loop (vloop.VLoop.set_task_tagger): called for every asyncio Task made by
        loop.create_task - whatever API was used (create_task, ensure_future, loop.create_task) and whatever makes the task (the
        default constructor, a task factory the application or the code under test set on the loop - at any time -, an eager
        one) - BEFORE the task's first step, the creating task being the current one.  The loop's task factory is not
        touched: loop.get_task_factory() is what the code under test / the application set, None by default.
        A task created while a message's callback task (or a task that one created) is the running task is work spawned for
        that message: `bg.new i` at creation, `bg.done i` from its done-callback (returned: the loop adds them)."""
        cbs = []
        try:
            cur = asyncio.current_task(loop)
        except RuntimeError:
            cur = None
        owner = getattr(cur, "_vmsg", None) if cur is not None else None
        if owner is not None:
            t._vmsg = owner
            log.add("bg.new", owner)
            cbs.append(lambda _t: log.add("bg.done", owner))
        r = getattr(cur, "_vrole", None) if cur is not None else None
        if r in ("pf", "rn"):
            cbs += note_created(t, r)
        return cbs

    log.loop.set_task_tagger(tag)
    shim = Shim("asyncio_logging_shim")
    shim.Queue = LQueue
    shim.wait = wait
    rmod.asyncio = shim
    # code of the receiver that lives (or has been moved) in another module of the package meets the same stand-ins
    import patchall
    pkg = rmod.__name__.rsplit(".", 1)[0]
    patchall.replace_everywhere(asyncio, shim, prefix=pkg)
    patchall.replace_everywhere(asyncio.Queue, LQueue, prefix=pkg)
    patchall.replace_everywhere(asyncio.wait, wait, prefix=pkg)
    # ... and the sub-modules asyncio re-exports them from, bound under any name (import asyncio.tasks as aio_tasks)
    patchall.patch_attr(_aio_tasks, "wait", wait, prefix=pkg)
    patchall.patch_attr(_aio_queues, "Queue", LQueue, prefix=pkg)
    return shim


def wrap_receiver(r, log, ident, A, P):
    """logging semaphores + role tags on one Receiver instance"""
    # the logging semaphores start with the permits the real constructor computed (not with the scenario's A, P); they are of
    # the class the code under test chose (Semaphore, BoundedSemaphore, ...)
    NAMES = {"sem": "sem", "sem_prefetch": "semp"}

    def logging_one(attr, value):
        if isinstance(value, asyncio.Semaphore) and not getattr(value, "_vlog", False):
            return make_sem(log, value._value, NAMES[attr], type(value))
        return value

    def ensure():
        for attr in NAMES:
            v = getattr(r, attr, None)
            w = logging_one(attr, v)
            if w is not v:
                setattr(r, attr, w)

    ensure()
    # The observation survives a RE-CREATION of the semaphores by the code under test (a listen() that builds fresh primitives
    # for the running loop, a reset between sessions): whatever asyncio.Semaphore is assigned to r.sem / r.sem_prefetch later is
    # replaced by a logging one of the same class and value at the assignment (the instance's class becomes a subclass of its
    # own class that differs in nothing but __setattr__); and - should the class not allow that - when a prefetcher / runner
    # of the instance starts.
    cls = type(r)

    def __setattr__(self, name, value):
        if name in NAMES:
            value = logging_one(name, value)
        cls.__setattr__(self, name, value)

    try:
        r.__class__ = type(cls.__name__, (cls,), {"__setattr__": __setattr__, "__module__": cls.__module__,
                                                  "__qualname__": cls.__qualname__})
    except TypeError:
        pass
    op, orr, ocb = r.prefetcher, r.runner, r.callback

    async def pref(q, ev):
        asyncio.current_task()._vrole = "pf"
        ensure()
        return await op(q, ev)

    async def run(q):
        asyncio.current_task()._vrole = "rn"
        ensure()
        return await orr(q)

    async def cb(message, raise_err=False):
        _vid = ident(message)
        t = asyncio.current_task()
        t._vrole = "cb"
        t._vmsg = _vid                      # read by the task factory: tasks created from here on belong to this message
        # (fourth field: how the callback task ended, only when it ended in the cancelled state)
        t.add_done_callback(lambda _t: log.add("cb.done", _vid, "cancelled" if _t.cancelled() else None))
        exp = getattr(t, "_vexpect", None)
        if exp is not None and exp != _vid:
            log.add("cb.wrong", _vid, exp)  # the task created for message `exp` runs the callback of another message
        log.add("cb.start", _vid)
        try:
            return await ocb(message=message, raise_err=raise_err)
        finally:
            log.add("cb.end", _vid)

    def cbf(message, raise_err=False):
        if role() == "rn":                  # called by the runner itself, to hand the coroutine to create_task
            LAST_CB["id"] = ident(message)  # read by the create_task shim that receives this coroutine
        return cb(message, raise_err)

    r.prefetcher, r.runner, r.callback = pref, run, cbf


LAST_CB = {}
LAST_GET = {}


# ----------------------------------------------------------------------------------------------------------
# raw log -> RecvLTS events (Coq literals)
LTS_TAGS = frozenset(["la.exh", "cb.wrong", "STOP", "TAKE", "END", "RETURN", "fin?", "la.new", "semp.acq", "semp.rel", "sem.acq", "sem.rel", "poll", "exh",
                      "q.put", "q.get", "spawn", "cb.end", "cb.done", "waited", "CUTMARK"])


def to_lts(ev, limited):
    """Returns (list of Coq event literals, cut: bool).  Grouping rules (one LTS event = one task step):
         fin? b                          -> EPfCheck b
         semp.acq(pf)                    -> EPfAcquire
         poll 0, semp.rel(pf)            -> EPfTimeout
         poll 1, [la.new], q.put i       -> EPfGot i newla
         poll 1, exh                     -> EPfExhausted
         q.put DONE, semp.rel(pf)        -> EPfExit
         [sem.acq(rn)], semp.rel(rn)     -> ERnAcquire      (sem.acq required iff limited)
         q.get i, spawn i                -> ERnGet (IMsg i);   q.get DONE -> ERnGet IDone
         cb.end i                        -> ECbEnd i
         [sem.rel(no task)], cb.done i   -> ECbDone i rel
         waited k                        -> ERnWaited (AllDone if k = 0 else Timeout)
         STOP / TAKE i / END / RETURN    -> EStop / ETake i / EEnd / EReturn
       The trace is cut at the harness' own cancellation mark (CUTMARK) if listen() had not returned."""
    tags = [e[1] for e in ev]
    cut = False
    if "CUTMARK" in tags:
        k = tags.index("CUTMARK")
        if "RETURN" not in tags[:k]:
            ev = ev[:k]
            cut = True
        else:
            ev = [e for e in ev if e[1] != "CUTMARK"]
    # only the shims' own entries take part in the grouping: everything else (cb.start, body.in/out, ack, ack.end, save, hook,
    # hook.aw, bg.new, bg.done, CUT ...) is not an LTS event.  Dropped BEFORE grouping, because a sync task body logs
    # body.in / body.out from its worker thread, and such an entry can land between the two raw entries of one task step
    # (seen under load: a spurious EBad)
    ev = [e for e in ev if e[1] in LTS_TAGS]
    # How did the prefetcher's wait for its look-ahead fetch end?  With asyncio.wait (the unchanged code) the wait stand-in
    # says so (`poll`, `exh`) and the grouping rules above apply.  A prefetcher that waits some other way (wait_for on a
    # shielded future, asyncio.timeout, ...) logs no `poll` at all; then the same LTS events are read off what the prefetcher
    # does next - all of it observed on objects, not on API names:
    #     semp.rel(pf) not part of an exit            -> EPfTimeout
    #     [la.new], q.put i (pf)                      -> EPfGot i newla
    #     q.put DONE, semp.rel(pf)                    -> EPfExit, preceded by EPfExhausted when the look-ahead fetch has
    #                                                    ended with StopAsyncIteration (la.exh) and the exit was not
    #                                                    decided by the finish check
    # The LTS itself demands LAPending / LAHas i / LAEnded for these steps from the broker-side events (TAKE, END).
    derived = not any(e[1] == "poll" for e in ev)
    if not derived:
        ev = [e for e in ev if e[1] != "la.exh"]
    exh_pending = False
    out = []
    i, n = 0, len(ev)
    first_la = True
    pend_semacq = False
    pend_semrel = False

    def tag(j):
        return ev[j][1] if j < n else None

    def bad(why):
        out.append("EBad(*%s*)" % why)

    while i < n:
        _, t, a, b = ev[i]
        if t == "STOP":
            out.append("EStop")
        elif t == "TAKE":
            out.append("ETake %d" % a)
        elif t == "END":
            out.append("EEnd")
        elif t == "RETURN":
            out.append("EReturn")
        elif t == "fin?":
            out.append("EPfCheck %s" % ("true" if a else "false"))
        elif t == "la.exh":
            exh_pending = True
        elif t == "la.new":
            if first_la and not any(x.startswith("EPf") for x in out):
                first_la = False
            elif derived and tag(i + 1) == "q.put" and ev[i + 1][2] != "DONE" and ev[i + 1][3] == "pf":
                out.append("EPfGot %d true" % ev[i + 1][2])
                i += 1
            else:
                bad("la.new outside a fetch")
        elif t == "semp.acq":
            if a == "pf":
                out.append("EPfAcquire")
            else:
                bad("semp.acq by %s" % a)
        elif t == "poll":
            if a == 0:
                if tag(i + 1) == "semp.rel" and ev[i + 1][2] == "pf":
                    out.append("EPfTimeout")
                    i += 1
                else:
                    # cut in the middle of the step is impossible (steps are atomic): anything else is a mismatch
                    bad("poll timeout without permit release")
            else:
                j = i + 1
                if tag(j) == "exh":
                    out.append("EPfExhausted")
                    i = j
                else:
                    newla = False
                    if tag(j) == "la.new":
                        newla = True
                        j += 1
                    if tag(j) == "q.put" and ev[j][2] != "DONE" and ev[j][3] == "pf":
                        out.append("EPfGot %d %s" % (ev[j][2], "true" if newla else "false"))
                        i = j
                    else:
                        bad("poll done without put")
        elif t == "q.put":
            if a == "DONE" and tag(i + 1) == "semp.rel" and ev[i + 1][2] == "pf":
                if derived and exh_pending and [x for x in out if x.startswith("EPf")][-1:] != ["EPfCheck true"]:
                    out.append("EPfExhausted")
                out.append("EPfExit")
                i += 1
            elif derived and a != "DONE" and b == "pf":
                out.append("EPfGot %d false" % a)
            else:
                bad("stray q.put %r" % (a,))
        elif t == "sem.acq":
            if a == "rn" and limited and tag(i + 1) == "semp.rel" and ev[i + 1][2] == "rn":
                out.append("ERnAcquire")
                i += 1
            else:
                bad("sem.acq not followed by the runner's permit release")
        elif t == "semp.rel":
            if a == "rn" and not limited:
                out.append("ERnAcquire")
            elif derived and a == "pf":
                out.append("EPfTimeout")
            else:
                bad("stray semp.rel by %s" % a)
        elif t == "q.get":
            if a == "DONE":
                out.append("ERnGet IDone")
            elif tag(i + 1) == "spawn" and ev[i + 1][2] == a:
                out.append("ERnGet (IMsg %d)" % a)
                i += 1
            else:
                bad("q.get without exactly one spawn")
        elif t == "spawn":
            bad("stray spawn")
        elif t == "cb.wrong":
            bad("the task created for message %s runs the callback of message %s" % (b, a))
        elif t == "cb.end":
            out.append("ECbEnd %d" % a)
        elif t == "sem.rel":
            if a is None and tag(i + 1) == "cb.done":
                out.append("ECbDone %d true" % ev[i + 1][2])
                i += 1
            else:
                bad("sem.rel outside a done-callback (role %s)" % a)
        elif t == "cb.done":
            out.append("ECbDone %d false" % a)
        elif t == "waited":
            out.append("ERnWaited %s" % ("AllDone" if a == 0 else "Timeout"))
        elif t == "exh":
            bad("stray exh")
        i += 1
    return out, cut
