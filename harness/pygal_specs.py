"""Which functions of /repo are tied to the Coq development by their source text (see pygal.py)."""
from pygal import ADT, CRON, DT, INT, STR, TD, Opt, Rec, Union

CO = Union("cron_offset_t", "CoNone", {"str": ("CoStr", STR), "timedelta": ("CoTd", TD)})
SCHED_TASK = Rec("sched_task", {"cron": ("st_cron", Opt(CRON)), "cron_offset": ("st_cron_offset", CO),
                                "time": ("st_time", Opt(DT))})

SPECS = {
    # taskiq/cli/scheduler/run.py: the delay / due decision of the scheduler loop (C13, C14)
    "sched_run": dict(
        file="taskiq/cli/scheduler/run.py", module="Gen_sched_run", proofs={"C13": "Src_sched_run_C13", "C14": "Src_sched_run_C14"},
        imports=["SchedDelay", "Civil", "Cron", "PyPrelude"],
        functions=[dict(name="to_tz_aware", params=[("time", DT)], ret=ADT),
                   dict(name="get_task_delay", params=[("task", SCHED_TASK)], ret=Opt(INT))]),
}

import pygal_retry  # noqa: E402

# taskiq/middlewares/retry_middleware.py: the retry decision and the re-send (C11)
SPECS["retry"] = pygal_retry.SPEC

import pygal_callback  # noqa: E402

# taskiq/receiver/receiver.py: the per-message pipeline Receiver.callback (C02, C07, C10), monadic backend (pygal_m.py)
SPECS["callback"] = pygal_callback.SPEC

import pygal_kiq  # noqa: E402

# taskiq/kicker.py: the send side AsyncKicker.kiq (C10), monadic backend, a function with a result
SPECS["kiq"] = pygal_kiq.SPEC

import pygal_on_ready  # noqa: E402

# taskiq/scheduler/scheduler.py: TaskiqScheduler.on_ready (C16), monadic backend over PyStm.v / PyPreludeSched.v
SPECS["on_ready"] = pygal_on_ready.SPEC

import pygal_sched_loop  # noqa: E402

# taskiq/cli/scheduler/run.py: get_schedules, get_all_schedules, delayed_send and one iteration of run_scheduler_loop (C15),
# monadic backend over PyStm.v / PyPreludeLoop.v
SPECS["sched_loop"] = pygal_sched_loop.SPEC

import pygal_load_gate  # noqa: E402

# taskiq/serialization.py: the load side - exception_to_python and what it calls (C20), monadic backend over PyStm.v /
# PyPreludeLoadGate.v; the generated exception_to_python_py is a structural Fixpoint on the payload tree
SPECS["load_gate"] = pygal_load_gate.SPEC

import pygal_labels  # noqa: E402

# taskiq/labels.py (LabelType, _LABEL_PARSERS, prepare_label, parse_label) + taskiq/message.py TaskiqMessage.parse_labels (C09)
SPECS["labels"] = pygal_labels.SPEC

import pygal_run_task  # noqa: E402

# taskiq/receiver/receiver.py: Receiver.run_task, the whole function - one translation, two readings:
# "run_task" over Pipeline.v's alphabet (C07), "run_task_deps" over Deps.v's (C12); monadic backend over PyStm.v
SPECS["run_task"] = pygal_run_task.SPEC
SPECS["run_task_deps"] = pygal_run_task.SPEC_DEPS

import pygal_labels_send  # noqa: E402

# the send side of the label path: Context.requeue (taskiq/context.py) and the label loop of
# AsyncKicker._prepare_message (taskiq/kicker.py), over their own copy of LabelType / prepare_label (C09)
SPECS["labels_send"] = pygal_labels_send.SPEC

import pygal_procman  # noqa: E402

# taskiq/cli/worker/process_manager.py: ProcessManager.start (one iteration of its loop) / prepare_workers,
# ReloadAllAction.handle, ReloadOneAction.handle (C17, C18), monadic backend over PyPreludeProcMan.v (a state monad)
SPECS["procman"] = pygal_procman.SPEC
