"""Which functions of /repo are tied to the Coq development by their source text (see pygal.py)."""
from pygal import ADT, CRON, DT, INT, STR, TD, Opt, Rec, Union

CO = Union("cron_offset_t", "CoNone", {"str": ("CoStr", STR), "timedelta": ("CoTd", TD)})
SCHED_TASK = Rec("sched_task", {"cron": ("st_cron", Opt(CRON)), "cron_offset": ("st_cron_offset", CO),
                                "time": ("st_time", Opt(DT))})

SPECS = {
    # taskiq/cli/scheduler/run.py: the delay / due decision of the scheduler loop (C13, C14)
    "sched_run": dict(
        file="taskiq/cli/scheduler/run.py", module="Gen_sched_run", proofs={"C13": "Src_sched_run_C13", "C14": "Src_sched_run_C14"},
        imports=["SchedDelay", "Civil", "Cron", "PyPrelude"],
        functions=[dict(name="to_tz_aware", params=[("time", DT)], ret=ADT),
                   dict(name="get_task_delay", params=[("task", SCHED_TASK)], ret=Opt(INT))]),
}

import pygal_retry  # noqa: E402

# taskiq/middlewares/retry_middleware.py: the retry decision and the re-send (C11)
SPECS["retry"] = pygal_retry.SPEC

import pygal_callback  # noqa: E402

# taskiq/receiver/receiver.py: the per-message pipeline Receiver.callback (C02, C07, C10), monadic backend (pygal_m.py)
SPECS["callback"] = pygal_callback.SPEC

import pygal_kiq  # noqa: E402

# taskiq/kicker.py: the send side AsyncKicker.kiq (C10), monadic backend, a function with a result
SPECS["kiq"] = pygal_kiq.SPEC

import pygal_on_ready  # noqa: E402

# taskiq/scheduler/scheduler.py: TaskiqScheduler.on_ready (C16), monadic backend over PyStm.v / PyPreludeSched.v
SPECS["on_ready"] = pygal_on_ready.SPEC

import pygal_procman  # noqa: E402

# taskiq/cli/worker/process_manager.py: ProcessManager.start (one iteration of its loop) / prepare_workers,
# ReloadAllAction.handle, ReloadOneAction.handle (C17, C18), monadic backend over PyPreludeProcMan.v (a state monad)
SPECS["procman"] = pygal_procman.SPEC
