"""C11 - the retry middleware re-sends a failing task a bounded number of times."""
import json
import os

import common as C
import retry_typed_gen as TG
import srctie
from cli_args import cli_argv
from props import C09 as L9

K, kstr = L9.K, L9.kstr
META = dict(
    id="C11",
    design_ref="DESIGN.md section 4, C11",
    technique="Coq proof (induction on the remaining re-send budget, over the label codec theorems of C09) + differential "
              "correspondence through the real encode -> Receiver.callback -> SimpleRetryMiddleware.on_error -> AsyncKicker.kiq -> "
              "kick loop",
    level_text="C11_bound (for every outcome stream, every max_retries : Z - label through int() or middleware default -, every "
               "starting _retries: at least one and at most max(1, max_retries - _retries) executions, all but the last failed, an "
               "early stop only on success / no-result; same task id, args and user labels at every execution), C11_results "
               "(re-sent executions store nothing under no_result_on_retry and an error result otherwise; the last execution stores "
               "its own outcome), C11_disabled and C11_noresult (exactly one execution) hold on the Gallina model "
               "coq/theories/Retry.v (on_error decision + result-saving rule + re-send through Labels.v's prepare/parse) for all "
               "inputs. The model is tied to /repo on every run: generated (outcome stream, config, label encodings, serializer) "
               "cases run through the real loop and the model's execution list (labels seen, outcome, stored, re-sent, raised) is "
               "compared inside coqc; the Boolean form C11_check of the statement is evaluated on every in-domain observation.",
    level_note="The statement's 'total number of executions reaches max_retries' is read with the counter the code keeps: the "
               "_retries label counts executions so far; a user-supplied starting _retries is outside the statement (covered by the "
               "model and the correspondence, not by the oracle). max_retries 0, 1 and negative all give exactly one execution. "
               "int() on label strings is modelled on the grammar [+-]?[0-9]+ ; whitespace / underscores / non-ASCII digits, and float "
               "or bytes values for max_retries / _retries, are outside the model and not generated. float_roundtrip (CPython "
               "float(str(f)) = f) is a hypothesis because each re-send re-encodes every label.",
    rule="case = (outcome stream F/S/N with the last outcome repeating, max_retries as int/str/bool label or default in -2..8, "
         "retry_on_error as bool/str/int/float/bytes label or default, no_result_on_retry, default_retry_count, optional starting "
         "_retries, 0-3 typed user labels, serializer, args); non-trivial iff the first non-failing outcome is at index >= 1, or "
         "max_retries in {0,1}, or a str-encoded max_retries / retry_on_error / _retries; distinct by canonical JSON of the case. "
         "About a fifth of the cases additionally carry a worker / broker configuration (env) the statement does not mention and "
         "that must not change any observation: propagate_exceptions, validate_params, ack type, ackable or bytes message, "
         "max_async_tasks / prefetch / max tasks / wait timeout, options given on the worker command line, delivery through a whole "
         "listen() session, a new Receiver per delivery, sync / async task function, generator dependencies, a failing dependency, "
         "failure by timeout label or by a falsy exception object, other middlewares around the retry middleware, a subclass of it. "
         "In about a quarter of those the exception a failing attempt dies of is itself varied (one or several per chain): every "
         "exception class the taskiq under test ships (enumerated in the driver at run time), failures produced by taskiq's own "
         "code called from the task (wait_result / gather with a timeout on a sub-task whose result never arrives, a failing "
         "result backend, ctx.reject(), kiq on a shared broker), builtin / asyncio / concurrent.futures exceptions, user "
         "subclasses of all of them (also named like taskiq's classes, with odd __bool__ / __eq__ / __hash__), exception groups, "
         "exceptions chained to a NoResultError, the same exception object re-used, a bare class; in about a fifth of those "
         "a failure that is a BaseException but not an Exception (asyncio.CancelledError raised or leaking from a cancelled inner "
         "task / future / gather / wait_for, SystemExit raised or through sys.exit() in library code, KeyboardInterrupt, "
         "BaseException, user subclasses of them, BaseExceptionGroup; in coroutine functions, pool-thread functions and "
         "dependencies); and the no-result signal as "
         "NoResultError or a user's subclass of it. Whether an attempt failed or signalled no-result is the case's choice "
         "(never read off taskiq's class hierarchy). "
         "About a tenth of the cases have typed arguments: the task function's parameters are annotated with pydantic models "
         "(constant defaults, default_factory defaults that yield a fresh value per construction, Optional / nested / aliased / "
         "extra fields, non-JSON field types), dataclasses, containers of them, plain types or nothing; the caller passes instances "
         "with fields left unset, dicts, lists, primitives - positionally, by keyword, omitted, through *rest / **extra - and the "
         "function records the canonical form of what it received on every attempt (oracle: every attempt receives what the "
         "first one received, and the first one what was sent). "
         "About 260 cases (7 %) of a quick run send the attempts through taskiq's real InMemoryBroker in its default mode (kick spawns "
         "Receiver.callback as a task; the retry middleware re-sends from inside the failing attempt) instead of the scripted "
         "one-after-the-other broker: coroutine-function bodies without a suspension point, bodies that really await (sleep(0), "
         "timer, future), pool-thread functions, every other task-function shape / failure kind, broker options, bystander tasks, "
         "most of them with no_result_on_retry off; there 'the final attempt's outcome is the stored result' is judged on what the "
         "real InmemoryResultBackend holds for the task id once all spawned work has settled. "
         "About 15 % of the env / in-memory cases (~90 random + 63 grid cases of a quick run) script the HOST'S WALL CLOCK as taskiq reads "
         "it (time.time(), wherever the package bound it; in a third of them also time.time itself): while the body of a chosen attempt "
         "(first / middle / final, one or several per chain) runs - between the two readings Receiver.run_task measures the attempt with - "
         "the clock steps backwards (4 ms .. 54 years) or forwards, is set to an absolute value (epoch 0, 2**31), or stands still; "
         "different epochs and loop-clock origins; the statement does not mention the clock, so no observation may change",
    trusted_base=["model: coq/theories/Retry.v + Labels.v + Base64.v (hand-written transcription of retry_middleware.on_error, the "
                  "NoResultError test in Receiver.callback, kicker re-send)",
                  "CPython str(float)/float(str) round trip (Section hypothesis float_roundtrip)",
                  "harness/retry_typed.py + retry_typed_gen.py: the user types (pydantic models, dataclasses), the generated task "
                  "function with annotated parameters, the canonical form of received arguments; pydantic's own model_dump(mode='json') "
                  "/ dataclasses.asdict as the documented wire form of a model / dataclass argument",
                  "harness/drivers/retry_driver.py + labels_driver.py: recording broker / middleware / result backend; the env "
                  "building blocks of retry_driver.py (task function shapes, bystander middlewares, listen-session wrapper) and "
                  "harness/cli_glue.py (real WorkerArgs.from_cli + start_listen with its imports replaced); the exception "
                  "builder of retry_driver.py (specs -> exception objects, ChildBackend / DropBroker for sub-tasks that never "
                  "finish); the wall-clock stand-in of retry_driver.py (put in by identity wherever the package bound time.time - "
                  "harness/patchall.py -: the loop's virtual time, or the case's scripted WallClock whose events are tied to the "
                  "driver's own task body); the in-memory "
                  "path of retry_driver.py (InMemScenario: subclass of InMemoryBroker whose kick notes the sender and calls the "
                  "real kick, recording subclass of InmemoryResultBackend, attribution of events to deliveries by a context "
                  "variable set around the real Receiver.callback / the message handed to the real run_task, the settle loop)"],
    assumptions=["label keys are distinct (Python dict); the labels the message is sent with hold values of the five primitive "
                 "types; max_retries and _retries, when present, are int / bool / [+-]digits str (otherwise int() raises: model "
                 "answer DCrash, compared by the correspondence, outside the theorems)"],
)


# ------------------------------------------------------------------ generator
def gen_case(r):
    labels = []
    k = r.random()
    mr_str = False
    if k < .2:
        pass
    else:
        m = r.choice([0, 1, 1, 2, 2, 3, 3, 4, 4, 5, 6, 7, 8, -1, -2])
        e = r.random()
        if e < .5:
            v = {"t": "int", "v": str(m)}
        elif e < .9:
            s = r.choice(["%d", "%d", "%d", "0%d", "+%d", "00%d"]) % abs(m) if m >= 0 else str(m)
            v, mr_str = {"t": "str", "v": K(s)}, True
        elif e < .95:
            v = {"t": "bool", "v": m % 2 == 1}
        else:
            v, mr_str = {"t": "str", "v": K(r.choice(["abc", "", "2.0", "1e1"]))}, True      # int() raises inside on_error
        labels.append([K("max_retries"), v])
    k = r.random()
    if k < .2:
        pass
    elif k < .5:
        labels.append([K("retry_on_error"), {"t": "bool", "v": r.random() < .88}])
    elif k < .85:
        labels.append([K("retry_on_error"), {"t": "str", "v": K(r.choice(
            ["true", "True", "TRUE", "tRuE", "true", "True", "true", "True", "TRUE", "false", "False", "yes", "1", "", "true ", "ｔrue"]))}])
    else:
        labels.append([K("retry_on_error"), r.choice([
            {"t": "int", "v": "1"}, {"t": "int", "v": "0"}, {"t": "int", "v": "-3"}, {"t": "float", "v": "0000000000000000"},
            {"t": "float", "v": "8000000000000000"}, {"t": "float", "v": "7ff8000000000000"}, {"t": "float", "v": "3ff0000000000000"},
            {"t": "bytes", "v": []}, {"t": "bytes", "v": [0]}, {"t": "other", "k": "none"}, {"t": "other", "k": "list"}])])
    if r.random() < .12:
        e = r.random()
        v = ({"t": "int", "v": str(r.choice([0, 1, 2, -1, -3, 5]))} if e < .5 else
             {"t": "str", "v": K(r.choice(["0", "1", "2", "-2", "+1", "x"]))} if e < .9 else {"t": "bool", "v": True})
        labels.append([K("_retries"), v])
    seen = {kstr(k) for k, _ in labels}
    for _ in range(r.choice([0, 0, 1, 2, 3])):
        k = r.choice(["a", "b", "u", "queue", "ключ", "timeout-ish"])
        if k not in seen:
            seen.add(k)
            labels.append([K(k), L9.gen_value(r, allow_other=False)])
    r.shuffle(labels)
    n = r.choice([1, 1, 2, 2, 3, 3, 4, 5, 7])
    outs = ["F"] * (n - 1) + [r.choice(["S", "S", "N", "F", "F"])]
    if r.random() < .1:
        outs[r.randrange(len(outs))] = r.choice(["S", "N"])
    return dict(ser=r.choice(["json", "pickle"]),
                mw=dict(count=r.choice([-1, 0, 1, 2, 3, 3, 4, 6]), label=r.random() < .7, nror=r.random() < .6),
                labels=labels, outs=outs, args=r.choice([[], [1], [1, "x", None], [[1, 2], {"k": 1.5}]]),
                kwargs=r.choice([{}, {}, {"kw": "v"}, {"n": 3, "l": [True]}]), guard=30)


# ------------------------------------------------------------------ the worker / broker configuration around the middleware
# (retry_driver's "env"): nothing of it is mentioned by the statement, so none of it may change a single observation.
MW_ANY = ["plain", "sync_err", "async_err", "touch", "hooks", "copy", "post_save_raises"]
MW_BEFORE_RETRY = MW_ANY + ["subst"]        # a hook that substitutes result.error is only placed before the retry middleware
FN_KINDS = ["sync", "agen_dep", "gen_dep", "sync_gen_dep", "dep_fails"]
TIMEOUT_VALUES = [{"t": "int", "v": "1"}, {"t": "float", "v": "3fe0000000000000"}, {"t": "str", "v": K("0.25")},
                  {"t": "int", "v": "2"}, {"t": "float", "v": "3fb999999999999a"}]


# ------------------------------------------------------------------ the exception a failing attempt dies of (env["exc"]) and
# the class of the no-result signal (env["nr"]); spec format: retry_driver.py, "how an attempt fails".  Whether an attempt is a
# failure or the no-result signal is the CASE's choice (outs), never something taskiq's class hierarchy is asked about.
# EXC_INFO is replaced at run time by what the driver finds in the taskiq package of the tree under test (exception_info);
# the values here are only what replay / an unreachable driver fall back to.
EXC_INFO = dict(
    taskiq_excs=[["taskiq.exceptions", n] for n in (
        "BrokerError", "ListenError", "ResultBackendError", "ResultGetError", "ResultIsReadyError", "ResultSetError",
        "ScheduledTaskCancelledError", "SecurityError", "SendTaskError", "SharedBrokerListenError", "SharedBrokerSendTaskError",
        "TaskBrokerMismatchError", "TaskRejectedError", "TaskiqError", "TaskiqResultTimeoutError", "UnknownTaskError")],
    builtins=["Exception", "ValueError", "KeyError", "RuntimeError", "OSError", "TimeoutError", "asyncio.TimeoutError"],
    real=["wait_result", "wait_result_sent", "gather", "is_ready_raises", "get_result_raises", "reject", "shared_kiq"],
    base_builtins=["BaseException", "KeyboardInterrupt", "SystemExit", "asyncio.CancelledError"],
    base_real=["cancelled_task", "cancelled_future", "cancelled_gather", "cancelled_wait_for", "sys_exit"],
    skipped=[], source="static fallback")
ALSO_BASES = ["ValueError", "RuntimeError", "KeyError", "TimeoutError", "Exception"]
USER_NAMES = ["UserError", "UserError", "SubTaskTimeout", "NoResultError", "TaskiqResultTimeoutError", "Error"]
USER_TRAITS = ["falsy", "eq_all", "unhashable"]
NR_KINDS = ["nr", "nr", "nr_sub", "nr_sub", "nr_subsub"]
# failures that are BaseExceptions but not Exceptions (Receiver.run_task catches BaseException: they are failed attempts)
BASE_USER_NAMES = ["Abort", "Abort", "Cancelled", "UserError", "CancelledError", "NoResultError", "WorkerShutdown"]
BASE_SHARE = .2         # of the generated failure specs


def exception_info(ctx, rep):
    """ask the driver (one child process) which exception classes the taskiq under test ships"""
    o = C.run_driver(ctx, DRIVER, [{"enumerate_excs": True}], nproc=1)[0]
    if "_crash" in o or not o.get("taskiq_excs"):
        rep.fail("driver crashed", {"enumerate_excs": True}, observed=o.get("_crash", o), sig=dict(kind="crash"))
        return
    EXC_INFO.update(o, source="enumerated in the driver process")
    rep.extra["exception_classes"] = dict(EXC_INFO)


def tq_spec(mn):
    return {"k": "taskiq", "mod": mn[0], "name": mn[1]}


def spec_is_base(sp):
    """pure data: does the spec describe a failure that is a BaseException but not an Exception?"""
    k = sp["k"]
    if k == "builtin":
        return sp["name"] in EXC_INFO["base_builtins"]
    if k == "real":
        return sp["how"] in EXC_INFO["base_real"]
    if k == "user":
        return spec_is_base(sp["base"]) and not sp.get("also")       # every second base on offer is an Exception
    if k == "group":
        return any(spec_is_base(m) for m in sp["of"])
    return False


def gen_base_exc(r, depth=0):
    """a failure that is a BaseException but not an Exception: CancelledError (raised, or leaking from a cancelled inner task /
    future / gather / wait_for), SystemExit (raised, or sys.exit() in library code), KeyboardInterrupt, BaseException, a user's
    subclass of one of them (a quarter of those with a second, Exception base: then it IS an Exception again), a
    BaseExceptionGroup holding at least one of them"""
    bb = EXC_INFO["base_builtins"]
    k = r.random()
    if k < .3:
        return {"k": "builtin", "name": r.choice(bb + ["asyncio.CancelledError"] * 2)}
    if k < .55 and not depth:
        return {"k": "real", "how": r.choice(EXC_INFO["base_real"])}
    if k < .87 or depth:
        spec = {"k": "user", "base": {"k": "builtin", "name": r.choice(bb + ["BaseException"] * 2)}, "name": r.choice(BASE_USER_NAMES)}
        if r.random() < .25:
            spec["also"] = r.choice(ALSO_BASES)
        if r.random() < .25:
            spec["traits"] = sorted(r.sample(USER_TRAITS, r.choice([1, 1, 2])))
        return spec
    of = [gen_base_exc(r, depth + 1)] + [gen_exc(r, depth + 1) for _ in range(r.choice([0, 1, 1, 2]))]
    r.shuffle(of)
    return {"k": "group", "of": of}


def gen_exc(r, depth=0):
    k = r.random()
    if r.random() < BASE_SHARE:
        spec = gen_base_exc(r, depth)
        if spec["k"] == "group":
            return spec
    elif k < .30:
        spec = tq_spec(r.choice(EXC_INFO["taskiq_excs"]))
    elif k < .48:
        spec = {"k": "real", "how": r.choice(EXC_INFO["real"])}
    elif k < .62:
        spec = {"k": "builtin", "name": r.choice(EXC_INFO["builtins"])}
    elif k < .84 or depth:
        tq = r.random() < .65
        spec = {"k": "user", "base": tq_spec(r.choice(EXC_INFO["taskiq_excs"])) if tq else
                {"k": "builtin", "name": r.choice(EXC_INFO["builtins"])}, "name": r.choice(USER_NAMES)}
        if tq and r.random() < .3:
            spec["also"] = r.choice(ALSO_BASES)
        if r.random() < .25:
            spec["traits"] = sorted(r.sample(USER_TRAITS, r.choice([1, 1, 2])))
    else:
        return {"k": "group", "of": [gen_exc(r, depth + 1) for _ in range(r.choice([1, 2, 2, 3]))]}
    if depth == 0 and r.random() < .18:
        spec["chain"] = r.choice(["cause_nr", "context_nr", "cause_other", "cause_base", "context_base"])
    if depth == 0 and spec["k"] != "real" and r.random() < .1:
        spec["reuse"] = True
    if depth == 0 and spec["k"] != "real" and r.random() < .1:
        spec["bare"] = True
    return spec


def gen_exc_list(r):
    return [gen_exc(r) for _ in range(r.choice([1, 1, 1, 1, 2, 2, 3]))]


def gen_nr(r):
    spec = {"k": r.choice(NR_KINDS)}
    if r.random() < .3:
        spec["chain"] = r.choice(["cause_fail", "context_fail", "cause_fail", "context_fail", "cause_base", "context_base"])
    if r.random() < .2:
        spec["bare"] = True
    return spec


def exc_grid():
    """every exception class the taskiq under test ships, every real failing path, every builtin of the driver's table, user
    subclasses, groups, chained / re-used / bare exceptions, the kinds of no-result signal - always run"""
    def mk(outs, labels, count, label, nror):
        return dict(ser="json", mw=dict(count=count, label=label, nror=nror), labels=labels, outs=outs, args=[1, "x"],
                    kwargs={"kw": "v"}, guard=30)
    ffs = mk(["F", "F", "S"], [[K("max_retries"), {"t": "int", "v": "3"}], [K("retry_on_error"), {"t": "bool", "v": True}]], 2, False, True)
    fff = mk(["F"], [[K("u"), {"t": "str", "v": K("user")}]], 4, True, False)
    fn_ = mk(["F", "N"], [[K("max_retries"), {"t": "str", "v": K("5")}], [K("retry_on_error"), {"t": "str", "v": K("True")}]], 1, False, True)
    out = []

    def add(base, exc, **env):
        out.append(with_env(base, dict(env, fail_by="exc", exc=exc if isinstance(exc, list) else [exc])))

    tq = [tq_spec(mn) for mn in EXC_INFO["taskiq_excs"]]
    for i, sp in enumerate(tq):
        add(ffs, sp)
        add((fff, fn_)[i % 2], sp, **({"propagate": False} if i % 3 == 0 else {}))
        add(ffs, {"k": "user", "base": sp, "name": "UserError"})
        if i % 2 == 0:
            add(fff, {"k": "user", "base": sp, "name": USER_NAMES[2 + i // 2 % 4], "also": ALSO_BASES[i // 2 % len(ALSO_BASES)]})
    for i, how in enumerate(EXC_INFO["real"]):
        sp = {"k": "real", "how": how}
        add(ffs, sp)
        add(fff, sp, propagate=False)
        add(fn_, sp, fn=("gen_dep", "agen_dep", "dep_fails")[i % 3])
        add(ffs, sp, via="listen", ackable="async", A=None)
        add(ffs, sp, fn="sync")             # a plain function cannot await: the class the path raises, directly
    for i, n in enumerate(EXC_INFO["builtins"]):
        add((ffs, fff, fn_)[i % 3], {"k": "builtin", "name": n})
    for n in ("ValueError", "Exception", "TimeoutError"):
        add(ffs, {"k": "user", "base": {"k": "builtin", "name": n}, "name": "NoResultError"})
    for t in USER_TRAITS:
        add(ffs, {"k": "user", "base": tq[len(tq) // 2], "name": "UserError", "traits": [t]})
        add(fff, {"k": "user", "base": {"k": "builtin", "name": "RuntimeError"}, "name": "UserError", "traits": [t]}, propagate=False)
    add(ffs, {"k": "group", "of": [tq[0], {"k": "builtin", "name": "ValueError"}]})
    add(fff, {"k": "group", "of": tq[-3:]})
    add(fn_, {"k": "group", "of": [{"k": "builtin", "name": "TimeoutError"}]})
    for i, ch in enumerate(("cause_nr", "context_nr", "cause_other")):
        add(ffs, {"k": "builtin", "name": "ValueError", "chain": ch})
        add(fff, dict(tq[(5 * i + 1) % len(tq)], chain=ch))
        add(ffs, {"k": "real", "how": EXC_INFO["real"][i % len(EXC_INFO["real"])], "chain": ch})
    add(ffs, {"k": "builtin", "name": "ValueError", "reuse": True})
    add(fff, dict(tq[-1], reuse=True))
    add(ffs, {"k": "builtin", "name": "KeyError", "bare": True})
    add(fff, dict(tq[0], bare=True))
    add(mk(["F", "F", "F", "S"], ffs["labels"][:1] + [[K("retry_on_error"), {"t": "str", "v": K("TRUE")}]], 1, False, True),
        [{"k": "builtin", "name": "ValueError"}, {"k": "real", "how": EXC_INFO["real"][0]}, tq[len(tq) // 3]])
    add(fff, [{"k": "real", "how": EXC_INFO["real"][-1]}, {"k": "builtin", "name": "KeyError"}], fn="gen_dep")
    # failures that are BaseExceptions but not Exceptions: each class / each way a CancelledError or SystemExit reaches the body,
    # on every shape of task function and delivery
    bnames = EXC_INFO["base_builtins"]
    shapes = [{}, {"propagate": False}, {"fn": "sync"}, {"via": "listen", "A": None, "ackable": "async"}, {"fn": "gen_dep"},
              {"fn": "dep_fails", "propagate": False}, {"fn": "agen_dep"}, {"fn": "sync_gen_dep"}, {"fresh": True, "validate": False},
              {"timeout_label": TIMEOUT_VALUES[0]}, {"mw_before": ["async_err"], "mw_after": ["touch"], "retry_cls": "sub"}]
    n = 0
    for name in bnames:
        sp = {"k": "builtin", "name": name}
        for base in (ffs, fff, fn_):
            add(base, sp, **dict(shapes[n % len(shapes)]))
            n += 1
        add(ffs, {"k": "user", "base": sp, "name": BASE_USER_NAMES[n % len(BASE_USER_NAMES)]}, **dict(shapes[n % len(shapes)]))
        add(fff, {"k": "user", "base": sp, "name": "Abort", "traits": [USER_TRAITS[n % len(USER_TRAITS)]]}, **dict(shapes[(n + 3) % len(shapes)]))
        add(ffs, {"k": "user", "base": sp, "name": "Abort", "also": ALSO_BASES[n % len(ALSO_BASES)]})
        add(ffs, dict(sp, bare=True), **dict(shapes[(n + 5) % len(shapes)]))
        n += 1
    for how in EXC_INFO["base_real"]:
        sp = {"k": "real", "how": how}
        for base in (ffs, fff, fn_, ffs):
            add(base, sp, **dict(shapes[n % len(shapes)]))
            n += 1
        add(ffs, sp, fn="sync")             # a plain function cannot await: CancelledError raised in the pool thread
    cancelled = {"k": "builtin", "name": "asyncio.CancelledError"}
    add(ffs, {"k": "group", "of": [cancelled]})
    add(fff, {"k": "group", "of": [{"k": "builtin", "name": "ValueError"}, {"k": "user", "base": {"k": "builtin", "name": "BaseException"}, "name": "Abort"}]},
        propagate=False)
    add(fn_, {"k": "group", "of": [tq[0], {"k": "builtin", "name": "KeyboardInterrupt"}]}, fn="sync")
    for i, ch in enumerate(("cause_base", "context_base")):
        add(ffs, {"k": "builtin", "name": "ValueError", "chain": ch})
        add(fff, dict(tq[(7 * i + 2) % len(tq)], chain=ch), fn=("sync", "gen_dep")[i])
        add(ffs, dict(cancelled, chain=("cause_nr", "context_nr")[i]))
        add(fn_, {"k": "real", "how": EXC_INFO["base_real"][i], "chain": "cause_other"})
    add(ffs, dict(cancelled, reuse=True))
    add(mk(["F", "F", "F", "S"], ffs["labels"][:1] + [[K("retry_on_error"), {"t": "str", "v": K("True")}]], 1, False, False),
        [{"k": "builtin", "name": "ValueError"}, {"k": "real", "how": EXC_INFO["base_real"][0]}, {"k": "builtin", "name": "SystemExit"}])
    for nr in ({"k": "nr", "chain": "cause_base"}, {"k": "nr_sub", "chain": "context_base"}):
        out.append(with_env(fn_, {"nr": nr, "fail_by": "exc", "exc": [cancelled]}))
    # the no-result signal: NoResultError, a user's subclass of it, raised bare / from a failure / while handling one
    for i, nr in enumerate(({"k": "nr"}, {"k": "nr_sub"}, {"k": "nr_subsub"}, {"k": "nr", "bare": True}, {"k": "nr_sub", "chain": "cause_fail"},
                            {"k": "nr", "chain": "context_fail"}, {"k": "nr_subsub", "chain": "context_fail", "bare": True})):
        out.append(with_env(fn_, {"nr": nr}))
        out.append(with_env(mk(["N"], fff["labels"], 3, True, i % 2 == 0), {"nr": nr, "propagate": i % 3 != 0}))
        out.append(with_env(fn_, {"nr": nr, "fail_by": "exc", "exc": [tq[(3 * i) % len(tq)]], "fn": ("sync", "async", "dep_fails")[i % 3]}))
    return out


# ------------------------------------------------------------------ the attempts travel through the real InMemoryBroker
# (retry_driver's env["broker"] = "inmem").  The scripted broker delivers one message after the other; taskiq's own
# InMemoryBroker (default mode, await_inplace=False) spawns Receiver.callback for a message the moment it is kicked - and the
# retry middleware kicks the next attempt from INSIDE the failing attempt's run_task, before that attempt has saved its result.
# Which attempt's set_result comes last decides what the backend holds in the end: "the final attempt's outcome is the stored
# result" is judged there on what the real InmemoryResultBackend holds for the task id when all spawned work has settled.
PAUSES = ["sleep0", "sleep0", "sleep0x3", "timer", "future"]
# Two shapes on this path are KNOWN FINDINGS on the unchanged tree (known_findings.json; replays corpus/C11/known/d17.., d18..),
# generated at a small rate so that their neighbourhood stays explored; a failure is explained by them only if it has EXACTLY
# the shape (known_shape below):
#   D17 inplace_nested_attempts_first_error_stored   InMemoryBroker(await_inplace=True), no_result_on_retry off: the attempts nest
#                                                    inside on_error, set_result calls in reverse order, the first error is held
#   D18 resent_attempt_overtakes_failing_attempt     default mode, a middleware AFTER the retry middleware whose on_error really
#                                                    suspends, no_result_on_retry off: the re-sent attempt saves before the failing one
SUSPENDING_ON_ERROR = ("async_err",)       # the MW_KINDS whose on_error really suspends (retry_driver.MwAsyncErr: await sleep(0))
INPLACE_SHARE = .1
D17, D18 = "inplace_nested_attempts_first_error_stored", "resent_attempt_overtakes_failing_attempt"
HELD_WHAT = ("the result the backend holds for the task id when everything has settled is not the final attempt's outcome "
             "(an earlier attempt's set_result came after the final attempt's)")


def crash_free(case):
    """pure data: neither max_retries nor _retries makes int() raise inside on_error (an exception that leaves on_error unwinds
    through every nested attempt when the broker awaits in place - outside the statement and outside the model)"""
    for name in ("max_retries", "_retries"):
        v = lab(case, name)
        if v is not None and v["t"] == "str":
            try:
                int(kstr(v["v"]))
            except ValueError:
                return False
        elif v is not None and v["t"] not in ("int", "bool"):
            return False
    return True


def known_shape(case, what, observed):
    """the signature of the known finding a failure has EXACTLY the shape of, else None"""
    env = case.get("env") or {}
    if what != HELD_WHAT or env.get("broker") != "inmem" or case["mw"]["nror"] or not isinstance(observed, dict):
        return None
    order, frm = observed.get("set_result_order"), observed.get("held_result_saved_by_attempt")
    if not observed.get("held") or not frm or not isinstance(order, list) or len(order) < 2 or len(set(order)) != len(order) \
            or any(not isinstance(i, int) or i < 0 for i in order + frm):
        return None
    final = max(order)
    if not all(i < final for i in frm):         # the backend holds an EARLIER attempt's result
        return None
    if env.get("inplace"):
        # nested: every attempt's call comes after the calls of all later attempts
        return D17 if order == sorted(order, reverse=True) else None
    if any(k in SUSPENDING_ON_ERROR for k in env.get("mw_after", [])):
        # some re-sent attempt's call comes BEFORE the call of the failing attempt that re-sent it
        pos = {a: i for i, a in enumerate(order)}
        return D18 if any(a + 1 in pos and pos[a + 1] < pos[a] for a in order) else None
    return None


def is_known_shape(sig):
    return lambda f: known_shape(f["case"], f["what"], f.get("observed")) == sig and f.get("sig", {}).get("kind") == sig


def gen_inmem_env(r):
    env = {"broker": "inmem"}
    fn = r.choice(["async"] * 5 + ["sync", "sync", "agen_dep", "gen_dep", "sync_gen_dep", "dep_fails"])
    if fn != "async":
        env["fn"] = fn
    can_await = fn not in ("sync", "sync_gen_dep")
    if can_await and r.random() < .35:
        env["pause"] = r.choice(PAUSES)             # a body that really awaits; otherwise it finishes without a suspension
    k = r.random()
    if k < .12:
        env["fail_by"] = "falsy"
    elif k < .24 and can_await:
        env["fail_by"] = "timeout"
        env["timeout_label"] = r.choice(TIMEOUT_VALUES)
    elif k < .3:
        env["timeout_label"] = r.choice(TIMEOUT_VALUES)
    elif k < .5:
        env["fail_by"] = "exc"
        env["exc"] = gen_exc_list(r)
    if r.random() < .15:
        env["nr"] = gen_nr(r)
    if r.random() < .3:
        env["propagate"] = False
    if r.random() < .2:
        env["validate"] = False
    if r.random() < .3:
        env["A"] = r.choice([1, 2, 10, 0])
    if r.random() < .3:
        env["pool"] = r.choice([1, 2])
    if r.random() < .4:
        env["startup"] = True
    if r.random() < .35:
        env["bystanders"] = r.choice([1, 2, 3])
    elif r.random() < .4:
        env["stored"] = r.choice([-1, 1, 2])       # max_stored_results (never together with bystanders: they would evict)
    if r.random() < .4:
        for pos, kinds in (("mw_before", MW_BEFORE_RETRY), ("mw_mid", MW_BEFORE_RETRY), ("mw_after", MW_ANY)):     # (D18 lives in mw_after)
            n = r.choice([0, 0, 1, 1, 2])
            if n:
                env[pos] = [r.choice(kinds) for _ in range(n)]
    if r.random() < .2:
        env["retry_cls"] = "sub"
    if r.random() < WALL_SHARE:
        env["wall"] = gen_wall(r)
    return env


def gen_inmem_case(r):
    c = gen_case(r)
    if r.random() < .7:
        # make sure the retry loop has something to do: enabled, a few failures first, room for them
        c["labels"] = [kv for kv in c["labels"] if kstr(kv[0]) not in ("retry_on_error", "_retries")]
        c["mw"]["label"] = True
        if len(c["outs"]) == 1 and r.random() < .6:
            c["outs"] = ["F"] * r.choice([1, 2, 3]) + c["outs"]
        if r.random() < .5:
            c["labels"] = [kv for kv in c["labels"] if kstr(kv[0]) != "max_retries"]
            c["mw"]["count"] = r.choice([2, 3, 4, 6])
    if r.random() < .65:
        c["mw"]["nror"] = False                     # every attempt stores a result: the ORDER of the set_result calls matters
    env = gen_inmem_env(r)
    if r.random() < INPLACE_SHARE and crash_free(c):
        env["inplace"] = True                       # InMemoryBroker(await_inplace=True): kick awaits the callback (D17 lives here)
    return with_env(c, env)


def inmem_grid():
    """every single deviation of the in-memory path on the fail-fail-success situation with every attempt storing its result
    and on one of four other situations - always run"""
    def mk(outs, labels, count, label, nror):
        return dict(ser="json", mw=dict(count=count, label=label, nror=nror), labels=labels, outs=outs, args=[1, "x"],
                    kwargs={"kw": "v"}, guard=30)
    on = [[K("max_retries"), {"t": "int", "v": "3"}], [K("retry_on_error"), {"t": "bool", "v": True}]]
    ffs_all = mk(["F", "F", "S"], on, 2, False, False)
    others = [mk(["F"], [[K("u"), {"t": "str", "v": K("user")}]], 4, True, False),
              mk(["F", "S"], [[K("max_retries"), {"t": "str", "v": K("5")}], [K("retry_on_error"), {"t": "str", "v": K("True")}]], 1, False, False),
              mk(["F", "F", "S"], on, 2, False, True),
              mk(["F", "N"], on, 2, False, False)]
    cancelled = {"k": "real", "how": "cancelled_task"}
    envs = [{}] + [{"pause": p} for p in sorted(set(PAUSES))] + [{"fn": f} for f in FN_KINDS]
    envs += [{"fn": "gen_dep", "pause": "sleep0"}, {"fn": "dep_fails", "pause": "timer"}, {"fn": "sync", "pool": 1},
             {"fail_by": "falsy"}, {"fail_by": "timeout", "timeout_label": TIMEOUT_VALUES[0]},
             {"fail_by": "timeout", "timeout_label": TIMEOUT_VALUES[1], "pause": "future"},
             {"fail_by": "exc", "exc": [{"k": "real", "how": "gather"}]}, {"fail_by": "exc", "exc": [{"k": "real", "how": "wait_result_sent"}]},
             {"fail_by": "exc", "exc": [cancelled]}, {"fail_by": "exc", "exc": [{"k": "builtin", "name": "KeyboardInterrupt"}], "fn": "sync"},
             {"fail_by": "exc", "exc": [{"k": "builtin", "name": "KeyError"}, cancelled], "pause": "sleep0"},
             {"propagate": False}, {"validate": False}, {"A": 1}, {"A": 0}, {"stored": 1}, {"stored": -1}, {"startup": True},
             {"bystanders": 2}, {"bystanders": 3, "startup": True, "pause": "timer"},
             {"mw_before": ["async_err"]}, {"mw_mid": ["async_err", "subst"]}, {"mw_after": ["touch"]}, {"mw_after": ["hooks", "sync_err"]},
             {"mw_before": ["copy"], "mw_after": ["post_save_raises"], "retry_cls": "sub"}, {"retry_cls": "sub"},
             {"nr": {"k": "nr_sub"}},
             # the two known shapes and their neighbours
             {"inplace": True}, {"inplace": True, "pause": "sleep0"}, {"inplace": True, "fn": "sync"},
             {"inplace": True, "mw_after": ["async_err"]}, {"mw_after": ["async_err"]}, {"mw_after": ["async_err"], "pause": "timer"},
             {"mw_after": ["async_err", "touch"], "fn": "sync"}, {"mw_after": ["async_err"], "bystanders": 2}]
    out = []
    for i, e in enumerate(envs):
        for b in (ffs_all, others[i % len(others)]):
            out.append(with_env(dict(b, ser="pickle" if i % 6 == 5 else "json"), dict(e, broker="inmem")))
    return out


# ------------------------------------------------------------------ the host's wall clock (retry_driver's env["wall"])
# Receiver.run_task measures an attempt with time.time(); the statement does not mention the clock, so whatever the host's clock
# does while an attempt runs (NTP step backwards / forwards, `date -s`, VM restore, a coarse tick that makes two readings equal)
# must not change the number of executions, what is re-sent, or what is stored.  plan[i] = the event during the i-th body.
WALL_BASES = [1.7e9, 1.7e9, 1.7e9, 0.0, 86400.0, 4102444800.0, 1.7e9 + 0.995, 2.0 ** 31 - 1.0]
WALL_BACK = [-0.004, -0.006, -0.01, -0.5, -1.0, -5.0, -3600.0, -86400.0 * 365, -1.7e9]
WALL_FWD = [0.004, 0.01, 0.5, 3600.0, 1e9]
WALL_SET = [0.0, 946684800.0, 1.7e9, 1.7e9 - 0.25, 2.0 ** 31]
WALL_SHARE = .15        # of the generated env / inmem cases


def gen_wall_op(r):
    k = r.random()
    if k < .5:
        op = {"step": r.choice(WALL_BACK)}
    elif k < .68:
        op = {"step": r.choice(WALL_FWD)}
    elif k < .82:
        op = {"set": r.choice(WALL_SET)}
    else:
        op = {"freeze": 1}
    if r.random() < .25:
        op["late"] = True
    return op


def gen_wall(r):
    n = r.choice([1, 1, 2, 2, 3, 4])
    plan = [gen_wall_op(r) if r.random() < .6 else None for _ in range(n)]
    if not any(plan):
        plan[r.randrange(n)] = gen_wall_op(r)
    w = {"plan": plan}
    if r.random() < .5:
        w["base"] = r.choice(WALL_BASES)
    if r.random() < .3:
        w["mono0"] = r.choice([0.5, 12345.678, 86400.0 * 40])
    if r.random() < .3:
        w["scope"] = "global"
    return w


def wall_grid():
    """every kind of clock event during the first / a middle / the final attempt, on three retry situations and the shapes of
    task function / delivery / broker - always run"""
    def mk(outs, labels, count, label, nror):
        return dict(ser="json", mw=dict(count=count, label=label, nror=nror), labels=labels, outs=outs, args=[1, "x"],
                    kwargs={"kw": "v"}, guard=30)
    on = [[K("max_retries"), {"t": "int", "v": "3"}], [K("retry_on_error"), {"t": "bool", "v": True}]]
    ffs = mk(["F", "F", "S"], on, 2, False, True)
    ffs_all = mk(["F", "F", "S"], on, 2, False, False)
    fff = mk(["F"], [[K("u"), {"t": "str", "v": K("user")}]], 4, True, False)
    fn_ = mk(["F", "N"], [[K("max_retries"), {"t": "str", "v": K("5")}], [K("retry_on_error"), {"t": "str", "v": K("True")}]], 1, False, True)
    ops = [{"step": -5.0}, {"step": -0.006}, {"step": -0.004}, {"step": -86400.0 * 365}, {"step": 3600.0}, {"set": 0.0}, {"set": 2.0 ** 31},
           {"freeze": 1}, {"step": -1.0, "late": True}, {"freeze": 1, "late": True}]
    shapes = [{}, {"fn": "sync"}, {"via": "listen", "A": None, "ackable": "async"}, {"fresh": True}, {"fn": "dep_fails"}, {"propagate": False},
              {"fn": "gen_dep"}, {"broker": "inmem"}, {"broker": "inmem", "pause": "timer"}, {"broker": "inmem", "fn": "sync", "bystanders": 2},
              {"pause": "timer"}, {"fail_by": "timeout", "timeout_label": TIMEOUT_VALUES[1]}, {"mw_before": ["async_err"], "mw_after": ["touch"], "retry_cls": "sub"},
              {"fail_by": "exc", "exc": [{"k": "real", "how": "wait_result"}]}, {"fail_by": "exc", "exc": [{"k": "builtin", "name": "asyncio.CancelledError"}]}]
    out, n = [], 0
    for oi, op in enumerate(ops):
        for at in (0, 1, 2):
            plan = [None] * at + [dict(op)]
            for base in ((ffs, ffs_all)[n % 2], (fff, fn_)[(n // 2) % 2]):
                w = {"plan": plan}
                if n % 3 == 1:
                    w["scope"] = "global"
                if n % 4 == 2:
                    w.update(base=WALL_BASES[3 + n % 5], mono0=12345.678)
                out.append(with_env(base, dict(shapes[n % len(shapes)], wall=w)))
                n += 1
    # the clock changes during every attempt; typed arguments
    out.append(with_env(ffs_all, {"wall": {"plan": [{"step": -2.0}, {"step": -2.0}, {"step": -2.0}]}}))
    out.append(with_env(fff, {"wall": {"plan": [{"freeze": 1}, {"step": 7.0}, {"set": 0.0}, {"step": -0.5, "late": True}], "scope": "global"}, "fn": "sync"}))
    out.append(with_env(fff, {"broker": "inmem", "wall": {"plan": [{"step": -3.0}, None, {"step": -3.0}]}, "pause": "sleep0"}))
    return out


def with_env(case, env):
    """attach env to a copy of case; a failure by timeout needs the task's `timeout` label"""
    case = dict(case, labels=list(case["labels"]), env=env)
    tv = env.pop("timeout_label", None)
    if tv is not None and lab(case, "timeout") is None:
        case["labels"].append([K("timeout"), tv])
    if env.get("fail_by") == "timeout" and lab(case, "timeout") is None:
        case["labels"].append([K("timeout"), TIMEOUT_VALUES[0]])
    return case


def recv_opts(env, r=None):
    """the worker command line for env's receiver options (spellings varied when an rng is given)"""
    at = env.get("ack")
    if at is not None and r is not None:
        at = r.choice([at, at, at.upper(), at.title()])
    o = dict(ack_type=at, P=env.get("P", 0), N=env.get("N"), wtt=env.get("wtt"), no_parse=not env.get("validate", True),
             no_propagate=not env.get("propagate", True))
    if "A" in env:
        o["A"] = env["A"]
        if env["A"] is None:
            o["a_spelling"] = 0 if r is None else r.choice([0, -1])
    return o


def gen_env(r):
    env = {}
    fn = r.choice(["async"] * 4 + FN_KINDS)
    if fn != "async":
        env["fn"] = fn
    k = r.random()
    if k < .2:
        env["fail_by"] = "falsy"
    elif k < .4 and fn not in ("sync", "sync_gen_dep"):
        env["fail_by"] = "timeout"
        env["timeout_label"] = r.choice(TIMEOUT_VALUES)
    elif k < .5:
        env["timeout_label"] = r.choice(TIMEOUT_VALUES)     # a timeout that is never reached
    elif k < .78:
        env["fail_by"] = "exc"
        env["exc"] = gen_exc_list(r)
    if r.random() < .25:
        env["nr"] = gen_nr(r)
    if r.random() < .5:
        env["propagate"] = False
    if r.random() < .3:
        env["validate"] = False
    if r.random() < .5:
        env["ack"] = r.choice(["when_received", "when_executed", "when_saved"])
    if r.random() < .6:
        env["ackable"] = r.choice(["sync", "async"])
    if r.random() < .3:
        env["via"] = "listen"
    if r.random() < .5:
        env["A"] = r.choice([1, 2, 10, None, None, 0])
    if r.random() < .3:
        env["P"] = r.choice([1, 3])
    if r.random() < .2:
        env["N"] = r.choice([1, 5])
    if r.random() < .2:
        env["wtt"] = r.choice([0.5, 2.0])
    if r.random() < .2:
        env["fresh"] = True
    if r.random() < .5:
        for pos, kinds in (("mw_before", MW_BEFORE_RETRY), ("mw_mid", MW_BEFORE_RETRY), ("mw_after", MW_ANY)):
            n = r.choice([0, 0, 1, 1, 2])
            if n:
                env[pos] = [r.choice(kinds) for _ in range(n)]
        if r.random() < .3:
            env["mw_late"] = True
    if r.random() < .25:
        env["retry_cls"] = "sub"
    if r.random() < .35:
        env["cli"] = cli_argv(recv_opts(env, r))
    if r.random() < WALL_SHARE:
        env["wall"] = gen_wall(r)
    return env


def gen_env_case(r):
    c = gen_case(r)
    if r.random() < .5:
        # make sure the retry loop has something to do: enabled, a few failures first
        c["labels"] = [kv for kv in c["labels"] if kstr(kv[0]) not in ("retry_on_error", "_retries")]
        c["mw"]["label"] = True
    return with_env(c, gen_env(r))


def gen_typed_case(r):
    """a retry situation whose task has annotated parameters and structured arguments (harness/retry_typed.py); the worker
    configuration varies with it in about a third of the cases"""
    c = gen_case(r)
    if r.random() < .65:
        c["labels"] = [kv for kv in c["labels"] if kstr(kv[0]) not in ("retry_on_error", "_retries")]
        c["mw"]["label"] = True
        if len(c["outs"]) == 1 and r.random() < .7:
            c["outs"] = ["F"] * r.choice([1, 2, 3]) + c["outs"]
    k = r.random()
    env = gen_env(r) if k < .35 else {"validate": False} if k < .45 else {}
    if r.random() < .08:
        env = gen_inmem_env(r)                      # the attempts travel through the real InMemoryBroker
        if r.random() < .6:
            c["mw"]["nror"] = False
    if env.get("fn") == "dep_fails":
        env["fn"] = "gen_dep"
    if c["ser"] == "json" and r.random() < .15:
        # taskiq's JSONFormatter (pydantic-core's JSON writer) refuses lone surrogates, which json.dumps escapes: label texts
        # with lone surrogates are C09's subject (ProxyFormatter), not this dimension's
        env["fmt"] = "json"
        surr = lambda cps: any(0xD800 <= x <= 0xDFFF for x in cps)                                   # noqa: E731
        c["labels"] = [kv for kv in c["labels"] if not surr(kv[0]) and not (kv[1]["t"] == "str" and surr(kv[1]["v"]))]
    c = with_env(c, env)
    c.update(args=[], kwargs={}, typed=TG.gen_typed(r))
    return c


def typed_grid():
    """retry_typed_gen.typed_grid() on the fail-fail-success situation (validating worker; the first few also not validating)"""
    base = dict(ser="json", mw=dict(count=2, label=False, nror=True), outs=["F", "F", "S"], args=[], kwargs={}, guard=30,
                labels=[[K("max_retries"), {"t": "int", "v": "3"}], [K("retry_on_error"), {"t": "bool", "v": True}],
                        [K("tenant"), {"t": "str", "v": K("acme")}]])
    out = []
    for i, t in enumerate(TG.typed_grid()):
        out.append(dict(base, typed=t, env={}, ser="pickle" if i % 5 == 4 else "json"))
        if i % 3 == 0:
            out.append(dict(base, typed=t, env={"validate": False}))
        if i % 7 == 0:
            out.append(dict(base, typed=t, env={"fmt": "json", "fn": "sync"}))
        if i % 9 == 0:
            out.append(dict(base, typed=t, mw=dict(count=2, label=False, nror=i % 2 == 1),
                            env={"broker": "inmem", **({"pause": "sleep0"} if i % 27 == 0 else {})}))
    return out


def env_grid():
    """every single deviation from the default worker configuration, each on two of four retry situations - always run"""
    def mk(outs, labels, count, label, nror):
        return dict(ser="json", mw=dict(count=count, label=label, nror=nror), labels=labels, outs=outs, args=[1, "x"],
                    kwargs={"kw": "v"}, guard=30)
    bases = [
        mk(["F", "F", "S"], [[K("max_retries"), {"t": "int", "v": "3"}], [K("retry_on_error"), {"t": "bool", "v": True}]], 2, False, True),
        mk(["F"], [[K("u"), {"t": "str", "v": K("user")}]], 4, True, False),
        mk(["F", "N"], [[K("max_retries"), {"t": "str", "v": K("5")}], [K("retry_on_error"), {"t": "str", "v": K("True")}]], 1, False, True),
        mk(["F"], [[K("retry_on_error"), {"t": "bool", "v": False}], [K("max_retries"), {"t": "int", "v": "4"}]], 3, True, False),
    ]
    envs = [{}, {"propagate": False}, {"validate": False}, {"fresh": True}, {"retry_cls": "sub"},
            {"ackable": "sync"}, {"ackable": "async"},
            {"via": "listen"}, {"via": "listen", "A": None, "P": 2}, {"via": "listen", "N": 1, "wtt": 0.5, "ackable": "async"},
            {"via": "listen", "A": 2, "propagate": False, "ackable": "sync"},
            {"fail_by": "falsy"}, {"fail_by": "falsy", "propagate": False},
            {"mw_mid": ["sync_err"], "mw_late": True}, {"mw_before": ["copy"], "mw_after": ["touch"], "mw_late": True, "retry_cls": "sub"}]
    envs += [{"ack": a, "ackable": k} for a in ("when_received", "when_executed", "when_saved") for k in ("sync", "async")]
    envs += [{"fn": f} for f in FN_KINDS] + [{"fn": f, "propagate": False} for f in FN_KINDS]
    envs += [{"fail_by": "timeout", "timeout_label": v} for v in TIMEOUT_VALUES[:3]]
    envs += [{"fail_by": "timeout", "timeout_label": TIMEOUT_VALUES[1], "fn": "dep_fails", "via": "listen", "A": None, "wtt": 0.5},
             {"fail_by": "timeout", "timeout_label": TIMEOUT_VALUES[0], "fn": "agen_dep", "propagate": False}]
    envs += [{"mw_before": [k]} for k in MW_BEFORE_RETRY] + [{"mw_mid": [k]} for k in MW_BEFORE_RETRY] + [{"mw_after": [k]} for k in MW_ANY]
    for e in ({"propagate": False}, {"validate": False}, {"ack": "when_received", "ackable": "sync"}, {"A": None, "via": "listen"},
              {"propagate": False, "validate": False, "ack": "when_executed", "A": 3, "P": 1, "N": 5, "wtt": 2.0, "ackable": "async"}, {}):
        envs.append(dict(e, cli=cli_argv(recv_opts(e))))
    # every env on the fail-fail-success situation and on one of the other three in turn
    return [with_env(b, dict(e)) for i, e in enumerate(envs) for b in (bases[0], bases[1 + i % 3])]


def count_typed(rep, c, o):
    t = c.get("typed")
    if t is None:
        rep.count("typed:none (opaque JSON arguments, untyped *args / **kwargs function)")
        return
    env = c.get("env") or {}
    rep.count("typed:cases")
    rep.count("typed:validate_params=%s" % env.get("validate", True))
    rep.count("typed:formatter=" + env.get("fmt", "proxy") + "/" + c["ser"])
    rep.count("typed:parameters=%d" % len(t["params"]))
    if t.get("str_ann"):
        rep.count("typed:annotations-as-strings")
    if t.get("rest") is not None:
        rep.count("typed:*rest-with-%d-extra-positional" % len(t["rest"]))
    if t.get("extra") is not None:
        rep.count("typed:**extra-with-%d-extra-keywords" % len(t["extra"]))
    resend = len(o.get("execs", [])) > 1
    if resend:
        rep.count("typed:cases-with-a-re-send")
    unset = False
    for p in t["params"]:
        rep.count("typed:annotation=" + p["ann"])
        rep.count("typed:passed=" + p["how"])
        v = p["val"] or {}
        rep.count("typed:value=" + ("default of the function" if p["how"] == "omit" else
                                    v["b"] + (":" + v["cls"] if "cls" in v else ":" + v["t"] if v["b"] == "py" else "")))
        if v.get("assign"):
            rep.count("typed:instance-field-assigned-after-construction")
        if p["how"] != "omit" and p.get("expect") is None:
            rep.count("typed:parameter-without-claim-about-first-attempt")
        if v.get("b") in ("inst", "validated") and p["ann"] == v.get("cls"):
            uf = TG.unset_factory_fields(v)
            for f in uf:
                rep.count("typed:unset-default_factory-field=" + f)
            unset = unset or bool(uf)
    if unset and resend and env.get("validate", True):
        rep.count("typed:re-sent-with-a-top-level-instance-leaving-a-fresh-value-factory-field-unset (validating worker)")


def count_env(rep, c, o):
    env = c.get("env")
    if c.get("typed") is not None and not env:
        return
    if env is None:
        rep.count("env:none (default worker: Receiver.callback, propagate on, bytes message)")
        return
    rep.count("env:cases")
    rep.count("env:broker=" + ("real InMemoryBroker (kick spawns / awaits the callback itself)" if env.get("broker") == "inmem"
                               else "scripted (the harness delivers one kicked message after the other)"))
    if env.get("broker") == "inmem":
        count_inmem(rep, c, o)
    rep.count("env:configured-via=" + ("command line" if env.get("cli") is not None else "Receiver(...)"))
    rep.count("env:propagate_exceptions=%s" % env.get("propagate", True))
    rep.count("env:validate_params=%s" % env.get("validate", True))
    rep.count("env:ack_type=%s" % env.get("ack"))
    rep.count("env:message=" + ("bytes" if not env.get("ackable") else "ackable/%s-ack" % env["ackable"]))
    rep.count("env:delivery=" + ("InMemoryBroker.kick" if env.get("broker") == "inmem" else
                                 "listen() session" if env.get("via") == "listen" else "callback"))
    rep.count("env:max_async_tasks=%s" % (env["A"] if "A" in env else "default"))
    rep.count("env:task-function=" + env.get("fn", "async"))
    rep.count("env:failure-by=" + env.get("fail_by", "raise"))
    rep.count("env:timeout-label=%s" % (lab(c, "timeout") is not None))
    rep.count("env:receiver-object=" + ("new per delivery" if env.get("fresh") or env.get("via") == "listen" else "reused"))
    rep.count("env:retry-middleware-class=" + env.get("retry_cls", "base"))
    rep.count("env:formatter=" + env.get("fmt", "proxy"))
    for pos in ("mw_before", "mw_mid", "mw_after"):
        for k in env.get(pos, []):
            rep.count("env:other-middleware:%s:%s" % (pos[3:], k))
    if env.get("mw_late"):
        rep.count("env:middlewares-added-after-receiver-construction")
    if len(o.get("execs", [])) > 1:
        rep.count("env:cases-with-a-re-send")
    count_wall(rep, c, o)
    count_exc(rep, c, o)


def wall_op_label(op):
    if "step" in op:
        s = abs(op["step"])
        return "step-%s:%s" % ("backwards" if op["step"] < 0 else "forwards", "<0.005s (rounds to 0)" if s < .005 else "<1s" if s < 1 else
                               "<=1h" if s <= 3600 else ">1h")
    return "set-to-an-absolute-value" if "set" in op else "stands-still"


def count_wall(rep, c, o):
    """the host's wall clock as an input dimension: what the generated plans asked for and what really happened"""
    env = c["env"]
    w = env.get("wall")
    if not w:
        rep.count("wall:none (the clock read by taskiq moves with the loop's virtual time)")
        return
    ob = o.get("wall") or {}
    ex = o.get("execs", [])
    rep.count("wall:cases")
    rep.count("wall:broker=" + env.get("broker", "scripted"))
    rep.count("wall:scope=" + w.get("scope", "bound (wherever the package bound time.time)"))
    rep.count("wall:epoch-reading-at-start=%s" % ("default (1.7e9)" if "base" not in w else "%g" % w["base"]))
    rep.count("wall:loop-clock-origin=%g" % w.get("mono0", 0))
    rep.count("wall:task-function=" + env.get("fn", "async"))
    rep.count("wall:events-planned=%d,happened=%d" % (len([op for op in w["plan"] if op]), len(ob.get("events", []))))
    dom = in_domain(c)
    for n, stage, _, _ in ob.get("events", []):
        op = w["plan"][n]
        rep.count("wall:event=" + wall_op_label(op))
        rep.count("wall:event-when=" + ("right before the body acts" if stage == "late" else "at the body's first statement"))
        rep.count("wall:event-during-attempt=%d" % n)
        if dom is not None and n < len(ex):
            rep.count("wall:event-during=" + ("an attempt that must be re-sent" if n < len(ex) - 1 else "the final attempt") + " (statement domain)")
    if any(float.fromhex(d) < 0 for d in ob.get("durations", [])):
        rep.count("wall:cases-where-a-stored-result-carries-a-negative-measured-duration")


def body_suspends(env):
    """pure data: does the task body suspend before it acts?"""
    if env.get("fn") in ("sync", "sync_gen_dep"):
        return "plain function in a pool thread"
    if env.get("pause"):
        return "coroutine function that really awaits (%s)" % env["pause"]
    return "coroutine function without a suspension point of its own (pure computation / immediate raise)"


def count_inmem(rep, c, o):
    env = c["env"]
    st = o.get("settled") or {}
    ex = o.get("execs", [])
    rep.count("inmem:cases")
    rep.count("inmem:mode=" + ("await_inplace" if env.get("inplace") else "default (callback spawned as a task by kick)"))
    rep.count("inmem:body=" + body_suspends(env))
    rep.count("inmem:task-function=" + env.get("fn", "async"))
    rep.count("inmem:failure-by=" + env.get("fail_by", "raise"))
    rep.count("inmem:no_result_on_retry=%s" % c["mw"]["nror"])
    rep.count("inmem:set_result-calls-for-the-id=%d" % len(st.get("save_order", [])))
    rep.count("inmem:bystander-tasks=%d" % (env.get("bystanders") or 0))
    rep.count("inmem:startup/shutdown=%s" % bool(env.get("startup")))
    rep.count("inmem:max_stored_results=%s" % env.get("stored", "default"))
    rep.count("inmem:sync_tasks_pool_size=%s" % env.get("pool", "default"))
    rep.count("inmem:typed-arguments=%s" % (c.get("typed") is not None))
    rep.count("inmem:on_error-that-suspends-after-the-retry-middleware=%s" % any(k in SUSPENDING_ON_ERROR for k in env.get("mw_after", [])))
    if st.get("save_order") and st["save_order"] != sorted(st["save_order"]):
        rep.count("inmem:set_result-calls-not-in-attempt-order")
    if st.get("held"):
        rep.count("inmem:held-result-identified-by=" + str(st.get("by")))
    if len(ex) > 1:
        rep.count("inmem:cases-with-a-re-send")
        if in_domain(c) is not None and c["outs"][min(len(ex) - 1, len(c["outs"]) - 1)] != "N":
            rep.count("inmem:cases-with-a-re-send-whose-held-result-is-judged")
            if not c["mw"]["nror"]:
                rep.count("inmem:cases-with-a-re-send,every-attempt-storing,held-result-judged:body=" + body_suspends(env))


def exc_label(sp):
    k = sp["k"]
    if k in ("taskiq", "builtin"):
        return "%s:%s" % (k, sp["name"])
    if k == "real":
        return ("python-code-path:" if sp["how"] in EXC_INFO["base_real"] else "taskiq-code-path:") + sp["how"]
    if k == "user":
        return "user-subclass-of:%s%s" % (exc_label(sp["base"]), "+" + sp["also"] if sp.get("also") else "")
    return "group-of-%d" % len(sp["of"])


def count_exc(rep, c, o):
    env = c["env"]
    nr = env.get("nr")
    if nr is not None and "N" in c["outs"]:
        rep.count("exc:no-result-signal=%s%s%s" % ({"nr": "NoResultError", "nr_sub": "user-subclass", "nr_subsub": "user-sub-subclass"}[nr["k"]],
                                                    "/bare-class" if nr.get("bare") else "", "/" + nr["chain"] if nr.get("chain") else ""))
    if env.get("fail_by") != "exc":
        return
    rep.count("exc:cases")
    specs = env["exc"] if isinstance(env["exc"], list) else [env["exc"]]
    rep.count("exc:distinct-failures-in-one-chain=%d" % len(specs))
    if any(spec_is_base(sp) for sp in specs):
        rep.count("exc:cases-with-a-failure-that-is-a-BaseException-but-not-an-Exception")
        rep.count("exc:base-exception-failure:task-function=" + env.get("fn", "async"))
        rep.count("exc:base-exception-failure:delivery=" + ("listen() session" if env.get("via") == "listen" else "callback"))
    for sp in specs:
        rep.count("exc:failure=" + exc_label(sp))
        if spec_is_base(sp):
            rep.count("exc:base-exception-failure(not an Exception)=" + exc_label(sp))
            for m in (sp["of"] if sp["k"] == "group" else []):
                if spec_is_base(m):
                    rep.count("exc:base-exception-group-member=" + exc_label(m))
        if sp["k"] == "user":
            rep.count("exc:user-class-named=" + sp.get("name", "UserError"))
            for t in sp.get("traits", []):
                rep.count("exc:user-class-trait=" + t)
        for flag in ("chain", "reuse", "bare"):
            if sp.get(flag):
                rep.count("exc:%s%s" % (flag, "=" + sp[flag] if flag == "chain" else ""))
    raised = o.get("raised_log") or []
    for ent in raised:
        if ent["spec"].get("k") not in ("nr", "nr_sub", "nr_subsub") and ent["cls"].startswith("taskiq."):
            rep.count("exc:taskiq-class-raised-by-a-failing-attempt=" + ent["cls"] + (" (raised directly: a plain function cannot await)"
                                                                              if ent["spec"].get("direct") else ""))
    ex = o.get("execs", [])
    if len(ex) > 1 and any(e["out"] == "F" for e in ex[:-1]):
        rep.count("exc:cases-with-a-re-send-after-such-a-failure")
        if any(spec_is_base(sp) for sp in specs[:len(ex) - 1]):
            rep.count("exc:cases-with-a-re-send-after-a-BaseException-failure")


def lab(case, name):
    for k, v in case["labels"]:
        if kstr(k) == name:
            return v
    return None


def first_nonfail(outs):
    for i, o in enumerate(outs):
        if o != "F":
            return i
    return None


def nontrivial(case):
    f = first_nonfail(case["outs"])
    mr = lab(case, "max_retries")
    m = mr["v"] if mr and mr["t"] == "int" else None
    return (f is not None and f >= 1) or m in ("0", "1") or any(
        (lab(case, n) or {}).get("t") == "str" for n in ("max_retries", "retry_on_error", "_retries"))


# ------------------------------------------------------------------ oracle: the statement over implementation observations
def in_domain(case):
    """the statement's quantifier: max_retries label/default as an integer, retry_on_error bool / str / default, no
    user-supplied _retries"""
    if lab(case, "_retries") is not None:
        return None
    roe = lab(case, "retry_on_error")
    if roe is None:
        enabled = bool(case["mw"]["label"])
    elif roe["t"] == "bool":
        enabled = bool(roe["v"])
    elif roe["t"] == "str":
        enabled = kstr(roe["v"]).lower() == "true"
    else:
        return None
    mr = lab(case, "max_retries")
    if mr is None:
        m = case["mw"]["count"]
    elif mr["t"] == "int":
        m = int(mr["v"])
    elif mr["t"] == "str":
        try:
            m = int(kstr(mr["v"]))
        except ValueError:
            return None
    else:
        return None
    return enabled, m


def want_args(case, obs, i):
    """the arguments execution i must have run with.  Opaque arguments: what was sent.  Typed arguments (canonical form of
    what the function received): execution 0 = the claim about the first attempt where there is one (the value sent, after
    the documented conversion), every later execution = what execution 0 received."""
    if case.get("typed") is None:
        return [case["args"], case["kwargs"]]
    first = obs["execs"][0]["args"]
    if i > 0 or not (isinstance(first, list) and len(first) == 2 and isinstance(first[1], dict)):
        return first
    claim = obs.get("typed_expect") or {}
    return [[], {**first[1], **claim}]


def oracle(case, obs, fail):
    dom = in_domain(case)
    ex = obs["execs"]
    if obs["err"] or not ex:
        fail("the message was not sent / never executed", dict(err=obs["err"], undelivered=obs["undelivered"]), "at least one execution")
        return
    sent = L9.as_map(case["labels"])
    want = L9.canon_map({k: v for k, v in sent.items() if not L9.is_other(v)}, drop=("_retries",))
    others = {k for k, v in sent.items() if L9.is_other(v)}
    for i, e in enumerate(ex):
        want_a = want_args(case, obs, i)
        if e["task_id"] != obs["sent_id"] or e["args"] != want_a:
            fail("execution %d ran with another task id / arguments%s" % (
                i, "" if case.get("typed") is None else " than the first execution" if i else " than the ones sent"),
                dict(id=e["task_id"], args=e["args"]), dict(id=obs["sent_id"], args=want_a))
        got = L9.canon_map({k: v for k, v in L9.as_map(e["labels"]).items() if k not in others}, drop=("_retries",))
        if got != want:
            fail("execution %d saw other user labels than the ones sent" % i, sorted(got.items()), sorted(want.items()))
    st = obs.get("settled")
    if "settled" in obs and (st is None or not st["quiet"] or st["pending"] or obs.get("unfinished")):
        # (in-memory path) nothing can be read off a broker that is still working: never a silent pass
        fail("the work spawned by the in-memory broker never settled", dict(settled=st, unfinished=obs.get("unfinished")), "all deliveries over")
        return
    if dom is None:
        return
    enabled, m = dom
    outs = case["outs"]
    exp = 0
    for i in range(1000):
        exp += 1
        o = outs[min(i, len(outs) - 1)]
        if o != "F" or not enabled or exp >= max(1, m):
            break
    if len(ex) != exp:
        fail("number of executions differs from min(first non-failing attempt, max(1, max_retries))",
             dict(executions=len(ex), enabled=enabled, max_retries=m, outs=outs), exp)
        return
    for i, e in enumerate(ex):
        o = outs[min(i, len(outs) - 1)]
        if e["out"] != o or e["raised"]:
            fail("execution %d: outcome stream not followed / callback raised" % i, dict(out=e["out"], raised=e["raised"]), o)
        last = i == len(ex) - 1
        if not last:
            if e["resent"] != 1 or e["resent_ids"] != [obs["sent_id"]]:
                fail("a failed attempt within the bound was not re-sent exactly once under the same id", e["resent_ids"], [obs["sent_id"]])
            if case["mw"]["nror"] and e["stored"]:
                fail("a re-sent attempt stored a result although no_result_on_retry is set", dict(execution=i, is_err=e["is_err"]), "no result")
            if not case["mw"]["nror"] and not (e["stored"] and e["is_err"]):
                fail("a re-sent attempt did not store its error result (no_result_on_retry off)", dict(execution=i, stored=e["stored"]), "error result")
        else:
            if e["resent"] != 0:
                fail("the final attempt was re-sent (more executions requested than the bound allows, or retry disabled / no-result)",
                     dict(execution=i, resent=e["resent"]), 0)
            want_st = dict(S=(True, False), F=(True, True), N=(False, None))[o]
            if (e["stored"], e["is_err"] if e["stored"] else None) != want_st:
                fail("the final attempt's outcome is not the stored result", dict(out=o, stored=e["stored"], is_err=e["is_err"]),
                     dict(stored=want_st[0], is_err=want_st[1]))
            elif st is not None and o != "N" and not (st["held"] and i in st.get("held_from", [])):
                # (in-memory path) the final attempt stored its outcome - but is that what the backend HOLDS for the task id
                # now that everything has settled?  (no claim when the final attempt signalled no-result: it stores nothing)
                fail(HELD_WHAT, dict(held=st["held"], held_result_saved_by_attempt=st.get("held_from"), held_is_err=st.get("held_is_err"),
                          held_exc=st.get("held_exc"), set_result_order=st["save_order"]),
                     dict(held_result_saved_by_attempt=[i], is_err=want_st[1]))


# ------------------------------------------------------------------ Coq side
class Lit(L9.Lit):
    def __init__(self, case, obs):
        self.case, self.obs = case, obs
        names = {kstr(k) for k, _ in case["labels"]}
        self.kid = dict(L9.INTERNAL)
        for i, n in enumerate(sorted(names - set(L9.INTERNAL))):
            self.kid[n] = 10 + i
        self.floats = set()
        self.unknown_key = False


OUT = dict(F="OFail", S="OSuccess", N="ONoResult")


def case_literal(case, obs):
    lit = Lit(case, obs)
    d = lit.ldict(case["labels"])
    execs = []
    for i, e in enumerate(obs["execs"]):
        if e["out"] not in OUT:
            return None
        execs.append("(mkExec %s %s %s %s %s %s %s)" % (
            "0%N" if e["task_id"] == obs["sent_id"] == "c0" else "1%N",
            # the model's opaque argument identifier: 8 = the arguments this execution must have run with (want_args)
            "8%N" if e["args"] == want_args(case, obs, i) else "9%N",
            lit.ldict(e["labels"]), OUT[e["out"]],
            "(Some %s)" % C.cb(e["is_err"]) if e["stored"] else "None",
            C.cb(e["resent"] >= 1), C.cb(bool(e["raised"]))))
    dom = in_domain(case)
    chk = "None" if dom is None else "(Some (%s, %s))" % (C.cb(dom[0]), C.cz(dom[1]))
    outs = "[" + "; ".join(OUT[o] for o in case["outs"]) + "]"
    cfg = "(mkCfg %s %s %s)" % (C.cz(case["mw"]["count"]), C.cb(case["mw"]["label"]), C.cb(case["mw"]["nror"]))
    sof, fos = lit.tables()
    if lit.unknown_key:
        return None
    return "((%s, %s, %s, %s, %s, [%s], %s) : case_t)" % (sof, fos, cfg, d, outs, "; ".join(execs), chk)


COQ_HEADER = """From Coq Require Import ZArith NArith List Bool. Import ListNotations.
From TQ Require Import Base64 Labels Retry.
Open Scope N_scope.
Definition case_t := (list (Z * pstr) * list (pstr * option Z) * cfg * dict lval * list outcome * list exec
                      * option (bool * Z))%type.
Definition exec_eqb (a b : exec) : bool :=
  (e_id a =? e_id b) && (e_args a =? e_args b) && dict_eqb lval_eqb (e_labels a) (e_labels b)
  && outcome_eqb (e_out a) (e_out b) && opt_eqb Bool.eqb (e_stored a) (e_stored b)
  && Bool.eqb (e_resent a) (e_resent b) && Bool.eqb (e_raised a) (e_raised b).
Definition stream (l : list outcome) (i : nat) : outcome := nth i l (last l OSuccess).
Definition case_ok (c : case_t) : bool :=
  let '(st, ft, cf, d, outs, obs, chk) := c in
  match run_retry (tab_sof st) (tab_fos ft) cf (stream outs) 64 0 8 d with
  | None => false
  | Some es =>
      list_eqb exec_eqb es obs
      && match chk with
         | None => true
         | Some (en, m) => C11_check en (no_result_on_retry cf) m (map (fun e => (e_out e, e_stored e, e_resent e)) obs)
                           && Bool.eqb en (retry_enabled cf (norm_dict d))
                           && opt_eqb Z.eqb (Some m) (max_retries cf (norm_dict d))
         end
  end."""
COQ_BODY = """Fixpoint bad (i : nat) (l : list case_t) : list nat :=
  match l with [] => [] | c :: t => if case_ok c then bad (S i) t else i :: bad (S i) t end.
Eval vm_compute in bad 0%nat cases."""
DRIVER = "retry_driver"


def explore(ctx, rep, cases, label, shard=150):
    obs = C.run_driver(ctx, "retry_driver", cases)
    lits, keep, unlit = [], [], []
    for c, o in zip(cases, obs):
        rep.case(c, nontrivial(c))
        if "_crash" in o:
            rep.fail("driver crashed", c, observed=o["_crash"], sig=dict(kind="crash"))
            continue
        nfail = len(rep.failures)

        def fail(what, observed, expected, c=c):
            if len(rep.failures) - nfail < 3:
                shape = known_shape(c, what, observed)
                if shape is not None:
                    rep.count("known-finding-shape-hit-by-a-generated-case:" + shape)
                rep.fail(what, c, observed=observed, expected=expected, sig=dict(kind=shape or "retry"))

        oracle(c, o, fail)
        mr, roe = lab(c, "max_retries"), lab(c, "retry_on_error")
        rep.count("max_retries:" + ("default" if mr is None else mr["t"] + "-label"))
        rep.count("retry_on_error:" + ("default" if roe is None else roe["t"] + "-label"))
        rep.count("serializer:" + c["ser"])
        rep.count("no_result_on_retry:%s" % c["mw"]["nror"])
        rep.count("oracle-domain:%s" % (in_domain(c) is not None))
        rep.count("executions:%d" % len(o["execs"]))
        count_env(rep, c, o)
        count_typed(rep, c, o)
        ex = o["execs"]
        if ex:
            last = ex[-1]
            branch = ("DCrash(int() raised)" if last["raised"] else
                      "success" if last["out"] == "S" else "no-result" if last["out"] == "N" else
                      "DDisabled-or-DExhausted")
            rep.count("model-branch:last=" + branch)
            if len(ex) > 1:
                rep.count("model-branch:DResend", len(ex) - 1)
        lit = case_literal(c, o)
        if lit is None:
            unlit.append(c)
            continue
        lits.append(lit)
        keep.append(c)
    bad, fails, _ = C.coq_eval(ctx, label, COQ_HEADER, lits, COQ_BODY, shard=shard)
    if unlit:
        fails = fails + ["%d observations not expressible in the model's types" % len(unlit)]
        for c in unlit[:3]:
            rep.mismatches.append(dict(name=label, index=None, case=c))
    rep.corr(label, len(lits) + len(unlit), bad, fails, lambda i: keep[i])
    rep.traces += len(lits) - len(bad)
    return bool(bad or fails)


def grid():
    """the design-time probe's grid (5 outcome patterns x max_retries x retry_on_error encodings x nror), always run"""
    out = []
    for outs in (["F"], ["F", "S"], ["F", "F", "S"], ["F", "N"], ["S"], ["N"], ["F", "F", "F", "F", "S"]):
        for mr in (None, 0, 1, 2, 3, "3", "0", "1", -1):
            for roe in (True, False, "true", "False", "TRUE", None):
                for nror in (True, False):
                    labels = []
                    if mr is not None:
                        labels.append([K("max_retries"), {"t": "int", "v": str(mr)} if isinstance(mr, int) else {"t": "str", "v": K(mr)}])
                    if roe is not None:
                        labels.append([K("retry_on_error"), {"t": "bool", "v": roe} if isinstance(roe, bool) else {"t": "str", "v": K(roe)}])
                    out.append(dict(ser="json", mw=dict(count=2, label=roe is None and len(outs) % 2 == 1, nror=nror), labels=labels,
                                    outs=outs, args=[7], kwargs={}, guard=30))
    return out


def run(ctx):
    rep = C.Report(ctx, META)
    rep.add_obligations(C.proof_obligations("C11"))
    # source tie: SimpleRetryMiddleware.on_error is re-translated from the repository's source text and the committed
    # proofs (generated = Retry.decide; C11 over the generated definition) are re-checked against it
    src_obs, src_info = srctie.obligations(ctx, "retry", "C11")
    rep.add_obligations(src_obs)
    rep.extra["source_tie"] = src_info
    cc = [c for _, c in C.load_corpus("C11")]
    if cc:
        explore(ctx, rep, cc, "corpus")
    broken = explore(ctx, rep, grid(), "grid")
    r = ctx.sub_rng("gen")
    broken = explore(ctx, rep, [gen_case(r) for _ in range(ctx.n(1500, 40000))], "main") or broken
    re_ = ctx.sub_rng("env")
    exception_info(ctx, rep)
    ri = ctx.sub_rng("inmem")
    broken = explore(ctx, rep, env_grid() + exc_grid() + inmem_grid() + wall_grid() + [gen_env_case(re_) for _ in range(ctx.n(400, 12000))]
                     + [gen_inmem_case(ri) for _ in range(ctx.n(150, 4500))], "env") or broken
    rt = ctx.sub_rng("typed")
    broken = explore(ctx, rep, typed_grid() + [gen_typed_case(rt) for _ in range(ctx.n(300, 9000))], "typed") or broken
    known_alias(ctx, rep)
    known_inmem(ctx, rep)
    if (broken or any(not o["ok"] for o in rep.obligations)) and not [f for f in rep.failures if not is_known(f)]:
        r2 = ctx.sub_rng("search")
        explore(ctx, rep, [gen_inmem_case(r2) if i % 8 == 7 else gen_env_case(r2) if i % 4 == 3 else gen_typed_case(r2) if i % 4 == 1
                           else gen_case(r2) for i in range(ctx.n(6000, 60000))], "search")
    return rep.finish({"alias_field_lost": is_alias, D17: is_known_shape(D17), D18: is_known_shape(D18)})


def is_alias(f):
    return f.get("sig", {}).get("kind") == "alias_field_lost"


def is_known(f):
    return is_alias(f) or is_known_shape(D17)(f) or is_known_shape(D18)(f)


def known_inmem(ctx, rep):
    """known findings D17 / D18 (known_findings.json): their corpus replays run on every check through the driver and the direct
    oracle, the way D12's does.  The replay counts as the finding only if its failure has EXACTLY the finding's shape
    (known_shape); any other failure of the replay is an ordinary failure; a replay that holds is noted as not reproducing."""
    for sig, name in ((D17, "d17_inplace_nested_attempts"), (D18, "d18_resent_attempt_overtakes")):
        path = os.path.join(C.VERIF, "corpus", "C11", "known", name + ".json")
        if not os.path.exists(path):
            continue
        c = json.load(open(path))
        o = C.run_driver(ctx, DRIVER, [c], nproc=1)[0]
        rep.case(c, True)
        rep.count("known-finding-replay:" + name)
        if "_crash" in o:
            rep.fail("driver crashed", c, observed=o["_crash"], sig=dict(kind="crash"))
            continue
        count_env(rep, c, o)
        got = []
        oracle(c, o, lambda what, observed, expected: got.append((what, observed, expected)))
        rep.extra.setdefault("known_finding_replays", {})[sig] = (
            "reproduces" if got and known_shape(c, got[0][0], got[0][1]) == sig else
            "fails, but not with the finding's shape" if got else "does not reproduce on this tree (stale finding?)")
        rep.count("known-finding-replay:%s:%s" % (name, "reproduces" if got else "does not reproduce"))
        for what, observed, expected in got[:1]:
            rep.fail(what, c, observed=observed, expected=expected, sig=dict(kind=known_shape(c, what, observed) or "retry"))


def known_alias(ctx, rep):
    """known finding D12 (known_findings.json, signature alias_field_lost): its corpus replay runs on every check through
    the driver and the direct oracle only (the model treats arguments as opaque, it has no counterpart of the loss)"""
    path = os.path.join(C.VERIF, "corpus", "C11", "known", "d12_alias_field_lost.json")
    if not os.path.exists(path):
        return
    c = json.load(open(path))
    o = C.run_driver(ctx, DRIVER, [c], nproc=1)[0]
    rep.case(c, True)
    rep.count("known-finding-replay:d12_alias_field_lost")
    if "_crash" in o:
        rep.fail("driver crashed", c, observed=o["_crash"], sig=dict(kind="crash"))
        return
    got = []
    oracle(c, o, lambda what, observed, expected: got.append((what, observed, expected)))
    for what, observed, expected in got[:1]:
        rep.fail(what, c, observed=observed, expected=expected, sig=dict(kind="alias_field_lost"))


def replay(ctx, path):
    rec = json.load(open(path))
    c = rec["case"] if "case" in rec and "outs" not in rec else rec
    o = C.run_driver(ctx, "retry_driver", [c], nproc=1)[0]
    print("case:", json.dumps(c)[:2000])
    if "_crash" in o:
        print("driver crashed:", o["_crash"])
        return 1
    if c.get("typed") is not None:
        print("task function (typed arguments, harness/retry_typed.py):\n  " + (o.get("typed_src") or "").replace("\n", "\n  ").rstrip())
        print("claim about the first attempt's arguments:", json.dumps(o.get("typed_expect"), sort_keys=True)[:1500])
    for i, e in enumerate(o["execs"]):
        print(" execution %d: out=%s id=%s stored=%s is_err=%s resent=%s raised=%s _retries=%s" % (
            i, e["out"], e["task_id"], e["stored"], e["is_err"], e["resent"], e["raised"],
            L9.as_map(e["labels"]).get("_retries")))
        if c.get("typed") is not None:
            print("   received arguments:", json.dumps(e["args"][1] if e["args"] else e["args"], sort_keys=True)[:1500])
    print("statement domain (enabled, max_retries):", in_domain(c))
    if "settled" in o:
        print("in-memory broker: every delivery settled:", bool(o["settled"] and o["settled"]["quiet"]), "| set_result calls for the id, by attempt:",
              (o["settled"] or {}).get("save_order"), "| the backend now holds:", json.dumps({k: (o["settled"] or {}).get(k) for k in
              ("held", "held_from", "by", "held_is_err", "held_exc")}), "| body:", body_suspends(c.get("env") or {}))
    if o.get("raised_log"):
        print("exceptions raised by the attempts (chosen by the case, env['exc'] / env['nr']):",
              json.dumps([[exc_label(e["spec"]) if e["spec"].get("k") not in NR_KINDS else "no-result signal " + e["spec"]["k"],
                           e["cls"]] for e in o["raised_log"]]))
    if o.get("wall") is not None:
        print("host wall clock (env['wall']; plan[i] = event while the i-th body runs):", json.dumps(c["env"]["wall"]),
              "| events that happened [attempt, stage, reading before, after]:",
              json.dumps([[n, st, float.fromhex(a), float.fromhex(b)] for n, st, a, b in o["wall"]["events"]]),
              "| measured durations of the stored results:", json.dumps([float.fromhex(d) for d in o["wall"]["durations"]]))
    if c.get("env") is not None:
        print("worker configuration (env):", json.dumps(c["env"]), "| Receiver kwargs from the command line:", o.get("cli_kw"),
              "| acks:", o.get("acks"), "| dependency teardown:", o.get("teardown"))
    fails = []
    oracle(c, o, lambda what, observed, expected: fails.append((what, observed, expected)))
    lit = case_literal(c, o)
    if lit is not None:
        bad, sf, _ = C.coq_eval(ctx, "replay", COQ_HEADER, [lit], COQ_BODY)
        print("model (Retry.v, evaluated in Coq):", "agrees with the implementation" if not bad and not sf else "DIFFERS " + str(sf)[:300])
    for f in fails:
        print("VIOLATED:", f[0], "| observed:", json.dumps(f[1], default=str)[:500], "| expected:", json.dumps(f[2], default=str)[:300])
    print("holds" if not fails else "VIOLATED")
    return 0 if not fails else 1
