"""C08 - arguments reach the task function unchanged and bound to the right parameters."""
import copy
import json
import zlib

import common as C

META = dict(
    id="C08",
    design_ref="DESIGN.md section 4, C08",
    technique="Coq proof (induction over the signature / argument lists, insertion-ordered dictionaries) over a Gallina "
              "transcription of parse_params + CPython call binding + run_task's kwargs assembly + kicker._prepare_message; "
              "differential correspondence with the real kiq -> formatter -> Receiver.callback -> function body trip",
    level_text="C08_binding: for every signature of positional-or-keyword then keyword-only parameters (annotated or not, "
               "defaulted or not, dependency or not) and every call CPython accepts as sent, run_task invokes the body with "
               "parameter p receiving, in the same fill mode, the sent value if p is un-annotated / Any / the value is None, "
               "else the conversion when parse_obj_as returns one, else the sent value; nothing moves, appears or disappears "
               "(list-level equality). C08_parse_params_pointwise characterises parse_params on every signature (also *args / "
               "**kwargs). C08_no_parse, C08_prepare_arg (unbounded, closed). C08_formatter_roundtrip_partial is conditional on "
               "the serializer / pydantic round trip. The model is evaluated in Coq (vm_compute) on every case against what the "
               "generated function body really received; the Boolean form of the statement (C08_check, proved to hold of the "
               "model) is evaluated on every implementation observation; a Python transcription of the statement is the oracle.",
    level_note="Scope reading (the one that demands less): the quantifier lists annotated, un-annotated, defaulted, keyword-only "
               "and dependency parameters; var-positional / var-keyword / positional-only parameters are outside it (the model "
               "covers *args and **kwargs faithfully, the theorem C08_scope_excludes_var_positional shows the statement fails "
               "there: observation, not a finding). A keyword named `self` is refused by kiq() itself (TypeError at the caller). "
               "A str with a lone surrogate (U+D800..U+DFFF) counts as JSON-representable where Python's json module carries it "
               "and the unchanged code sends it: as a value (argument, list item, dict value, dataclass field) under ProxyFormatter; "
               "as a dict key, or anywhere under JSONFormatter, pydantic's JSON writer refuses it loudly (UnicodeEncodeError, nothing "
               "is sent) - not generated; nor is a high surrogate directly followed by a low one (json itself joins the two). Annotations on which parse_obj_as raises "
               "outside ValueError/RuntimeError (only a user validator that itself raises TypeError was found) are excluded by "
               "hypothesis from C08_binding and from the oracle; C08_foreign_exception_not_invoked covers them. "
               "None is never converted (the code's `if value is None: continue`). "
               "Trusted: Coq kernel + vm_compute; `convertible` is pydantic's notion: it enters as a finite table of the library's own "
               "answers (TypeAdapter(annotation).validate_python called directly, never through taskiq.compat); the "
               "serializer/pydantic round trip is validated by the differential run only (orjson/msgpack/cbor serializers are "
               "not importable in this sandbox and are out of reach).",
    rule="case = (generated def/async def signature, positional/keyword split, values, validate_params, formatter, serializer); "
         "non-trivial iff an un-annotated or Any parameter precedes an annotated one, or there is a keyword-only or dependency "
         "parameter, or a consulted conversion fails; distinct by canonical JSON of the case. A group case = a sequence of such "
         "calls run in ONE driver process over same-named annotation classes built for the group (each call judged on its own); "
         "non-trivial iff the implementation converted values for at least two different classes of one name. A registry case = a "
         "sequence of registrations (worker broker / shared task / producer-side broker, functions sharing a task name), the "
         "construction of the worker's Receiver and calls in ONE driver process, each call judged by the signature of the "
         "function whose body ran; non-trivial iff a called name had at least two different function definitions registered. "
         "A life-cycle case = a sequence of registrations, startup() / shutdown() events and calls on ONE InMemoryBroker object "
         "(constructor options, cast_types both ways) in ONE driver process, each call judged on its own with the configuration "
         "the broker was constructed with; non-trivial iff some call is made after a shutdown of that object. "
         "A redelivery case = a sequence of sends, REDELIVERIES of an already delivered wire message (same bytes object / equal "
         "copy / AckableMessage) and re-sends under a fixed custom task id in ONE driver process (one worker Receiver, a Receiver "
         "per delivery, or a started InMemoryBroker), the task functions changing their arguments in place after recording them; "
         "every delivery judged on its own; non-trivial iff some delivery's bytes were delivered before and an earlier execution "
         "of them changed a container argument in place. About one generated function in six (all families) changes its "
         "arguments in place; the round-trip clause is judged on a decode before and a decode after every execution. "
         "A text case = an ordinary call (or life-cycle / redelivery group) whose values carry lone surrogates, non-BMP / non-ASCII "
         "text, NUL / control characters, BOM / non-characters / separators, escape look-alikes or very long strings (bare, nested, "
         "dict keys, model / dataclass fields, keyword and parameter names). The broker's serializer is the one its own "
         "constructor installed ('default': half of the text cases, about a third of the hand-built-JSON cases of every other "
         "family, drawn from a hash of the case) or an object built by the driver; the formatter likewise (proxy / proxy_built)",
    trusted_base=["model: coq/theories/Params.v (hand-written transcription of parse_params, run_task's call assembly, CPython "
                  "argument binding, kicker._prepare_message, formatter composition)",
                  "parse_obj_as (pydantic) = Section variable `conv`, instantiated per case by a table of pydantic's own answers "
                  "(pydantic.TypeAdapter(annotation).validate_python, asked directly - independent of /repo's taskiq.compat wrapper)",
                  "hypotheses of C08_binding: Any validates to its input; parse_obj_as raises only ValueError/RuntimeError",
                  "hypotheses of C08_formatter_roundtrip_partial: serializer loadb(dumpb v) = v on message dumps; pydantic validate(dump m) = m",
                  "canonicaliser and value/type/name numbering in harness/drivers/params_driver.py and harness/props/C08.py"],
    assumptions=["dependency resolution itself (order, caching, teardown) is C06/C12; here a dependency is a keyword argument the "
                 "receiver adds unless the message carries one of the same name",
                 "values are JSON-representable (str keys, lists not tuples, finite floats; lone surrogates only as values under "
                 "ProxyFormatter, never a high one directly followed by a low one)"],
)

NAMES = ["a", "b", "c", "d", "e", "g", "x", "y", "args", "kwargs", "labels", "task_name", "message", "target",
         "signature", "value", "loop", "timeout"]
ANN_W = [(None, 30), ("Any", 10), ("int", 16), ("str", 6), ("float", 6), ("bool", 5), ("List[int]", 5),
         ("Dict[str,int]", 4), ("Optional[int]", 5), ("M1", 5), ("M2", 2), ("D1", 4), ("D2", 1), ("X", 2),
         ("Union[int,str]", 2), ("None", 1), ("List[M1]", 1), ("NZ", 4), ("M3", 2)]


def wchoice(r, table):
    tot = sum(w for _, w in table)
    k = r.random() * tot
    for v, w in table:
        k -= w
        if k < 0:
            return v
    return table[-1][0]


# --------------------------------------------------------------------------- values
STRS = ["5", "12", "-3", "5.0", "5.5", "abc", "", " 7", "1e3", "true", "yes", "no", "0", "1", "nan", "None", "null",
        "é", "日本", "\u0000", 'quo"te', "back\\slash", "\U0001f600", "line\nbreak", "007", "+4", "1_0"]
INTS = [0, 1, -1, 5, 7, 42, -3, 255, 2**31, 2**63, 2**64 + 1, -2**70, 10**30, 2**53 + 1]
FLOATS = [0.5, -0.0, 1e300, 5e-324, 1.7976931348623157e308, 3.0, 0.1, -2.5, 5.0, 1e16]


def gen_json(r, depth=0):
    k = r.random()
    if k < .08:
        return None
    if k < .16:
        return r.random() < .5
    if k < .36:
        return r.choice(INTS) if r.random() < .7 else r.randrange(-1000, 1000)
    if k < .48:
        return r.choice(FLOATS)
    if k < .74 or depth >= 2:
        return r.choice(STRS)
    if k < .87:
        return [gen_json(r, depth + 1) for _ in range(r.randrange(0, 4))]
    return {r.choice(["a", "b", "k", "", "x", "ü", "0"]): gen_json(r, depth + 1) for _ in range(r.randrange(0, 4))}


def J(v):
    return {"j": v}


def gen_model(r, name):
    if name == "M1":
        kw = {"x": J(r.choice([1, 2, 3, -4, 2**40]))}
        if r.random() < .5:
            kw["y"] = J(r.choice(["z", "", "5", "é"]))
        return {"model": "M1", "kw": kw}
    if name == "M3":
        return {"model": "M3", "kw": {"t": J([r.randrange(5), r.randrange(5)]),
                                      "when": J(r.choice(["2024-01-02", "1999-12-31", "2031-07-15"]))}}
    kw = {"items": J([r.randrange(9) for _ in range(r.randrange(0, 3))])}
    if r.random() < .5:
        kw["inner"] = gen_model(r, "M1")
    return {"model": "M2", "kw": kw}


def gen_dc(r, name):
    if name == "D1":
        kw = {"x": J(r.choice([1, 2, 3, -4]))}
        if r.random() < .5:
            kw["y"] = J([r.randrange(9) for _ in range(r.randrange(0, 3))])
        return {"dc": "D1", "kw": kw}
    kw = {"name": J(r.choice(["n", "", "5"]))}
    if r.random() < .5:
        kw["d"] = gen_dc(r, "D1")
    return {"dc": "D2", "kw": kw}


AIMED = {
    "int": lambda r: J(r.choice(["5", "12", "-3", "5.0", "5.5", "abc", "", " 7", 5.0, 5.5, True, 7, 2**70, "1e3", [1], "007", "1_0", "+4"])),
    "float": lambda r: J(r.choice(["1.5", "abc", 3, "nan", True, "1e3", 2**70, [1.5], "5"])),
    "bool": lambda r: J(r.choice(["true", "yes", "no", 1, 0, "maybe", 2, "0", 1.0, "off"])),
    "str": lambda r: J(r.choice([5, 5.5, True, "x", ["a"], {"a": "b"}])),
    "List[int]": lambda r: J(r.choice([["1", "2"], [1, "x"], "12", [], [[1]], [1.0, True], {"a": 1}, ["3"]])),
    "Dict[str,int]": lambda r: J(r.choice([{"a": "1"}, {"a": "x"}, [], {"a": 1.0}, {"a": "1", "b": 2}, {}])),
    "Optional[int]": lambda r: J(r.choice([None, "5", "x", 5.0, "12"])),
    "Union[int,str]": lambda r: J(r.choice(["5", 5, 5.5, True, [1]])),
    "None": lambda r: J(r.choice([None, "x", 0])),
    "NZ": lambda r: J(r.choice([None, None, "5", "x", 7, 2.5])),
    "X": lambda r: J(gen_json(r)),
    "M1": lambda r: r.choice([J({"x": 1}), J({"x": "3", "y": "z"}), J({"y": "z"}), gen_model(r, "M1"), J({"x": 1, "extra": 2}), J("x")]),
    "M2": lambda r: r.choice([J({"items": ["1"], "inner": {"x": 2}}), gen_model(r, "M2"), J({"items": "x"})]),
    "M3": lambda r: r.choice([J({"t": [1, 2], "when": "2024-01-02"}), gen_model(r, "M3"), J({"t": [1], "when": "x"})]),
    "D1": lambda r: r.choice([J({"x": 1}), J({"x": "2", "y": ["3"]}), gen_dc(r, "D1"), J({"q": 1}), J([1])]),
    "D2": lambda r: r.choice([J({"name": "n", "d": {"x": 1}}), gen_dc(r, "D2"), J({"name": 1})]),
    "List[M1]": lambda r: r.choice([J([{"x": 1}]), {"l": [gen_model(r, "M1")]}, J([{"x": "2"}, {"y": 1}])]),
}


# Values on which a *Python constructor call* (`int(v)`, `float(v)`, `bool(v)`, `str(v)`, `list(v)`, `M1(**v)` ...) and
# pydantic's validator for the same annotation disagree or might plausibly be made to disagree: the constructor converts
# lossily / differently where pydantic refuses (value must then arrive unchanged), or refuses where pydantic converts.
# All JSON-representable (finite floats, str keys).  "Convertible" is pydantic's notion, measured on the library itself
# (driver: reference_parse), so these inputs separate parse_params + taskiq.compat from any shortcut around pydantic.
EDGE = {
    "int": [2.5, 7.25, -0.75, 0.999, 1e30, -1e30, 1e300, 1e16, 4.0, -0.0, 2.0**53, "1.5", " 7 ", "1e3", "0x10", "0b11",
            "\u0661\u0662", "\u0663", "True", "1_000", "1__0", "7.0", "7.00", "7.5", "7.", "-0", "+7", "1e-1", " ", "12abc",
            "\u00bd", "9" * 60, True, False, 2**70, [7], {"a": 7}],
    "float": [2**53 + 1, 10**400, 10**30, -2**70, True, False, " 1.5 ", "1_0.5", "inf", "-inf", "Infinity", "nan",
              "0x10", "\u0661\u0662.\u0665", "\u0663", "1,5", "1e400", ".5", "5.", "1.5f", "True", "1__0", "", [1.5]],
    "bool": ["on", "off", "0", "1", "t", "f", "y", "n", "TRUE", "True", "False", " true", "false", "maybe", "", "2", "1.0",
             0.0, 2, -1, 0.5, 2.5, [], [True], {}, "\u0661"],
    "str": [0, 5, -3, 2**70, 5.5, 1e30, -0.0, True, False, [], ["a"], {}, {"a": "b"}],
    "Optional[int]": [2.5, -0.75, "2.5", True, "\u0661\u0662", 1e30, 4.0, "7.0", [1]],
    "Union[int,str]": [2.5, 7.0, True, 1e30, [1], {"a": 1}],
    "List[int]": [[1.5], [2.0], [1, 2.5], ["1.5"], ["7.0"], [True], [" 7 "], ["\u0661\u0662"], "12", 5, 2.5, {"0": 1}, [[1.5]]],
    "Dict[str,int]": [{"a": 1.5}, {"a": 2.0}, {"a": "1.5"}, {"a": "7.0"}, {"a": True}, {"a": "\u0661"}, [["a", 1]], "a", 2.5],
    "M1": [{"x": 2.5}, {"x": 4.0}, {"x": "1.5"}, {"x": "7.0"}, {"x": True}, {"x": "\u0661\u0662"}, {"x": 1, "y": 5}, [1], 2.5],
    "D1": [{"x": 2.5}, {"x": 4.0}, {"x": "7.0"}, {"x": 1, "y": [1.5]}, {"x": True}, 2.5],
    "NZ": [2.5, "2.5", True, 1e30, "\u0661\u0662", " 7 "],
}
EDGE_KEYS = {a: {json.dumps(v, sort_keys=True) for v in vs} for a, vs in EDGE.items()}


def is_edge(ann, spec):
    return ann in EDGE_KEYS and "j" in spec and json.dumps(spec["j"], sort_keys=True) in EDGE_KEYS[ann]


def gen_value(r, ann, used, aimed=None):
    aim = (aimed or {}).get(ann) or AIMED.get(ann)
    for _ in range(8):
        k = r.random()
        if ann in EDGE and k < .2:
            s = J(r.choice(EDGE[ann]))
        elif aim is not None and k < .7:
            s = aim(r)
        elif k < .80:
            s = J(gen_json(r))
        elif k < .86:
            s = gen_model(r, r.choice(["M1", "M1", "M2", "M3"]))
        elif k < .92:
            s = gen_dc(r, r.choice(["D1", "D1", "D2"]))
        elif k < .93:
            s = {"dctype": r.choice(["D1", "D2"])}
        elif k < .95:
            s = {"l": [gen_model(r, "M1"), gen_dc(r, "D1")][:r.randrange(1, 3)]}
        else:
            s = J(gen_json(r))
        key = json.dumps(s, sort_keys=True)
        if key not in used or s == J(None):
            used.add(key)
            return s
    return s


# --------------------------------------------------------------------------- signatures and calls
def gen_param(r, name, kind, seen_default, annpick=None):
    ann = annpick(r) if annpick else wchoice(r, ANN_W)
    dep, default = None, False
    if r.random() < .11:
        dep = r.choice(["default", "default", "context", "annotated"])
        if dep == "annotated" and seen_default and kind == "pos":
            dep = "default"
    if dep is None:
        default = (seen_default and kind == "pos") or r.random() < .3
    if dep == "context":
        ann = None
    if dep == "annotated" and ann is None:
        ann = "int"
    return dict(name=name, kind=kind, ann=ann, default=default, dep=dep)


def gen_case(r, annpick=None, aimed=None):
    pick = annpick or (lambda q: wchoice(q, ANN_W))
    npos = r.choice([0, 1, 1, 2, 2, 2, 3, 3, 4])
    nkw = r.choice([0, 0, 0, 0, 1, 1, 2, 3])
    varpos, varkw = r.random() < .12, r.random() < .10
    names = r.sample(NAMES, npos + nkw + 2)
    params, seen_default = [], False
    for i in range(npos):
        p = gen_param(r, names[i], "pos", seen_default, annpick)
        seen_default = seen_default or p["default"] or p["dep"] in ("default", "context")
        params.append(p)
    if varpos:
        params.append(dict(name=names[npos + nkw], kind="varpos", ann=pick(r), default=False, dep=None))
    for i in range(nkw):
        params.append(gen_param(r, names[npos + i], "kw", False, annpick))
    if varkw:
        params.append(dict(name=names[npos + nkw + 1], kind="varkw", ann=pick(r), default=False, dep=None))
    case = dict(params=params, ret=r.choice([None, None, "int", "str"]))
    case["async"] = r.random() < .6
    case["validate"] = r.random() < .8
    case["fmt"] = r.choice(["proxy", "proxy", "json"])
    case["ser"] = r.choice(["json", "json", "pickle"])
    gen_call(r, case, aimed)
    derive_mutate(case)
    derive_default_serializer(case)
    return case


# what a task function may do with the values it was given: they are its own (decoded from the wire for this execution)
MUTATIONS = ["grow", "shrink", "clear", "reverse", "overwrite", "sort"]


def derive_mutate(case):
    """about one generated function in six works on its arguments in place (after recording what arrived).  Drawn from a
    hash of the case, not from the generator's random stream: the cases of every existing family stay what they were."""
    h = zlib.crc32(json.dumps(case, sort_keys=True).encode())
    if h % 6 == 0:
        case["mutate"] = MUTATIONS[h // 6 % len(MUTATIONS)]


def derive_default_serializer(c):
    """one in three of the cases / groups whose broker would be handed a JSONSerializer() built by the driver leave
    the broker with the serializer ITS OWN CONSTRUCTOR installed ("ser": "default" - what an application that configures
    nothing runs with).  Drawn from a hash of the case, not from the generator's stream (cf. derive_mutate)."""
    if "ser" not in c and "steps" in c:            # a group whose calls each have their own broker
        for st in c["steps"]:
            derive_default_serializer(st)
    elif c.get("ser") == "json" and zlib.crc32(b"serializer:" + json.dumps(c, sort_keys=True).encode()) % 3 == 0:
        c["ser"] = "default"
        for st in c.get("steps", []):
            if st.get("ser") == "json":
                st["ser"] = "default"
    return c


def gen_call(r, case, aimed=None):
    params = case["params"]
    pos = [p for p in params if p["kind"] == "pos"]
    kws = [p for p in params if p["kind"] == "kw"]
    vp = [p for p in params if p["kind"] == "varpos"]
    vk = [p for p in params if p["kind"] == "varkw"]
    used = set()
    sent = {}
    for p in pos + kws:
        if p["dep"]:
            sent[p["name"]] = r.random() < .15
        elif p["default"]:
            sent[p["name"]] = r.random() < .5
        else:
            sent[p["name"]] = True
    maxk = 0
    for p in pos:
        if sent[p["name"]] and not p["dep"]:
            maxk += 1
        else:
            break
    k = maxk if r.random() < .55 else r.randint(0, maxk)
    args = [gen_value(r, p["ann"], used, aimed) for p in pos[:k]]
    kwargs = [[p["name"], gen_value(r, "X" if p["dep"] == "context" else p["ann"], used, aimed)]
              for p in pos[k:] + kws if sent[p["name"]]]
    r.shuffle(kwargs)
    if vp and k == len(pos):
        args += [gen_value(r, r.choice([vp[0]["ann"]] + [q["ann"] for q in kws]), used, aimed) for _ in range(r.choice([0, 1, 2, 3]))]
    free = [n for n in NAMES if n not in {p["name"] for p in params}]
    if vk:
        for _ in range(r.choice([0, 1, 1, 2])):
            n = vk[0]["name"] if r.random() < .2 else r.choice(free)
            if n not in [x[0] for x in kwargs]:
                kwargs.append([n, gen_value(r, vk[0]["ann"], used, aimed)])
    # a share of calls CPython itself must refuse (validates the model of the binding, not the property)
    if r.random() < .15:
        m = r.choice(["extra_pos", "drop", "dup", "unknown", "past_dep"])
        if m == "extra_pos":
            args.append(gen_value(r, None, used))
        elif m == "drop":
            if kwargs and r.random() < .6:
                kwargs.pop(r.randrange(len(kwargs)))
            elif args:
                args.pop()
        elif m == "dup" and args:
            n = pos[r.randrange(min(len(args), len(pos)))]["name"] if pos else None
            if n and n not in [x[0] for x in kwargs]:
                kwargs.append([n, gen_value(r, None, used)])
        elif m == "unknown":
            n = r.choice(free)
            if n not in [x[0] for x in kwargs]:      # kwargs is a dict: a name occurs once
                kwargs.append([n, gen_value(r, None, used)])
        elif m == "past_dep":
            names_kw = {x[0] for x in kwargs}
            args = args + [gen_value(r, p["ann"], used, aimed) for p in pos[len(args):] if p["name"] not in names_kw][:2]
    assert len({x[0] for x in kwargs}) == len(kwargs)
    case["args"], case["kwargs"] = args, kwargs


def enum_cases(maxn=3):
    """small-scope exhaustive: every signature of <= maxn parameters over {positional-or-keyword, keyword-only} x
    {un-annotated, Any, int} x {required, defaulted, dependency}, every split of the call CPython accepts
    (positional prefix / keyword / not sent), parameter i carrying the convertible value str(5+i); both settings of
    validate_params alternate with the formatter/serializer combination"""
    import itertools
    opts = [(k, a, d) for k in ("pos", "kw") for a in (None, "Any", "int") for d in ("req", "dflt", "dep")]
    names = ["a", "b", "c", "d"]
    combos = [("proxy", "json"), ("json", "json"), ("proxy", "pickle")]
    out, n = [], 0
    for ln in range(1, maxn + 1):
        for sig in itertools.product(opts, repeat=ln):
            kinds = [o[0] for o in sig]
            if any(kinds[i] == "kw" and kinds[i + 1] == "pos" for i in range(ln - 1)):
                continue
            seen_d, ok = False, True
            for k, a, d in sig:
                if k == "pos":
                    if d == "req" and seen_d:
                        ok = False
                    seen_d = seen_d or d != "req"
            if not ok:
                continue
            params = [dict(name=names[i], kind=k, ann=a, default=(d == "dflt"), dep=("default" if d == "dep" else None))
                      for i, (k, a, d) in enumerate(sig)]
            # per parameter: P = positional, K = keyword, U = not sent
            modes = []
            for i, (k, a, d) in enumerate(sig):
                m = ["K"]
                if k == "pos" and d != "dep":
                    m.append("P")
                if d != "req":
                    m.append("U")
                modes.append(m)
            for choice in itertools.product(*modes):
                npos = 0
                while npos < ln and choice[npos] == "P":
                    npos += 1
                if "P" in choice[npos:]:
                    continue
                n += 1
                fmt, ser = combos[n % 3]
                out.append(dict(params=params, ret=None, validate=(n % 4 != 0), fmt=fmt, ser=ser,
                                args=[J(str(5 + i)) for i in range(npos)],
                                kwargs=[[names[i], J(str(5 + i))] for i in range(npos, ln) if choice[i] == "K"],
                                **{"async": n % 2 == 0}))
    return out


def edge_cases():
    """every (annotation, edge value of that annotation) of EDGE, sent positionally and by keyword, alone and behind an
    un-annotated parameter, to an in-scope signature with parsing on (one in eight with parsing off: then it must arrive
    as sent whatever it is); formatter / serializer / sync-async rotate"""
    combos = [("proxy", "json"), ("json", "json"), ("proxy", "pickle")]
    out, n = [], 0
    for ann in sorted(EDGE):
        for v in EDGE[ann]:
            for how in ("pos", "kw"):
                n += 1
                fmt, ser = combos[n % 3]
                lead = n % 5 == 0
                params = ([dict(name="a", kind="pos", ann=None, default=False, dep=None)] if lead else []) + \
                    [dict(name="b", kind="pos" if how == "pos" or n % 2 else "kw", ann=ann, default=n % 7 == 0, dep=None)]
                args = ([J("lead")] if lead else []) + ([J(v)] if how == "pos" else [])
                out.append(dict(params=params, ret=None, validate=(n % 8 != 0), fmt=fmt, ser=ser, args=args,
                                kwargs=[["b", J(v)]] if how == "kw" else [], **{"async": n % 2 == 0}))
    return out


# --------------------------------------------------------------------------- groups over same-named types
# One case = a SEQUENCE of calls in one driver process whose signatures are annotated with distinct classes that share a
# name (and module / qualname / repr / str): enums, create_model / class-factory models, make_dataclass / class-factory
# dataclasses, NewType, TypedDict, NamedTuple - bare or inside List / Optional / Dict - with different members / fields
# (sometimes identical ones: then only the class of the received instance tells them apart).  The values are ones the
# twins convert differently, or only one of them converts.  The property speaks about each call: every step is judged on
# its own (oracle, model) against pydantic applied directly to the step's own class.
TW_KINDS = ["enum_str", "enum_int", "enum_plain", "model", "model_factory", "dc", "dc_factory", "newtype", "typeddict",
            "namedtuple"]
TW_NAMES = {"enum": ["Status", "Kind", "Level"], "model": ["Payload", "Item"], "dc": ["Rec", "Point"],
            "newtype": ["Ident", "Amount"], "typeddict": ["Opts"], "namedtuple": ["Pt", "Row"]}
TW_MODULES = ["app.models", "orders", "payments", "params_driver"]
TW_WRAPS = ["%s", "List[%s]", "Optional[%s]", "Dict[str,%s]"]
FIELD_T = ["int", "str", "float", "bool", "List[int]", "Optional[int]"]
FIELD_RAW = {"int": [1, 7, "12", -3, "5", 0], "str": ["ab", "", "5", "new", "1.5"], "float": [1.5, "2.5", 3, "7"],
             "bool": [True, "yes", 0, "false"], "List[int]": [[1, "2"], [], ["7"]], "Optional[int]": [None, 4, "6"]}
FIELD_DEFAULT = {"int": [0, 7], "str": ["", "q"], "float": [0.0, 1.5], "bool": [False, True], "Optional[int]": [None, 3]}


def gen_fields(r, defaults):
    names = r.sample(["ref", "x", "note", "n", "amount"], r.choice([1, 2, 2, 3]))
    fs = [[n, r.choice(FIELD_T)] for n in names]
    if defaults:                           # required fields first (dataclass rule), defaults on a suffix
        k = r.randint(1 if r.random() < .8 else 0, len(fs))
        for f in fs[k:]:
            if f[1] in FIELD_DEFAULT:
                f.append(r.choice(FIELD_DEFAULT[f[1]]))
            else:
                f[1] = "int"
                f.append(0)
    return fs


def gen_twin_spec(r, kind, name, module):
    if kind.startswith("enum"):
        mixin = {"enum_str": "str", "enum_int": "int", "enum_plain": None}[kind]
        pool = {"str": ["new", "shipped", "failed", "done", "open", "5"], "int": [1, 2, 3, 4, 5],
                None: [1, 2, "new", "b", "1", 3]}[mixin]
        n = r.choice([2, 2, 3])
        return dict(k="enum", name=name, module=module, mixin=mixin,
                    members=[list(x) for x in zip(r.sample(["NEW", "DONE", "FAILED", "OPEN", "X"], n), r.sample(pool, n))])
    if kind in ("model", "model_factory", "dc", "dc_factory"):
        return dict(k="model" if kind.startswith("model") else "dc", name=name, module=module,
                    how="factory" if kind.endswith("factory") else "api", fields=gen_fields(r, True))
    if kind == "newtype":
        return dict(k="newtype", name=name, module=module, base=r.choice(["int", "str", "float", "bool", "List[int]"]))
    if kind == "typeddict":
        return dict(k="typeddict", name=name, module=module, fields=gen_fields(r, False), total=r.random() < .7)
    return dict(k="namedtuple", name=name, module=module, fields=gen_fields(r, False))


def raw_valid(r, spec, full=False):
    """a JSON value the type built from `spec` converts (drawn from the raw forms of its members / fields)"""
    k = spec["k"]
    if k == "enum":
        return r.choice(spec["members"])[1]
    if k == "newtype":
        return r.choice(FIELD_RAW[spec["base"]])
    if k == "namedtuple" and r.random() < .7:
        return [r.choice(FIELD_RAW[f[1]]) for f in spec["fields"]]
    return {f[0]: r.choice(FIELD_RAW[f[1]]) for f in spec["fields"] if full or len(f) == 2 or r.random() < .5}


def twin_aim(types, tn, family):
    spec = types[tn]

    def raw(r):
        k = r.random()
        if k < .45:
            return raw_valid(r, spec)
        if k < .85:
            return raw_valid(r, types[r.choice(family)])
        return gen_json(r)

    def bare(r):
        k = r.random()
        if spec["k"] in ("model", "dc") and k < .18:      # an instance of the type itself, or of its twin, as the argument
            src = tn if k < .12 else r.choice(family)
            return {spec["k"]: src, "kw": {f: J(v) for f, v in raw_valid(r, types[src], full=True).items()}}
        return J(raw(r))

    return {tn: bare,
            "List[%s]" % tn: lambda r: J([raw(r) for _ in range(r.choice([0, 1, 1, 2]))]),
            "Optional[%s]" % tn: lambda r: J(None) if r.random() < .15 else bare(r),
            "Dict[str,%s]" % tn: lambda r: J({k: raw(r) for k in r.sample(["a", "b", "k"], r.choice([0, 1, 2]))})}


def set_conf(step, conf):
    step["fmt"], step["ser"], step["validate"] = conf


def gen_group(r):
    kind = r.choice(TW_KINDS)
    base = "enum" if kind.startswith("enum") else kind.split("_")[0]
    name = r.choice(TW_NAMES[base])
    module = r.choice(TW_MODULES)
    nt = r.choice([2, 2, 2, 3])
    types = {}
    for i in range(nt):
        # class reprs carry the module (twins share it, now and then not); <enum 'Status'> does not
        m = module if r.random() < (.5 if base == "enum" else .9) else r.choice(TW_MODULES)
        if i and r.random() < .15:                      # a re-created class: same definition, another object
            types["T%d" % i] = dict(types["T%d" % r.randrange(i)], module=m)
        else:
            types["T%d" % i] = gen_twin_spec(r, kind, name, m)
    family = sorted(types)
    aimed = {}
    for tn in family:
        aimed.update(twin_aim(types, tn, family))
    order = family[:]
    r.shuffle(order)
    order += [r.choice(family) for _ in range(r.choice([0, 1, 1, 2]))]
    shared = r.random() < .5
    conf = (r.choice(["proxy", "proxy", "json"]), r.choice(["json", "json", "pickle"]), r.random() < .9)
    steps = []
    for tn in order:
        def annpick(q, tn=tn):
            k = q.random()
            if k < .5:
                return wchoice(q, [("%s", 5), ("List[%s]", 2), ("Optional[%s]", 2), ("Dict[str,%s]", 1)]) % tn
            if k < .6:
                return q.choice(TW_WRAPS) % q.choice(family)
            return wchoice(q, ANN_W)
        own = {w % tn for w in TW_WRAPS}
        for _ in range(30):                             # a step that really sends a value to a parameter annotated over tn
            st = gen_case(r, annpick, aimed)
            if any(p["ann"] in own for p, _ in sent_pairs(st)):
                break
        if shared:
            set_conf(st, conf)
        elif r.random() < .5:
            st["validate"] = True
        steps.append(st)
    g = dict(types=types, steps=steps, shared=shared)
    if shared:
        g["fmt"], g["ser"], g["validate"] = conf
    return derive_default_serializer(g)


TWIN_TABLE = {
    # kind: (spec of A, spec of B, value both convert - differently, value only A converts, value only B converts)
    "enum_str": (dict(k="enum", name="Status", module="orders", mixin="str", members=[["NEW", "new"], ["SHIPPED", "shipped"]]),
                 dict(k="enum", name="Status", module="payments", mixin="str", members=[["NEW", "new"], ["FAILED", "failed"]]),
                 "new", "shipped", "failed"),
    "enum_int": (dict(k="enum", name="Level", module="app.models", mixin="int", members=[["LO", 1], ["HI", 2]]),
                 dict(k="enum", name="Level", module="app.models", mixin="int", members=[["LO", 1], ["MID", 2], ["HI", 3]]),
                 2, "1", 3),
    "enum_plain": (dict(k="enum", name="Kind", module="orders", mixin=None, members=[["A", 1], ["B", "b"]]),
                   dict(k="enum", name="Kind", module="orders", mixin=None, members=[["A", "b"], ["C", 2]]),
                   "b", 1, 2),
    "model": (dict(k="model", name="Payload", module="app.models", how="api", fields=[["ref", "int"], ["note", "str", ""]]),
              dict(k="model", name="Payload", module="app.models", how="api", fields=[["ref", "str"], ["amount", "float", 0.0]]),
              {"ref": "12"}, {"ref": 7, "note": "n"}, {"ref": "abc", "amount": 3}),
    "model_factory": (dict(k="model", name="Item", module="app.models", how="factory", fields=[["x", "int"]]),
                      dict(k="model", name="Item", module="app.models", how="factory", fields=[["x", "str"], ["n", "int", 7]]),
                      {"x": "5"}, {"x": 5}, {"x": "five"}),
    "dc": (dict(k="dc", name="Rec", module="params_driver", how="api", fields=[["x", "int"], ["y", "List[int]"]]),
           dict(k="dc", name="Rec", module="params_driver", how="api", fields=[["x", "str"], ["y", "List[int]"], ["z", "float", 1.0]]),
           {"x": "1", "y": ["2"]}, {"x": 1, "y": []}, {"x": "one", "y": [], "z": "2"}),
    "dc_factory": (dict(k="dc", name="Point", module="orders", how="factory", fields=[["x", "float"], ["n", "int", 0]]),
                   dict(k="dc", name="Point", module="orders", how="factory", fields=[["x", "bool"]]),
                   {"x": "1"}, {"x": "2.5", "n": "3"}, {"x": "yes"}),
    "newtype": (dict(k="newtype", name="Ident", module="app.models", base="int"),
                dict(k="newtype", name="Ident", module="app.models", base="str"),
                "5", 5, "abc"),
    "typeddict": (dict(k="typeddict", name="Opts", module="app.models", fields=[["n", "int"]], total=True),
                  dict(k="typeddict", name="Opts", module="app.models", fields=[["n", "str"], ["x", "int"]], total=False),
                  {"n": "5"}, {"n": 5}, {"n": "abc", "x": "1"}),
    "namedtuple": (dict(k="namedtuple", name="Pt", module="app.models", fields=[["x", "int"], ["n", "int"]]),
                   dict(k="namedtuple", name="Pt", module="app.models", fields=[["x", "str"], ["n", "float"]]),
                   ["1", "2"], [1, 2], ["a", "2.5"]),
}


def twin_table_cases():
    """every kind of same-named twin pair x {bare, List, Optional, Dict} x which twin is parsed first: four calls
    (first twin / value both convert, second twin / same value, second twin / its own value, first twin / its own value);
    positional / keyword, one shared receiver / one per call, formatter / serializer rotate"""
    combos = [("proxy", "json"), ("json", "json"), ("proxy", "pickle")]
    out, n = [], 0
    for kind in TW_KINDS:
        a, b, both, only_a, only_b = TWIN_TABLE[kind]
        for wrap in TW_WRAPS:
            for first in (0, 1):
                n += 1
                fmt, ser = combos[n % 3]
                w = (lambda v: v) if wrap == "%s" else (lambda v: [v]) if wrap.startswith("List") else \
                    (lambda v: v) if wrap.startswith("Optional") else (lambda v: {"k": v})
                own = {"T0": only_a, "T1": only_b}
                x, y = ("T0", "T1") if first == 0 else ("T1", "T0")
                steps = []
                for i, (tn, v) in enumerate([(x, both), (y, both), (y, own[y]), (x, own[x])]):
                    kw = (n + i) % 2 == 0
                    lead = (n + i) % 3 == 0
                    params = ([dict(name="a", kind="pos", ann=None, default=False, dep=None)] if lead else []) + \
                        [dict(name="b", kind="kw" if kw and n % 4 < 2 else "pos", ann=wrap % tn, default=(n + i) % 5 == 0, dep=None)]
                    steps.append(dict(params=params, ret=None, validate=True, fmt=fmt, ser=ser,
                                      args=([J("lead")] if lead else []) + ([] if kw else [J(w(v))]),
                                      kwargs=[["b", J(w(v))]] if kw else [], **{"async": (n + i) % 2 == 0}))
                g = dict(types={"T0": a, "T1": b}, steps=steps, shared=n % 2 == 0)
                if g["shared"]:
                    g["fmt"], g["ser"], g["validate"] = fmt, ser, True
                out.append(g)
    return out


# --------------------------------------------------------------------------- groups of calls around a task registry
# One case = a SEQUENCE in one driver process around one worker broker and ONE Receiver (see the driver): several
# function definitions, registration events (on the worker broker itself / as a shared task in the process-wide global
# registry / on another, producer-side broker; explicit or derived task name; decorator or register_task), the point at
# which the worker's Receiver is constructed (before, between or after the registrations) and calls.  Functions that
# share a task name differ in annotations, parameter order, defaults / dependencies, or not at all.  The property
# speaks about "the task function": the function whose body really ran (each body logs to its own list) - every call
# is judged on its own by THAT function's signature, and that function must be one registered under the message's
# task name.  On the unchanged tree the function that runs is the broker's own latest registration of the name, else
# the latest shared one (find_task: "local task wins").
# Held out of the generated stream (observation, corpus/C08/obs_registry_*.json): a registration that CHANGES which
# function a name resolves to after the Receiver has prepared that name - the receiver keeps the signature it saw.
REG_NAMES = ["t", "lib:handle", "app.tasks:send", None]      # None: no task_name given (derived "<module>:f")
REANN_W = [(None, 30), ("Any", 10), ("int", 20), ("str", 8), ("float", 6), ("bool", 5), ("List[int]", 5), ("M1", 6),
           ("D1", 4), ("Optional[int]", 4), ("NZ", 2)]


def fix_params(params):
    """keep a varied signature a valid `def`: no required positional parameter behind a defaulted one"""
    seen = False
    for p in params:
        if p["kind"] != "pos":
            continue
        if seen:
            if p["dep"] == "annotated":
                p["dep"] = "default"
            elif p["dep"] is None:
                p["default"] = True
        seen = seen or p["default"] or p["dep"] in ("default", "context")
    return params


def fn_variant(r, base, how):
    """another function for the same task name"""
    if how == "indep":
        c = gen_case(r)
        return dict(params=c["params"], ret=c["ret"], **{"async": c["async"]})
    fd = copy.deepcopy(dict(params=base["params"], ret=base["ret"], **{"async": base["async"]}))
    if how == "same":
        return fd
    ps = fd["params"]
    if r.random() < .3:
        fd["async"] = not fd["async"]
    if how == "perm":
        pos = [p for p in ps if p["kind"] == "pos"]
        r.shuffle(pos)
        rest = [p for p in ps if p["kind"] != "pos"]
        vp = [p for p in rest if p["kind"] == "varpos"]
        fd["params"] = ps = pos + vp + [p for p in rest if p["kind"] != "varpos"]
    for p in ps:
        if p["dep"] == "context":
            continue
        if how == "redep" and p["kind"] in ("pos", "kw") and r.random() < .5:
            if p["dep"]:
                p["dep"], p["default"] = None, r.random() < .6
            else:
                p["dep"], p["default"] = "default", False
        if (how == "reann" and r.random() < .7) or (how != "reann" and r.random() < .25):
            old = p["ann"]
            for _ in range(6):
                p["ann"] = wchoice(r, REANN_W)
                if p["ann"] != old:
                    break
        if p["dep"] == "annotated" and p["ann"] is None:
            p["ann"] = "int"
    fix_params(ps)
    return fd


def vis(local, glob, name):
    return local[name] if name in local else glob.get(name)


def mixed_call(r, target, others, conf):
    """a call generated for `target`'s signature; each value is aimed at the annotation the target OR a same-named other
    function gives the parameter of that name, so that the two signatures convert it differently"""
    tmp = copy.deepcopy(dict(params=target["params"]))
    byname = {}
    for o in others:
        for p in o["params"]:
            byname.setdefault(p["name"], []).append(p["ann"])
    for p in tmp["params"]:
        if p["name"] in byname and r.random() < .5:
            p["ann"] = r.choice(byname[p["name"]])
    gen_call(r, tmp)
    st = dict(params=copy.deepcopy(target["params"]), ret=target["ret"], args=tmp["args"], kwargs=tmp["kwargs"],
              **{"async": target["async"]})
    set_conf(st, conf)
    return st


def assemble_registry(r, fns, regs, rpos, ncalls, conf, stale_ok=False):
    """events = regs[:rpos] + receiver + the remaining registrations interleaved with `ncalls` calls.  A registration
    that would change what an already prepared name resolves to is dropped unless stale_ok (see the header)."""
    local, glob, anyreg = {}, {}, {}
    events, steps, nreg = [], [], 0
    stale = False

    def apply(ev):
        nonlocal nreg
        if ev["where"] == "local":
            local[ev["name"]] = ev["fn"]
        elif ev["where"] == "shared":
            glob[ev["name"]] = ev["fn"]
        anyreg.setdefault(ev["name"], []).append((nreg, ev))
        nreg += 1
        events.append(ev)

    for ev in regs[:rpos]:
        apply(ev)
    events.append({"ev": "receiver"})
    known = set(local) | set(glob)
    pending = list(regs[rpos:])
    left = ncalls
    while pending or left:
        if pending and (not left or r.random() < .5):
            ev = pending.pop(0)
            if ev["where"] != "other" and ev["name"] in known:
                old = vis(local, glob, ev["name"])
                new = ev["fn"] if ev["where"] == "local" or ev["name"] not in local else old
                if new != old:
                    if not stale_ok:
                        continue
                    stale = True
            apply(ev)
            continue
        names = sorted({n for n in list(local) + list(glob)}, key=str)
        if not names:
            if not pending:
                break
            apply(pending.pop(0))
            continue
        n = r.choice(names)
        target = vis(local, glob, n)
        cands = sorted({x for x in (local.get(n), glob.get(n)) if x is not None})
        same_named = sorted({e["fn"] for _, e in anyreg[n]})
        via = r.choice(anyreg[n])[0]
        st = mixed_call(r, fns[target], [fns[i] for i in same_named if i != target], conf)
        st.update(name=n, via=via, target=target, candidates=cands, same_named=same_named)
        events.append({"ev": "call", "step": len(steps)})
        steps.append(st)
        known.add(n)
        left -= 1
    g = dict(fns=fns, events=events, steps=steps)
    g["fmt"], g["ser"], g["validate"] = conf
    return g, stale


def gen_registry_group(r, stale_ok=False):
    for _ in range(50):
        conf = (r.choice(["proxy", "proxy", "json"]), r.choice(["json", "json", "pickle"]), r.random() < .9)
        names = r.sample(REG_NAMES, r.choice([1, 1, 2, 2, 3]))
        fns, regs = [], []
        for n in names:
            c = gen_case(r)
            base = dict(params=c["params"], ret=c["ret"], **{"async": c["async"]})
            fam = [base] + [fn_variant(r, base, wchoice(r, [("reann", 5), ("perm", 2), ("redep", 2), ("indep", 1), ("same", 1)]))
                            for _ in range(r.choice([0, 1, 1, 1, 2]))]
            first = len(fns)
            fns += fam
            places = [wchoice(r, [("local", 45), ("shared", 35), ("other", 20)]) for _ in fam]
            if all(w == "other" for w in places):
                places[0] = r.choice(["local", "shared"])
            if len(fam) >= 2 and r.random() < .5:          # the override: one shared, one on the broker itself
                places[0], places[1] = r.sample(["local", "shared"], 2)
            for k, w in enumerate(places):
                regs.append(dict(ev="reg", fn=first + k, where=w, name=n, how=r.choice(["register", "decorator"])))
                # the same function registered a second time elsewhere (explicit names only: registering renames the
                # function to f__taskiq_original, so a second derived name would be another one)
                if n is not None and r.random() < .15:
                    regs.append(dict(ev="reg", fn=first + k, where=r.choice(["local", "shared", "other"]), name=n,
                                     how=r.choice(["register", "decorator"])))
        r.shuffle(regs)
        k = r.random()
        rpos = len(regs) if k < .6 else 0 if k < .75 else r.randint(0, len(regs))
        g, stale = assemble_registry(r, fns, regs, rpos, r.choice([2, 3, 3, 4, 5]), conf, stale_ok)
        if g["steps"] and (stale or not stale_ok):
            if stale:
                g["observation"] = True
            return derive_default_serializer(g)
    raise RuntimeError("no registry group generated")


def P(name, kind="pos", ann=None, default=False, dep=None):
    return dict(name=name, kind=kind, ann=ann, default=default, dep=dep)


REG_PAIRS = [
    # (function A, function B, positional values, keyword values): A and B convert / fill the same call differently
    ([P("a", ann="int"), P("b", ann="M1")], [P("a"), P("b", ann="Any")], ["5", {"x": "3"}], {}),
    ([P("a"), P("b", ann="Any", default=True)], [P("a", ann="int"), P("b", ann="M1", default=True)], ["5"], {"b": {"x": "3", "y": "z"}}),
    ([P("a", ann="int"), P("b", ann="str")], [P("b", ann="str"), P("a", ann="int")], ["7", "8"], {}),
    ([P("a", ann="List[int]"), P("d", "kw", dep="default")], [P("a", ann="str"), P("d", "kw", default=True)], [["1", "2"]], {}),
    ([P("a", ann="float"), P("c", "kw", ann="bool", default=True)], [P("a", ann="str"), P("c", "kw", default=True)], ["1.5"], {"c": "yes"}),
]
REG_LAYOUTS = [
    # registrations (function, where) in order; the LAST local one, else the last shared one, is what the name resolves to
    [("A", "shared"), ("B", "local")], [("B", "local"), ("A", "shared")], [("A", "local"), ("B", "local")],
    [("A", "shared"), ("B", "shared")], [("B", "local"), ("A", "other")], [("B", "shared"), ("A", "other")],
    [("B", "shared")], [("A", "shared"), ("B", "local"), ("A", "other")],
]


def registry_table_cases():
    """every pair of REG_PAIRS x every layout of REG_LAYOUTS, in both roles (A/B swapped): receiver constructed after all
    registrations (one in five before them, as InMemoryBroker does), one more task of another name on the broker, two
    calls through different task objects of the name"""
    combos = [("proxy", "json"), ("json", "json"), ("proxy", "pickle")]
    out, n = [], 0
    for pa, pb, args, kw in REG_PAIRS:
        for lay in REG_LAYOUTS:
            for swap in (False, True):
                n += 1
                fmt, ser = combos[n % 3]
                conf = (fmt, ser, n % 11 != 0)
                fa = dict(params=copy.deepcopy(pb if swap else pa), ret=None, **{"async": n % 2 == 0})
                fb = dict(params=copy.deepcopy(pa if swap else pb), ret=None, **{"async": n % 3 != 0})
                ctl = dict(params=[P("a", ann="int"), P("k", "kw", default=True)], ret=None, **{"async": True})
                fns = [fa, fb, ctl]
                name = REG_NAMES[n % len(REG_NAMES)]
                if name is None and len({f for f, _ in lay}) < len(lay):
                    name = "t"          # a function registered twice gets two different derived names (see gen_registry_group)
                regs = [dict(ev="reg", fn=0 if f == "A" else 1, where=w, name=name, how=["register", "decorator"][(n + i) % 2])
                        for i, (f, w) in enumerate(lay)]
                regs.insert(n % (len(regs) + 1), dict(ev="reg", fn=2, where="local", name="control", how="decorator"))
                events = regs + [{"ev": "receiver"}] if n % 5 else [{"ev": "receiver"}] + regs
                local, glob = {}, {}
                for e in regs:
                    if e["where"] != "other":
                        (local if e["where"] == "local" else glob)[e["name"]] = e["fn"]
                target = vis(local, glob, name)
                idx = [i for i, e in enumerate(regs) if e["name"] == name]
                steps = []
                for j in range(2):
                    st = dict(params=copy.deepcopy(fns[target]["params"]), ret=None, args=[J(v) for v in args],
                              kwargs=[[k, J(v)] for k, v in kw.items()], name=name, via=idx[(n + j) % len(idx)], target=target,
                              candidates=sorted({x for x in (local.get(name), glob.get(name)) if x is not None}),
                              same_named=sorted({regs[i]["fn"] for i in idx}), **{"async": fns[target]["async"]})
                    set_conf(st, conf)
                    steps.append(st)
                    events.append({"ev": "call", "step": j})
                ci = [i for i, e in enumerate(regs) if e["name"] == "control"][0]
                st = dict(params=copy.deepcopy(ctl["params"]), ret=None, args=[J("12")], kwargs=[["k", J("34")]], name="control",
                          via=ci, target=2, candidates=[2], same_named=[2], **{"async": True})
                set_conf(st, conf)
                steps.append(st)
                events.append({"ev": "call", "step": 2})
                g = dict(fns=fns, events=events, steps=steps)
                g["fmt"], g["ser"], g["validate"] = conf
                out.append(g)
    return out


# --------------------------------------------------------------------------- groups of calls along a broker's life cycle
# One case = a SEQUENCE in one driver process on ONE InMemoryBroker object (see the driver): the constructor options
# (cast_types = `validate`, await_inplace, propagate_exceptions, max_async_tasks, sync_tasks_pool_size,
# max_stored_results), formatter / serializer, then registrations, startup() / shutdown() events and calls in any order:
# calls on a broker that was never started, started twice, shut down and started again (once or several times), shut
# down and used without another startup; tasks registered before the first start, between two cycles or after a
# shutdown; the same task called before and after a restart.  The property quantifies over configurations: with
# cast_types False EVERY message arrives exactly as sent, with cast_types True every message is converted by the
# annotations - whatever the object went through before the message.  Each call is judged on its own by the unchanged
# oracle / model with validate = the cast_types the broker was constructed with.
# Kept to what the unchanged tree supports: InMemoryBroker.shutdown() closes the thread pool for good, so a SYNC task
# function cannot run after the first shutdown (RuntimeError: cannot schedule new futures after shutdown - the life
# cycle of the pool is not this property); functions called after a shutdown are `async def` (sync ones only before).
LIFE_PRE = [[], [], ["startup"], ["startup"], ["startup", "shutdown", "startup"], ["shutdown", "startup"], ["shutdown"],
            ["startup", "shutdown"], ["startup", "shutdown", "startup", "shutdown", "startup"], ["startup", "startup"]]
LIFE_MID = [["shutdown", "startup"], ["shutdown", "startup"], ["shutdown", "startup"], ["shutdown"], ["startup"],
            ["shutdown", "shutdown", "startup"], ["shutdown", "startup", "shutdown", "startup"]]


def gen_broker_opts(r):
    return dict(await_inplace=r.random() < .5, propagate_exceptions=r.random() < .7, max_async_tasks=r.choice([30, 30, 1, 0]),
                sync_tasks_pool_size=r.choice([4, 1, 2]), max_stored_results=r.choice([100, 100, -1, 1, 3]))


def assemble_life(r, steps, pre, mids, tail, regmode, hows):
    """events: `pre`, then the calls with `mids[j]` in front of call j (j >= 1), then `tail`; the function of a step is
    registered up front / right before its first call / at a random earlier point, according to regmode"""
    life = [{"ev": e} for e in pre]
    owners = [j for j, st in enumerate(steps) if st.get("task", j) == j]
    if regmode == "upfront":
        at = r.randint(0, len(life))
        life[at:at] = [{"ev": "reg", "step": j, "how": hows[j]} for j in owners]
    for j, st in enumerate(steps):
        if j:
            life += [{"ev": e} for e in mids[j]]
        if j in owners and regmode != "upfront":
            ev = {"ev": "reg", "step": j, "how": hows[j]}
            if regmode == "lazy":
                life.append(ev)
            else:
                life.insert(r.randint(0, len(life)), ev)
        life.append({"ev": "call", "step": j})
    return life + [{"ev": e} for e in tail]


def shutdowns_before_calls(life):
    n, out = 0, {}
    for e in life:
        if e["ev"] == "shutdown":
            n += 1
        elif e["ev"] == "call":
            out[e["step"]] = n
    return out


def gen_lifecycle_group(r, annpick=None, aimed=None):
    conf = (r.choice(["proxy", "proxy", "json"]), r.choice(["json", "json", "pickle"]), r.random() < .5)
    n = r.choice([2, 3, 3, 4, 5])
    pre = r.choice(LIFE_PRE)
    mids = [None] + [r.choice(LIFE_MID) if r.random() < .6 else [] for _ in range(n - 1)]
    if r.random() < .85 and not any("shutdown" in m for m in [pre] + mids[1:]):
        mids[r.randrange(1, n)] = ["shutdown", "startup"]           # most groups do restart
    tail = r.choice([[], [], ["shutdown"]])
    steps = []
    for j in range(n):
        if j and r.random() < .35:                                  # the same task again (new values)
            i = r.randrange(j)
            i = steps[i].get("task", i)
            st = copy.deepcopy(dict(params=steps[i]["params"], ret=steps[i]["ret"]))
            gen_call(r, st, aimed)
            st["async"], st["task"] = steps[i]["async"], i
        else:
            st = gen_case(r, annpick, aimed)
        set_conf(st, conf)
        steps.append(st)
    life = assemble_life(r, steps, pre, mids, tail, r.choice(["upfront", "upfront", "lazy", "mixed"]),
                         [r.choice(["register", "decorator"]) for _ in steps])
    for j, k in shutdowns_before_calls(life).items():               # see the header: sync functions only before a shutdown
        if k:
            steps[steps[j].get("task", j)]["async"] = True
    for st in steps:
        st["async"] = steps[st["task"]]["async"] if "task" in st else st["async"]
    g = dict(broker=gen_broker_opts(r), life=life, steps=steps)
    g["fmt"], g["ser"], g["validate"] = conf
    return derive_default_serializer(g)


LIFE_FN = [P("a", ann="int"), P("b"), P("p", ann="M1"), P("d", ann="D1"), P("f", "kw", ann="float", default=True),
           P("flag", "kw", ann="bool", default=True), P("anything", "kw", ann="Any", default=True)]
LIFE_TABLE_PRE = [[], ["startup"], ["startup", "shutdown", "startup"], ["shutdown"]]
LIFE_TABLE_MID = [["shutdown", "startup"], ["shutdown"], ["startup", "shutdown", "startup"]]


def lifecycle_table_cases():
    """cast_types off / on x what happened before the first send x what happens between the sends (await_inplace and the
    other constructor options rotate): one function with annotated / un-annotated / model / dataclass / keyword-only parameters, three calls of one task (the
    convertible strings and dict forms; model and dataclass instances; by keyword) + one of a task registered last"""
    combos = [("proxy", "json"), ("json", "json"), ("proxy", "pickle")]
    out, n = [], 0
    for validate in (False, True):
        for pre in LIFE_TABLE_PRE:
            for mid in LIFE_TABLE_MID:
                n += 1
                inplace = n % 2 == 0
                fmt, ser = combos[n % 3]
                conf = (fmt, ser, validate)
                calls = [([J("7"), J("7"), J({"x": "1"}), J({"x": "3", "y": ["4"]})],
                          [["f", J("2.5")], ["flag", J("true")], ["anything", J({"k": [1, "2", None]})]]),
                         ([J("8"), J(8), {"model": "M1", "kw": {"x": J(1)}}, {"dc": "D1", "kw": {"x": J(3)}}], [["flag", J("no")]]),
                         ([J("9")], [["d", J({"x": "5"})], ["p", J({"x": "2", "y": "z"})], ["b", J("9")], ["f", J("1e3")]]),
                         ([J("10"), J("x"), J({"x": "6"}), J({"x": "7"})], [["f", J("0.5")]])]
                steps = []
                for j, (args, kw) in enumerate(calls):
                    # all `async def`: every function of the table is called after a shutdown (see the header)
                    st = dict(params=copy.deepcopy(LIFE_FN), ret=None, args=args, kwargs=kw, **{"async": True})
                    if j in (1, 2):
                        st["task"] = 0
                    set_conf(st, conf)
                    steps.append(st)
                life = [{"ev": e} for e in pre]
                life.insert(n % (len(life) + 1), {"ev": "reg", "step": 0, "how": ["register", "decorator"][n // 2 % 2]})
                life.append({"ev": "call", "step": 0})
                life += [{"ev": e} for e in mid] + [{"ev": "call", "step": 1}]
                life += [{"ev": e} for e in LIFE_TABLE_MID[(n + 1) % 3]] + [{"ev": "call", "step": 2}]
                life += [{"ev": "reg", "step": 3, "how": "decorator"}, {"ev": "call", "step": 3}, {"ev": "shutdown"}]
                g = dict(broker=dict(await_inplace=inplace, propagate_exceptions=n % 3 != 0, max_async_tasks=[30, 1, 0][n % 3],
                                     sync_tasks_pool_size=[4, 1][n // 3 % 2], max_stored_results=[100, -1, 2][n % 3]),
                         life=life, steps=steps)
                g["fmt"], g["ser"], g["validate"] = conf
                out.append(g)
    return out


# --------------------------------------------------------------------------- groups of calls with redelivery / re-sends
# One case = a SEQUENCE in one driver process (see the driver): sends, REDELIVERIES of a wire message that was already
# delivered (at-least-once brokers redeliver un-acked messages: the receiver decodes the very same bytes again) and
# re-sends of a call under a fixed custom task id (an idempotency key; same id + same arguments = the same bytes), on one
# worker Receiver, a Receiver per delivery, or one started InMemoryBroker.  Most task functions of these groups work on
# their arguments IN PLACE (pop / append / clear / reverse / sort / item assignment, all the way down, attributes of
# models and dataclasses) after recording what arrived: the values are the function's own, decoded for this execution.
# The property speaks about every invocation: each delivery is judged on its own by the unchanged oracle / model - what
# an earlier execution did to ITS arguments must not be what a later delivery receives - and the round-trip clause is
# judged on every decode (one before and one after each execution).
RD_ANN_W = [(None, 40), ("Any", 18), ("X", 3), ("List[int]", 6), ("Dict[str,int]", 5), ("M1", 5), ("M2", 3), ("D1", 4), ("int", 6),
            ("str", 3), ("Optional[int]", 3), ("List[M1]", 2), ("Union[int,str]", 2)]
RD_IDS = ["sync-user-42", "job-1", "order:7/retry", ""]
RD_HOW = ["same_object", "same_object", "equal_copy", "ackable", "ackable_copy"]


def gen_container(r, depth=0):
    k = r.random()
    if depth >= 3 or k < (.0 if depth == 0 else .35):
        return gen_json(r, 2)
    if k < .7:
        return [gen_container(r, depth + 1) for _ in range(r.choice([0, 1, 2, 2, 3, 4]))]
    return {key: gen_container(r, depth + 1) for key in r.sample(["a", "b", "k", "rows", "attempts", "", "\u00fc"], r.choice([0, 1, 2, 2, 3]))}


RD_AIMED = {None: lambda r: J(gen_container(r)), "Any": lambda r: J(gen_container(r)), "X": lambda r: J(gen_container(r))}


def rd_annpick(q):
    return wchoice(q, RD_ANN_W)


def gen_redelivery_group(r, annpick=rd_annpick, aimed=RD_AIMED):
    conf = (r.choice(["proxy", "proxy", "json"]), r.choice(["json", "json", "json", "pickle"]), r.random() < .65)
    inmem = r.random() < .35
    rd = dict(path="inmemory" if inmem else "receiver", receiver=r.choice(["shared", "shared", "fresh"]),
              broker=gen_broker_opts(r) if inmem else None)
    chains, nid = [], 0
    for _ in range(r.choice([1, 1, 2, 2, 3])):
        owners = [ch[0] for ch in chains if "task" not in ch[0]]
        if owners and r.random() < .3:                                 # the same task again, other arguments
            o = r.choice(owners)
            st = copy.deepcopy(dict(params=o["params"], ret=o["ret"]))
            gen_call(r, st, aimed)
            while has_type(st):
                gen_call(r, st, aimed)
            st.update({"async": o["async"], "task": o["_id"], "mutate": o.get("mutate")})
        else:
            st = gen_case(r, annpick, aimed)
            while has_type(st):
                st = gen_case(r, annpick, aimed)
            st["mutate"] = r.choice(MUTATIONS) if r.random() < .85 else None
        set_conf(st, conf)
        if r.random() < .45:
            st["task_id"] = r.choice(RD_IDS)
        st["_id"] = nid
        nid += 1
        chain = [st]
        chains.append(chain)
        owner, sends = st.get("task", st["_id"]), [st]
        for _ in range(r.choice([1, 1, 2])):
            if "task_id" in st and r.random() < .5:                    # sent again under the same task id
                f = copy.deepcopy(st)
                if r.random() < .3:
                    f["kicker"] = st["_id"]                            # through the very kicker object of the first send
                if r.random() < .25:                                   # ... with other arguments
                    gen_call(r, f, aimed)
                    while has_type(f):
                        gen_call(r, f, aimed)
            else:                                                      # the broker delivers a message once more
                src = r.choice(sends)
                f = copy.deepcopy(src)
                f.pop("kicker", None), f.pop("task_id", None)
                f["again"] = src["_id"]
                f["how"] = r.choice(RD_HOW[:3] if inmem else RD_HOW)
            f["task"], f["_id"] = owner, nid
            nid += 1
            chain.append(f)
            if "again" not in f:
                sends.append(f)
    # the chains interleaved (each keeps its own order; a chain starts after the one before it has started)
    order, at, cur = [], [0] * len(chains), 0
    while any(at[k] < len(ch) for k, ch in enumerate(chains)):
        ok = [k for k, ch in enumerate(chains) if at[k] < len(ch) and (k == 0 or at[k - 1] > 0)]
        cur = cur if cur in ok and r.random() < .55 else r.choice(ok)
        order.append(chains[cur][at[cur]])
        at[cur] += 1
    pos = {x["_id"]: i for i, x in enumerate(order)}
    steps = []
    for x in order:
        x = dict(x)
        del x["_id"]
        for k in ("task", "again", "kicker"):
            if k in x:
                x[k] = pos[x[k]]
        if x.get("mutate") is None:
            x.pop("mutate", None)
        steps.append(x)
    g = dict(redelivery=rd, steps=steps)
    g["fmt"], g["ser"], g["validate"] = conf
    return derive_default_serializer(g)


RD_FNS = [
    # the shapes of real handlers that consume their input: (parameters, positional values, keyword values)
    ([P("items"), P("opts", default=True), P("tag", "kw", ann="Any", default=True)],
     [[1, 2, 3]], {"opts": {"k": 1}, "tag": ["t"]}),
    ([P("payload"), P("flags", ann="Any", default=True)], [{"rows": [3, 1, 2], "name": "x"}, ["a", "b"]], {}),
    ([P("a", ann="int"), P("rows", ann="List[int]"), P("m", ann="M1"), P("extra", "kw", default=True)],
     ["7", ["3", "1"], {"x": "1"}], {"extra": {"deep": {"l": [1, [2, {"z": []}]]}, "n": [None, 1.5, "s"]}}),
]
RD_PLACES = [("receiver", "shared", None), ("receiver", "fresh", None), ("inmemory", "shared", True), ("inmemory", "shared", False)]
RD_PATTERNS = [
    [("again", "same_object"), ("again", "same_object")], [("again", "equal_copy"), ("again", "ackable")],
    [("resend", None), ("resend", "kicker")], [("resend", None), ("again", "same_object")],
]


def redelivery_table_cases():
    """every handler of RD_FNS x where it runs (one worker Receiver / a Receiver per delivery / InMemoryBroker in place /
    InMemoryBroker background task) x how the second and third delivery come about (the same bytes redelivered; an equal
    copy, an AckableMessage; re-sent under the same custom task id, also through the same kicker object; re-sent and
    then redelivered): three deliveries of one call; ways of changing the arguments, parsing on / off (2:1), sync /
    async and formatter / serializer rotate"""
    combos = [("proxy", "json"), ("json", "json"), ("proxy", "pickle"), ("proxy", "json")]
    out, n = [], 0
    for params, args, kw in RD_FNS:
        for path, recv, inplace in RD_PLACES:
            for pat in RD_PATTERNS:
                n += 1
                fmt, ser = combos[n % 4]
                conf = (fmt, ser, n % 3 != 0)
                base = dict(params=copy.deepcopy(params), ret=None, args=[J(v) for v in args],
                            kwargs=[[k, J(v)] for k, v in kw.items()], mutate=MUTATIONS[n % len(MUTATIONS)], **{"async": n % 2 == 0})
                set_conf(base, conf)
                if any(k == "resend" for k, _ in pat):
                    base["task_id"] = RD_IDS[n % 3]
                steps = [base]
                for k, how in pat:
                    f = copy.deepcopy(base)
                    f["task"] = 0
                    if k == "again":
                        f.pop("task_id", None)
                        f["again"] = max(i for i, x in enumerate(steps) if "again" not in x)
                        f["how"] = how if path == "receiver" or how != "ackable" else "equal_copy"
                    elif how == "kicker":
                        f["kicker"] = 0
                    steps.append(f)
                g = dict(redelivery=dict(path=path, receiver=recv,
                                         broker=dict(await_inplace=inplace, propagate_exceptions=n % 2 == 0, max_async_tasks=[30, 1][n % 2],
                                                     sync_tasks_pool_size=[4, 1][n % 2], max_stored_results=100) if path == "inmemory" else None),
                         steps=steps)
                g["fmt"], g["ser"], g["validate"] = conf
                out.append(g)
    return out


# --------------------------------------------------------------------------- text: what a str may contain x the broker's own defaults
# "JSON-representable values" includes every str Python's json module writes and reads back: ordinary non-ASCII text,
# characters outside the BMP, NUL / control characters, BOM / non-characters / line separators, text that looks like an
# escape sequence, very long strings - and strings with a LONE UTF-16 surrogate (U+D800..U+DFFF): json.loads('"\\ud83d"')
# yields one (an emoji cut in half by a client that truncates to N UTF-16 units), os.fsdecode() / surrogateescape yield
# them for undecodable file names; json.dumps escapes them, so they travel.  Measured on the unchanged tree, a str with a
# lone surrogate round-trips as a VALUE (argument, list item, dict value, dataclass field) through ProxyFormatter with
# the JSON serializer (the broker's default or a hand-built one) and with pickle; it is refused loudly
# (UnicodeEncodeError from pydantic's JSON writer, nothing sent) as a dict KEY and anywhere under JSONFormatter - those
# combinations stay out (cf. D9 / C19).  A high surrogate directly followed by a low one is not generated either:
# Python's json joins the two escapes into one non-BMP character (json.loads(json.dumps(s)) != s for such an s, whatever
# taskiq does).  Everything else round-trips under every formatter / serializer and is sent under all of them.
# The cases are ordinary calls (same oracle, same model); what varies is the text inside the values (bare, nested in
# lists / dict values, dict keys, model / dataclass fields, keyword names of **kwargs, non-ASCII parameter names) and
# whether the broker's serializer / formatter are the ones ITS OWN CONSTRUCTOR chose or objects built by the driver.
TEXT = {
    "lone_surrogate": ["caf\xe9 \ud83d", "\ude00 tail", "r\udce9sum\udce9.txt", "\udc00\ud800", "\ud800", "a\udfffb",
                       "\udbff", "\U0001f600\ud83d", "x\udc80\x00"],
    "non_bmp": ["\U0001f600", "\U00010000", "\U0010ffff", "a\U0001f468\u200d\U0001f469\u200d\U0001f467z", "\U000e0001 tag",
                "\U0001d11e\U0001d11e"],
    "bmp_non_ascii": ["\xe9\xff", "\u0416\u0438\u0437\u043d\u044c", "\u65e5\u672c\u8a9e", "\u0627\u0644\u0639", "e\u0301",
                      "\ufb01n", "\xdf\u0130\u0131", "\u2603 na\xefve"],
    "control": ["a\x00b", "\x00", "\x01\x1f", "\x7f\x80\x9f", "tab\there\r\n", "\x1b[31mred", "\x08\x0c"],
    "special_bmp": ["\ufeffbom", "\ufffe\uffff", "\ufffd?", "\u2028\u2029", "\u200b\u200e", "\u202eabc", "\ud7ff\ue000",
                    "\ufdd0"],
    "escape_lookalike": ["\\ud83d", "\\u0000", "\\\\", "\"}", "%s %d {0}", "\\x00", "?", "\\", "&#128512;", "=?utf-8?b?w6k=?="],
    "long": ["x" * 70000, "\xe9" * 9000, "\U0001f600" * 4000, "ab\ud83d" * 2500, ("0123456789" * 7 + "\n") * 300],
}
TEXT_W = [("lone_surrogate", 34), ("non_bmp", 14), ("bmp_non_ascii", 12), ("control", 14), ("special_bmp", 12),
          ("escape_lookalike", 11), ("long", 3)]
TEXT_PLAIN = ["plain", "", "na\xefve \u2603 \U0001f600 text", "5"]
# parameter names: valid identifiers that are their own NFKC form (the compiler normalises identifiers)
TEXT_PARAM_NAMES = ["\xe9", "\u65e5\u672c", "\u043a\u043b\u044e\u0447", "na\xefve", "gr\xf6\xdfe"]
# keyword names only a **kwargs parameter can take
TEXT_KW_NAMES = ["\xfc-key", "\U0001f600", "a b", "", "\x00", "caf\xe9", "\u2028", "x" * 300]
TEXT_ANN_W = [(None, 32), ("Any", 15), ("str", 16), ("X", 3), ("Union[int,str]", 5), ("List[str]", 5), ("Dict[str,str]", 4),
              ("Dict[str,int]", 3), ("M1", 4), ("D2", 4), ("int", 3), ("bool", 1), ("float", 1), ("Optional[int]", 2),
              ("NZ", 1), ("List[int]", 1)]


def has_surrogate(x):
    """a lone-surrogate code point anywhere in a str of `x` (a str, a value spec, a list / dict of them, keys included)"""
    if isinstance(x, str):
        return any("\ud800" <= ch <= "\udfff" for ch in x)
    if isinstance(x, dict):
        return any(has_surrogate(k) or has_surrogate(v) for k, v in x.items())
    if isinstance(x, (list, tuple)):
        return any(has_surrogate(v) for v in x)
    return False


def text_kind(s):
    """coarse kind of a str for the evidence distribution (None: plain printable ASCII of ordinary length)"""
    if has_surrogate(s):
        return "lone_surrogate" + ("(long)" if len(s) > 1000 else "")
    if len(s) > 1000:
        return "long(%s)" % ("ascii" if s.isascii() else "non_ascii")
    if any(ch > "\uffff" for ch in s):
        return "non_bmp"
    if any(ch < " " or "\x7f" <= ch <= "\x9f" for ch in s):
        return "nul" if "\x00" in s else "control"
    if not s.isascii():
        return "bmp_non_ascii"
    return None


def text_specimen(r, surrogates=True):
    for _ in range(50):
        kind = wchoice(r, TEXT_W)
        s = r.choice(TEXT[kind])
        if surrogates or not has_surrogate(s):
            return s
    return "\xe9"


def text_shape(r, s):
    """a JSON value around the specimen `s`: bare, or nested in lists / dict values; as a dict key when the unchanged tree
    carries it there (no lone surrogate)"""
    k = r.random()
    if k < .34:
        return s
    if k < .46:
        return [s, r.choice(TEXT_PLAIN)][:r.choice([1, 2, 2])]
    if k < .58:
        return {r.choice(["k", "title", "\xfc"]): s}
    if k < .70:
        return {"names": [s, r.choice(TEXT_PLAIN)], "title": text_specimen(r)}
    if k < .80:
        return [[{"deep": [s, None, 1.5]}], s]
    if k < .92 and not has_surrogate(s):
        return {s: r.choice([1, "v", [s], {s: s}])}
    return [text_specimen(r) for _ in range(r.choice([2, 3]))] + [s]


def _t_any(r):
    return J(text_shape(r, text_specimen(r)))


def _t_str(r):
    return J(text_specimen(r))


def _t_m1(r):
    k = r.random()
    if k < .6:
        return J({"x": r.choice([1, "3"]), "y": text_specimen(r)})
    if k < .85:      # an instance: the driver's own reference dict form goes through pydantic's JSON writer - no surrogates
        return {"model": "M1", "kw": {"x": J(r.choice([1, 2])), "y": J(text_specimen(r, surrogates=False))}}
    return J(text_specimen(r))


def _t_d2(r):
    k = r.random()
    if k < .45:
        return J({"name": text_specimen(r)})
    if k < .9:
        return {"dc": "D2", "kw": {"name": J(text_specimen(r))}}
    return J(text_specimen(r))


TEXT_AIMED = {
    None: _t_any, "Any": _t_any, "X": _t_any, "str": _t_str, "Union[int,str]": _t_str, "int": _t_str, "bool": _t_str,
    "float": _t_str, "Optional[int]": _t_str, "NZ": _t_str,
    "List[str]": lambda r: J([text_specimen(r) for _ in range(r.choice([1, 2, 3]))]),
    "List[int]": lambda r: J([r.choice([1, "2"]), text_specimen(r)]),
    "Dict[str,str]": lambda r: J({(r.choice(["a", "k"]) if r.random() < .5 else text_specimen(r, False)): text_specimen(r)
                                  for _ in range(r.choice([1, 2]))}),
    "Dict[str,int]": lambda r: J({text_specimen(r, False): r.choice([1, "2", 3]) for _ in range(r.choice([1, 2]))}),
    "M1": _t_m1, "D2": _t_d2,
}


def text_annpick(q):
    return wchoice(q, TEXT_ANN_W)


def case_specs(c):
    """every value spec of a case or of the steps of a group, and every keyword name"""
    for st in c.get("steps", [c]):
        for sp in st["args"]:
            yield sp
        for k, sp in st["kwargs"]:
            yield k
            yield sp


def text_conf(r, c):
    """formatter x serializer for a case / group with text in it, kept to what the unchanged tree carries (see the header):
    lone surrogates only under ProxyFormatter; mostly the broker's OWN default serializer"""
    sur = any(has_surrogate(sp) for sp in case_specs(c))
    fmt = wchoice(r, [("proxy", 6), ("proxy_built", 2)] + ([] if sur else [("json", 3)]))
    ser = wchoice(r, [("default", 5), ("json", 3), ("pickle", 2)])
    c["fmt"], c["ser"] = fmt, ser
    for st in c.get("steps", []):
        st["fmt"], st["ser"] = fmt, ser
    return c


def rename_params(r, c):
    """non-ASCII parameter names (positional-or-keyword, keyword-only): they are the keys of the kwargs dict on the wire"""
    named = [p for p in c["params"] if p["kind"] in ("pos", "kw")]
    if not named:
        return
    ren = dict(zip([p["name"] for p in r.sample(named, min(len(named), r.choice([1, 1, 2])))],
                   r.sample(TEXT_PARAM_NAMES, 2)))
    for p in c["params"]:
        p["name"] = ren.get(p["name"], p["name"])
    c["kwargs"] = [[ren.get(k, k), sp] for k, sp in c["kwargs"]]


def gen_text_case(r):
    c = gen_case(r, text_annpick, TEXT_AIMED)
    if r.random() < .3:
        rename_params(r, c)
    vk = [p for p in c["params"] if p["kind"] == "varkw"]
    if vk and r.random() < .7:                          # keyword names no named parameter could have
        for n in r.sample(TEXT_KW_NAMES, r.choice([1, 2])):
            if n not in [k for k, _ in c["kwargs"]]:
                c["kwargs"].append([n, _t_any(r)])
    c["validate"] = r.random() < .7
    return text_conf(r, c)


def gen_text_lifecycle_group(r):
    """the same on ONE InMemoryBroker object constructed with its defaults (the broker of every quick start / test suite)"""
    return text_conf(r, gen_lifecycle_group(r, text_annpick, TEXT_AIMED))


def gen_text_redelivery_group(r):
    return text_conf(r, gen_redelivery_group(r, text_annpick, TEXT_AIMED))


def text_table_cases():
    """every specimen of TEXT through a handler `f(title, note: str, payload: Any = DFLT, *, tags: List[str] = DFLT,
    extra=DFLT)`: bare to the un-annotated and the str parameter (positionally / by keyword), nested in dict values and
    lists, as a dataclass field, as a dict key (where the unchanged tree carries it); two cases per specimen, rotating over
    the formatter x serializer combinations (the broker's own default serializer in every second case), parsing on / off
    (3:1), sync / async"""
    sur_confs = [("proxy", "default"), ("proxy", "json"), ("proxy_built", "default"), ("proxy", "pickle")]
    all_confs = sur_confs + [("json", "default"), ("proxy", "default"), ("json", "json"), ("proxy_built", "pickle")]
    out, n = [], 0
    for kind in sorted(TEXT):
        for s in TEXT[kind]:
            sur = has_surrogate(s)
            for variant in (0, 1):
                n += 1
                confs = sur_confs if sur else all_confs
                fmt, ser = ("proxy", "default") if variant == 0 and n % 4 < 3 else confs[n % len(confs)]
                params = [P("title"), P("note", ann="str"), P("payload", ann="Any", default=True),
                          P("tags", "kw", ann="List[str]", default=True), P("extra", "kw", default=True)]
                plain = TEXT_PLAIN[n % len(TEXT_PLAIN)]
                if kind == "long":                 # one occurrence per call: the observation carries every value several times
                    args, kw = ([J(plain), J(s)], []) if variant else ([J(s)], [["note", J(plain)]])
                elif variant == 0:
                    args = [J(s), J(s)]
                    kw = [["payload", J({"names": [s, plain], "title": s})], ["tags", J([plain, s])],
                          ["extra", {"dc": "D2", "kw": {"name": J(s)}}]]
                else:
                    args = [J([s, {"k": s}])]
                    kw = [["note", J(s)], ["extra", J({"k": [s]} if sur else {s: [s], "k": s})], ["payload", J(s)]]
                    kw = kw[n % 3:] + kw[:n % 3]
                out.append(dict(params=params, ret=None, validate=n % 4 != 0, fmt=fmt, ser=ser, args=args, kwargs=kw,
                                **{"async": n % 2 == 0}))
    return out


def text_counts(rep, c, o):
    """evidence: which kinds of text the call carried and where, under which formatter / serializer"""
    seen = set()

    def walk(x, place):
        if isinstance(x, str):
            k = text_kind(x)
            if k:
                seen.add((k, place))
        elif isinstance(x, list):
            for v in x:
                walk(v, "nested" if place == "argument" else place)
        elif isinstance(x, dict):
            for key, v in x.items():
                walk(key, "dict_key")
                walk(v, "nested" if place == "argument" else place)

    for sp in c["args"] + [x[1] for x in c["kwargs"]]:
        if "j" in sp:
            walk(sp["j"], "argument")
        elif "kw" in sp:
            for f in sp["kw"].values():
                if "j" in f:
                    walk(f["j"], "model_or_dataclass_field")
    for k, _ in c["kwargs"]:
        walk(k, "keyword_name")
    for p in c["params"]:
        if not p["name"].isascii():
            seen.add(("bmp_non_ascii", "parameter_name"))
    for k, place in sorted(seen):
        rep.count("text:%s:%s" % (k, place))
        if k.startswith("lone_surrogate") or k.startswith("long"):
            rep.count("text:%s:under:%s/%s" % (k.split("(")[0], c["fmt"], c["ser"]))
    if seen:
        rep.count("text:calls_with_special_text")
        if o.get("outcome") == "invoked":
            rep.count("text:calls_with_special_text:task_function_invoked")
    bc = o.get("broker_conf")
    if bc:
        rep.count("broker:%s:formatter=%s(%s):serializer=%s(%s)" % (
            bc[0], bc[1], "built by the driver" if c["fmt"] in ("json", "proxy_built") else "as its constructor chose",
            bc[2], "as its constructor chose" if c["ser"] == "default" else "built by the driver"))
    return bool(seen)


def is_redelivery(case):
    return "redelivery" in case


def redelivery_kind(g, st):
    if st.get("again") is not None:
        return "redelivery(%s)" % st.get("how", "same_object")
    if st.get("task_id") is None:
        return "send"
    earlier = [x for x in g["steps"][:g["steps"].index(st)] if x.get("again") is None and x.get("task_id") == st["task_id"]]
    if not earlier:
        return "send(custom task id)"
    same = any(cj([x["args"], x["kwargs"]]) == cj([st["args"], st["kwargs"]]) for x in earlier)
    return "sent_again_under_the_same_task_id(%s)%s" % ("same arguments" if same else "other arguments",
                                                         "/same_kicker_object" if st.get("kicker") is not None else "")


def redelivery_counts(rep, g, o):
    """evidence for one redelivery group; non-trivial iff some delivery's bytes were delivered before in the process and an
    earlier execution of them changed a container argument in place"""
    rd = g["redelivery"]
    rep.count("redelivery_group:cases")
    rep.count("redelivery_group:steps", len(g["steps"]))
    rep.count("redelivery_group:path:" + (rd["path"] + "/receiver_" + rd["receiver"] if rd["path"] == "receiver" else
                                          "inmemory/" + ("await_inplace" if rd["broker"]["await_inplace"] else "background_task")))
    rep.count("redelivery_group:parsing:" + ("on" if g["validate"] else "off"))
    nt = False
    for st, so in zip(g["steps"], o["steps"]):
        rep.count("redelivery_call:" + redelivery_kind(g, st))
        before = so.get("same_bytes_delivered_before")
        if before is None:
            continue
        rep.count("redelivery_call:same_bytes_delivered_before:%s" % (before if before < 3 else "3+"))
        if before and so.get("mutated_by_earlier_deliveries"):
            rep.count("redelivery_call:an_earlier_execution_of_the_same_bytes_changed_its_arguments_in_place")
            nt = True
    return nt


def is_lifecycle(case):
    return "life" in case


def lifecycle_counts(rep, g, o):
    """evidence for one life-cycle group; non-trivial iff some call is made after the broker object was shut down"""
    rep.count("lifecycle_group:cases")
    rep.count("lifecycle_group:steps", len(g["steps"]))
    rep.count("lifecycle_group:cast_types:" + ("on" if g["validate"] else "off(parsing disabled)"))
    for k in ("await_inplace", "propagate_exceptions", "max_async_tasks", "sync_tasks_pool_size", "max_stored_results"):
        rep.count("lifecycle_group:%s:%s" % (k, g["broker"][k]))
    rep.count("lifecycle_group:receiver_objects_seen_by_the_calls:%s" % o.get("receiver_objects"))
    nsh, state, first_call = 0, "never_started", {}
    nt = False
    for e in g["life"]:
        if e["ev"] == "startup":
            state = "restarted" if nsh else "started"
        elif e["ev"] == "shutdown":
            nsh += 1
            state = "shut_down(not started again)"
        elif e["ev"] == "reg":
            rep.count("lifecycle_group:task_registered:" + ("before_any_shutdown" if not nsh else "after_a_shutdown") + "/" + e["how"])
        else:
            st = g["steps"][e["step"]]
            t = st.get("task", e["step"])
            rep.count("lifecycle_call:shutdowns_before:%s" % (nsh if nsh < 3 else "3+"))
            rep.count("lifecycle_call:broker_state:" + state)
            rep.count("lifecycle_call:%s:%s" % ("parsing_on" if g["validate"] else "parsing_off",
                                                "after_a_shutdown" if nsh else "before_any_shutdown"))
            if t in first_call and first_call[t] < nsh:
                rep.count("lifecycle_call:task_already_called_before_the_last_restart")
            first_call.setdefault(t, nsh)
            nt = nt or nsh > 0
    return nt


def is_registry(case):
    return "events" in case


def eff_step(g, st, so):
    """the call as it is judged: with the signature of the function whose body ran (`judged`; the function the name
    resolves to when none ran)"""
    if not is_registry(g):
        return st
    fd = g["fns"][so.get("judged", st["target"])]
    return dict(st, params=fd["params"], ret=fd.get("ret"), **{"async": fd.get("async", True)})


def registry_counts(rep, g, o):
    """evidence for one registry group; non-trivial iff some call goes to a name under which at least two different
    function definitions were registered (anywhere) by then"""
    rep.count("registry_group:cases")
    rep.count("registry_group:steps", len(g["steps"]))
    evs = g["events"]
    ri = [i for i, e in enumerate(evs) if e["ev"] == "receiver"][0]
    regi = [i for i, e in enumerate(evs) if e["ev"] == "reg"]
    rep.count("registry_group:receiver_constructed:" + ("after_all_registrations" if all(i < ri for i in regi) else
                                                        "before_any_registration" if all(i > ri for i in regi) else
                                                        "between_registrations"))
    rep.count("registry_group:task_names:%d" % len({str(e["name"]) for e in evs if e["ev"] == "reg"}))
    for e in evs:
        if e["ev"] == "reg":
            rep.count("registry_group:registered:%s/%s/%s" % (e["where"], e["how"], "derived_name" if e["name"] is None else "explicit_name"))
    regs = [e for e in evs if e["ev"] == "reg"]
    nt = False
    for st, so in zip(g["steps"], o["steps"]):
        defs = {cj(g["fns"][i]) for i in st["same_named"]}
        places = sorted({e["where"] for e in regs if e["name"] == st["name"]})
        rep.count("registry_call:name_registered_in:" + "+".join(places) +
                  (":one_definition" if len(defs) == 1 else ":%d_different_definitions" % len(defs)))
        if len(st["candidates"]) == 2:
            rep.count("registry_call:shared_task_overridden_on_the_broker:" +
                      ("same_function" if st["candidates"][0] == st["candidates"][1] else
                       "another_definition" if len({cj(g["fns"][i]) for i in st["candidates"]}) == 2 else "twin_definition"))
        rep.count("registry_call:kiq_through:" + regs[st["via"]]["where"] + "_task" +
                  ("" if regs[st["via"]]["fn"] == st["target"] else "(of another function of that name)"))
        ran = so.get("executed", [])
        rep.count("registry_call:executed:" + ("none" if not ran else "the_documented_target(local, else shared; latest)"
                                               if ran == [st["target"]] else "another_function"))
        nt = nt or len(defs) >= 2
    return nt


def registry_oracle(st, so):
    """`the task function`: one message enters at most one function body, and that function is registered under the
    message's task name with the worker broker or as a shared task"""
    ran = so.get("executed", [])
    bad = []
    if len(ran) > 1:
        bad.append(("one message ran more than one task function", ran, [st["target"]]))
    elif ran and ran[0] not in st["candidates"]:
        bad.append(("the function that ran is not registered under the message's task name", ran, st["candidates"]))
    return bad



def is_group(case):
    return "steps" in case


def twin_anns(case):
    """annotation names of a group that are built over its own types"""
    return {w % tn for tn in case["types"] for w in TW_WRAPS}


def vkind(cv):
    """coarse kind of a canonical wire value, for the evidence distribution"""
    t = cv[0]
    if t == "float":
        f = float.fromhex(cv[1])
        return "float_integral" if f == int(f) and abs(f) < 2.0**63 else "float_fractional_or_huge"
    if t == "str":
        s = cv[1]
        if s.isascii() and s.lstrip("-").isdigit() and s == str(int(s)):
            return "str_plain_int"
        return "str_numeric_like" if any(ch.isdigit() for ch in s) else "str_other"
    return t


def in_scope(case):
    return all(p["kind"] in ("pos", "kw") for p in case["params"])


def sent_pairs(case):
    """(parameter, value spec) for the named parameters as the generator aimed them (positional prefix, keywords)"""
    named = [p for p in case["params"] if p["kind"] in ("pos", "kw")]
    byname = {p["name"]: p for p in named}
    pos = [p for p in named if p["kind"] == "pos"]
    return list(zip(pos, case["args"])) + [(byname[k], sp) for k, sp in case["kwargs"] if k in byname]


def has_type(case):
    return any("dctype" in s for s in case["args"]) or any("dctype" in s for _, s in case["kwargs"])


def nontrivial(case, obs):
    ps = case["params"]
    unann_seen = False
    for p in ps:
        a = "Context" if p["dep"] == "context" else p["ann"]
        if a in (None, "Any"):
            unann_seen = True
        elif unann_seen:
            return True
    if any(p["kind"] == "kw" or p["dep"] for p in ps):
        return True
    return any(e[2] == "swallowed" for e in obs.get("conv", []))


# --------------------------------------------------------------------------- the direct oracle (the statement, in Python)
def cj(x):
    return json.dumps(x, sort_keys=True)


def oracle(case, o):
    """list of (what, observed, expected) - literal transcription of the property statement over the observations"""
    bad = []
    if has_type(case):
        if o["kiq"] != "raised:ValueError":
            bad.append(("a dataclass type among the arguments is not refused by _prepare_arg", o["kiq"], "raised:ValueError"))
        return bad
    if o["kiq"] != "ok":
        bad.append(("kiq raised for JSON-representable / model / dataclass arguments", o["kiq"] + " " + o.get("kiq_msg", ""), "ok"))
        return bad
    df, pf = o["dict_forms"], o["prepared_forms"]
    # kicker: dict forms, everything else untouched, order kept
    if o["prepared"] != pf:
        bad.append(("_prepare_message: an argument is not (the dict form of) what was passed, or the order changed",
                    o["prepared"], pf))
        return bad
    # formatter / serializer round trip: the decoded message equals the encoded one (a model nested inside a list/dict
    # travels in its dict form, so there equality is up to that form)
    nested = pf != df
    if not o["roundtrip_rest_eq"] or (not nested and not (o["roundtrip_eq"] and o["roundtrip_canon_eq"])) or o["wire"] != df:
        bad.append(("formatter.loads(formatter.dumps(m).message) differs from m", o["wire"], df))
        return bad
    # ... on every decode: the same bytes decoded once more after the task function ran (and did what it does to ITS values)
    if "wire_after" in o and (not o["roundtrip_after_rest_eq"] or (not nested and not o["roundtrip_after_eq"]) or o["wire_after"] != df):
        bad.append(("formatter.loads(formatter.dumps(m).message) differs from m when the same bytes are decoded again after the "
                    "task function ran", o["wire_after"], df))
        return bad
    if not in_scope(case) or o["pybind"] is None:
        return bad
    exp = expected_received(case, o)
    if exp is None:
        return bad
    if o["outcome"] != "invoked":
        bad.append(("CPython accepts the call as sent but the task function was not invoked", o["outcome"] + ": " + str(o.get("exc")), exp))
        return bad
    for p in case["params"]:
        n = p["name"]
        if o["received"][n] != exp[n]:
            bad.append(("parameter receives a value other than the statement's (sent / converted when convertible / unchanged)",
                        {n: o["received"][n], "all": o["received"]}, {n: exp[n], "all": exp}))
            break
    if o.get("calls") != 1 or o.get("extra_locals"):
        bad.append(("task function invoked more than once or with extra locals", [o.get("calls"), o.get("extra_locals")], [1, []]))
    return bad


def expected_received(case, o):
    """statement: what each parameter must receive, from CPython's own binding of the sent call"""
    df = o["dict_forms"]
    kwv = dict((k, v) for k, v in df["kwargs"])
    table = {(e[0], cj(e[1])): e for e in o["conv"]}
    hints = dict((n, t) for n, t in o["hints"])
    exp = {}
    for p in case["params"]:
        n = p["name"]
        b = o["pybind"][n]
        if b[0] == "default":
            exp[n] = ["default"]
            continue
        if b[0] == "dep":
            exp[n] = ["ctx"] if p["dep"] == "context" else ["dep", n]
            continue
        if b[0] == "star":
            exp[n] = ["star", [df["args"][i] for i in b[1]]]
            continue
        if b[0] == "starstar":
            exp[n] = ["starstar", [[k, kwv[k]] for k in b[1]]]
            continue
        v = df["args"][b[1]] if b[0] == "pos" else kwv[b[1]]
        t = hints.get(n)
        if not case["validate"] or t is None or t == "Any" or v == ["none"]:
            exp[n] = v
            continue
        e = table.get((t, cj(v)))
        if e is None or e[2] == "raise":
            return None          # outside the statement (conversion neither succeeds nor fails cleanly)
        exp[n] = e[3] if e[2] == "val" else v
    return exp


# --------------------------------------------------------------------------- Coq literals
class Ids:
    def __init__(self, first):
        self.m = dict(first)

    def __call__(self, key):
        if key not in self.m:
            self.m[key] = len(self.m)
        return self.m[key]


KIND = {"pos": "KPos", "kw": "KKw", "varpos": "KVarPos", "varkw": "KVarKw"}


def literal(case, o):
    """Coq term (table, validate, sig, hints, args, kwargs, observation); None if the observation cannot be expressed"""
    vid = Ids({cj(["none"]): 0})
    tid = Ids({"Any": 0})
    nid = Ids({})
    for p in case["params"]:
        nid(p["name"])
    sg = []
    for p in case["params"]:
        dep = None
        if p["dep"]:
            dep = vid(cj(["ctx"] if p["dep"] == "context" else ["dep", p["name"]]))
        has_default = bool(p["default"]) or p["dep"] in ("default", "context")
        sg.append("(mkParam %s %s %s %s)" % (C.cn(nid(p["name"])), KIND[p["kind"]], C.cb(has_default), C.copt(dep, C.cn)))
    hints = [C.cpair(C.cn(nid(n)), C.cn(tid(t))) for n, t in o["hints"]]
    args = [C.cn(vid(cj(v))) for v in o["wire"]["args"]]
    kw = [C.cpair(C.cn(nid(k)), C.cn(vid(cj(v)))) for k, v in o["wire"]["kwargs"]]
    tb = []
    for tn, v, kind, w in o["conv"]:
        res = "(CVal %s)" % C.cn(vid(cj(w))) if kind == "val" else ("CSwallowed" if kind == "swallowed" else "CRaise")
        tb.append("((%s, %s), %s)" % (C.cn(tid(tn)), C.cn(vid(cj(v))), res))
    full = {(e[0], cj(e[1])): i for i, e in enumerate(o["conv"])}
    tc = []
    for tn, v in o.get("consulted", []):
        i = full.get((tn, cj(v)))
        # a consulted pair outside (annotations of the signature) x (values on the wire) has no table entry: fail closed
        tc.append(tb[i] if i is not None else "((%s, %s), CRaise)" % (C.cn(tid(tn)), C.cn(vid(cj(v)))))
    if o["outcome"] == "invoked":
        rs = []
        for p in case["params"]:
            v = o["received"][p["name"]]
            if p["kind"] == "varpos":
                rs.append("(OStar %s)" % C.clist([C.cn(vid(cj(x))) for x in v[1]]))
            elif p["kind"] == "varkw":
                rs.append("(OStarStar %s)" % C.clist([C.cpair(C.cn(nid(k)), C.cn(vid(cj(x)))) for k, x in v[1]]))
            elif v == ["default"]:
                rs.append("ODefault")
            else:
                rs.append("(OVal %s)" % C.cn(vid(cj(v))))
        ob = "(OInvoked %s)" % C.clist(rs)
    elif o["outcome"] == "typeerror":
        ob = "OTypeError"
    elif o["outcome"] == "raised":
        ob = "ORaised"
    else:
        return None
    return C.cpair("(%s : ctable)" % C.clist(tb), "(%s : ctable)" % C.clist(tc), C.cb(case["validate"]), "(%s : list (param nat))" % C.clist(sg),
                   "(%s : list (nat * nat))" % C.clist(hints), "(%s : list nat)" % C.clist(args),
                   "(%s : list (nat * nat))" % C.clist(kw), "(%s : obs nat)" % ob)


COQ_HEADER = """From Coq Require Import List Bool Arith. Import ListNotations.
From TQ Require Import Params."""
COQ_BODY = """(* tb: the real parse_obj_as on every (annotation, wire value); tc: the entries the implementation actually consulted.
   consults_ok: the model run on tc alone gives the observation (it consults nothing else), and run on tc minus any one
   entry it hits the hole (it consults every one of them). *)
Definition drop (q : nat * nat * cres nat) (tc : ctable) : ctable :=
  filter (fun e => negb ((fst (fst e) =? fst (fst q)) && (snd (fst e) =? snd (fst q)))) tc.
Definition consults_ok (tc : ctable) validate sg h args kw (o : obs nat) : bool :=
  obs_eqb_n (run_task_n tc validate sg h args kw) o &&
  forallb (fun q => obs_eqb_n (run_task_n (drop q tc) validate sg h args kw) ORaised) tc.
Fixpoint bad (i : nat) (l : list (ctable * ctable * bool * list (param nat) * list (nat * nat) * list nat * list (nat * nat) * obs nat))
  : list nat :=
  match l with
  | [] => []
  | (tb, tc, validate, sg, h, args, kw, o) :: t =>
    if obs_eqb_n (run_task_n tb validate sg h args kw) o && C08_check_n tb validate sg h args kw o
       && consults_ok tc validate sg h args kw o
    then bad (S i) t else i :: bad (S i) t
  end.
Eval vm_compute in bad 0%nat cases."""


def prep_literal(case, o):
    """(args, kwargs) as the model's pyarg, and what the real _prepare_message produced (None = it raised ValueError)"""
    vid, nid = Ids({}), Ids({})

    def arg(spec, form):
        if "dctype" in spec:
            return "PDataclassType"
        return "(%s %s)" % ("PModel" if "model" in spec else "PDataclass" if "dc" in spec else "POther", C.cn(vid(cj(form))))

    pf = o["prepared_forms"]
    args = [arg(s, f) for s, f in zip(case["args"], pf["args"])]
    kw = [C.cpair(C.cn(nid(k)), arg(s, f)) for (k, s), (_, f) in zip(case["kwargs"], pf["kwargs"])]
    if o["kiq"] == "ok":
        got = "(Some (%s, %s))" % (C.clist([C.cn(vid(cj(v))) for v in o["prepared"]["args"]]),
                                   C.clist([C.cpair(C.cn(nid(k)), C.cn(vid(cj(v)))) for k, v in o["prepared"]["kwargs"]]))
    elif o["kiq"] == "raised:ValueError":
        got = "None"
    else:
        return None
    return C.cpair("(%s : list (pyarg nat nat nat))" % C.clist(args), "(%s : list (nat * pyarg nat nat nat))" % C.clist(kw),
                   "(%s : option (list nat * list (nat * nat)))" % got)


PREP_BODY = """Fixpoint bad (i : nat) (l : list (list (pyarg nat nat nat) * list (nat * pyarg nat nat nat) * option (list nat * list (nat * nat))))
  : list nat :=
  match l with
  | [] => []
  | (args, kw, o) :: t => if prep_eqb (prepare_message_n args kw) o then bad (S i) t else i :: bad (S i) t
  end.
Eval vm_compute in bad 0%nat cases."""


# --------------------------------------------------------------------------- one batch
def branch_counts(rep, case, o):
    """which branches of the model's parse_loop / bind_params the case drives (derived from the real observations)"""
    hints = dict((n, t) for n, t in o["hints"])
    table = {(e[0], cj(e[1])): e[2] for e in o["conv"]}
    wargs, wkw = o["wire"]["args"], dict((k, v) for k, v in o["wire"]["kwargs"])
    if not case["validate"]:
        rep.count("parse:signature_none")
    else:
        for i, p in enumerate(case["params"]):
            t = hints.get(p["name"])
            if t is None:
                rep.count("parse:unannotated_skip")
                continue
            if i < len(wargs):
                v, where = wargs[i], "pos"
            elif p["name"] in wkw:
                v, where = wkw[p["name"]], "kw"
            else:
                rep.count("parse:kw_absent")
                continue
            if v == ["none"]:
                rep.count("parse:%s_none" % where)
            else:
                rep.count("parse:%s_%s" % (where, {"val": "converted", "swallowed": "kept_after_failure", "raise": "raise"}[table[(t, cj(v))]]))
            if p["kind"] != "pos" and where == "pos":
                rep.count("parse:positional_slot_of_non_positional_param")
    for tn, cv in o.get("consulted", []):
        if tn in ("int", "float", "bool", "str"):
            rep.count("conv:%s<-%s:%s" % (tn, vkind(cv), {"val": "converted", "swallowed": "refused(arrives unchanged)",
                                                         "raise": "raise"}.get(table.get((tn, cj(cv))), "?")))
    if o["pybind"] is None:
        e = o["pybind_err"]
        rep.count("bind:reject:" + ("multiple_values" if "multiple values" in e else "missing" if "missing" in e else
                                    "too_many_positional" if "too many positional" in e else
                                    "unexpected_keyword" if "unexpected keyword" in e else "other"))
    else:
        for p in case["params"]:
            rep.count("bind:" + o["pybind"][p["name"]][0])


def twin_kind(spec):
    return spec["k"] + ("_" + str(spec.get("mixin") or "plain") if spec["k"] == "enum" else
                        "_factory" if spec.get("how") == "factory" else "")


def group_counts(rep, g, o):
    """evidence for one group of calls over same-named types; returns whether it is a non-trivial one (the
    implementation converted values for at least two different classes of one name in this process)"""
    rep.count("twin_group:cases")
    rep.count("twin_group:steps", len(g["steps"]))
    rep.count("twin_group:receiver:" + ("one_shared" if g.get("shared") else "one_per_call"))
    rep.count("twin_group:kind:" + twin_kind(g["types"]["T0"]))
    reprs = list(o["type_reprs"].values())
    rep.count("twin_group:repr_of_the_classes:" + ("identical" if len(set(reprs)) == 1 else
                                                   "some_identical" if len(set(reprs)) < len(reprs) else "distinct(modules differ)"))
    defs = [cj(dict(sp, module=None)) for sp in g["types"].values()]
    if len(set(defs)) < len(defs):
        rep.count("twin_group:with_a_recreated_class(same definition, other object)")
    own, base = twin_anns(g), {}
    for tn in g["types"]:
        for w in TW_WRAPS:
            base[w % tn] = (tn, w % "T")
    used = []
    for st, so in zip(g["steps"], o["steps"]):
        table = {(e[0], cj(e[1])): e[2] for e in so.get("conv", [])}
        for tn, cv in so.get("consulted", []):
            if tn in own:
                if base[tn][0] not in used:
                    used.append(base[tn][0])
                rep.count("twin_conv:%s<-%s:%s" % (base[tn][1], cv[0], {"val": "converted", "swallowed": "refused(arrives unchanged)",
                                                                       "raise": "raise"}.get(table.get((tn, cj(cv))), "?")))
        for p, sp in sent_pairs(st):
            if p["ann"] in own and (sp.get("model") or sp.get("dc")) in g["types"]:
                rep.count("twin_group:instance_sent:" + ("of_the_annotated_class" if (sp.get("model") or sp.get("dc")) == base[p["ann"]][0]
                                                         else "of_its_twin"))
    rep.count("twin_group:classes_converted_for:%d" % len(used))
    if len(used) >= 2:
        rep.count("twin_group:first_parsed:" + used[0])
    return len(used) >= 2


def explore(ctx, rep, cases, label, observe_only=False):
    obs = C.run_driver(ctx, "params_driver", cases)
    lits, keep, plits, pkeep = [], [], [], []

    def one(c, o, whole, step):
        """one call: c, o = the call's case and observation; whole = the case to record (the group it is a step of)"""
        sig = dict(src=o.get("src")) if step is None else dict(src=o.get("src"), step=step)
        rep.count("fmt:%s/%s" % (c["fmt"], c["ser"]))
        rep.count("fn:" + ("async" if c["async"] else "sync"))
        rep.count("scope:" + ("in" if in_scope(c) else "var_kinds(model only)"))
        text_counts(rep, c, o)
        if c.get("mutate"):
            rep.count("task_function_changes_its_arguments_in_place:" + c["mutate"])
            if o.get("mutated"):
                rep.count("task_function_changes_its_arguments_in_place:executions_that_changed_a_container_or_object")
        ne = sum(is_edge(p["ann"], sp) for p, sp in sent_pairs(c))
        if ne:
            rep.count("edge_value_for_annotation(constructor vs pydantic):cases")
            for p, sp in sent_pairs(c):
                if is_edge(p["ann"], sp):
                    rep.count("edge_value_for_annotation:" + p["ann"])
        fails = oracle(c, o) + (registry_oracle(c, o) if is_registry(whole) else [])
        for what, got, want in fails:
            if observe_only:
                rep.count("observation:" + what[:60])
            else:
                if step is not None:
                    got = {"step": step, "function": o.get("src"), "observed": got}
                rep.fail(what, whole, observed=got, expected=want, sig=sig)
        pl = prep_literal(c, o)
        if pl is not None:
            plits.append(pl)
            pkeep.append(whole)
            for sp in c["args"] + [x[1] for x in c["kwargs"]]:
                rep.count("prepare:" + ("model" if "model" in sp else "dataclass" if "dc" in sp else
                                        "dataclass_type" if "dctype" in sp else "other"))
        if o["kiq"] != "ok":
            rep.count("kiq:" + o["kiq"])
            return
        rep.count("outcome:" + o["outcome"])
        rep.count("python:" + ("accepts" if o["pybind"] is not None else "rejects"))
        if not in_scope(c) and o["pybind"] is not None and o["outcome"] == "invoked":
            e = expected_received(c, o)
            if e is not None and any(o["received"][p["name"]] != e[p["name"]] for p in c["params"]
                                     if p["kind"] in ("pos", "kw")):
                rep.count("observation:named parameter of a *args/**kwargs signature deviates from the statement")
        branch_counts(rep, c, o)
        if is_registry(whole) and whole.get("observation"):
            return      # the receiver's prepared signature is not the running function's: outside the model's run_task
        lit = literal(c, o)
        if lit is None:
            if not observe_only:
                rep.fail("task neither invoked nor refused with TypeError", whole, observed=[o["outcome"], o.get("exc")], sig=sig)
            return
        lits.append(lit)
        keep.append(whole)

    for c, o in zip(cases, obs):
        if "_crash" in o:
            rep.case(c, False)
            rep.fail("driver crashed (treated as a failure, never skipped)", c, observed=o["_crash"][-600:])
            continue
        if is_redelivery(c):
            rep.case(c, redelivery_counts(rep, c, o))
            for i, (st, so) in enumerate(zip(c["steps"], o["steps"])):
                one(st, so, c, i)
        elif is_lifecycle(c):
            rep.case(c, lifecycle_counts(rep, c, o))
            for i, (st, so) in enumerate(zip(c["steps"], o["steps"])):
                one(st, so, c, i)
        elif is_registry(c):
            rep.case(c, registry_counts(rep, c, o))
            for i, (st, so) in enumerate(zip(c["steps"], o["steps"])):
                one(eff_step(c, st, so), so, c, i)
        elif is_group(c):
            rep.case(c, group_counts(rep, c, o))
            for i, (st, so) in enumerate(zip(c["steps"], o["steps"])):
                one(st, so, c, i)
        else:
            rep.case(c, nontrivial(c, o))
            one(c, o, c, None)
    broken = False
    if plits:
        bad, sfails, _ = C.coq_eval(ctx, label + "_prepare", COQ_HEADER, plits, PREP_BODY, shard=1000)
        rep.corr(label + ":_prepare_message", len(plits), bad, sfails, lambda i: pkeep[i])
        broken = bool(bad or sfails)
    if lits:
        bad, sfails, _ = C.coq_eval(ctx, label, COQ_HEADER, lits, COQ_BODY, shard=250)
        rep.corr(label + ":run_task", len(lits), bad, sfails, lambda i: keep[i])
        rep.traces += len(lits) - len(bad)
        broken = broken or bool(bad or sfails)
    return broken


def run(ctx):
    rep = C.Report(ctx, META)
    rep.add_obligations(C.proof_obligations("C08"))
    corpus = C.load_corpus("C08")
    explore(ctx, rep, [c for _, c in corpus if not c.get("observation")], "corpus")
    explore(ctx, rep, [c for _, c in corpus if c.get("observation")], "observations", observe_only=True)
    r = ctx.sub_rng("gen")
    cases = [gen_case(r) for _ in range(ctx.n(3000, 60000))]
    broken = explore(ctx, rep, cases, "main")
    nmax = ctx.n(2, 3)
    ex = [derive_default_serializer(c) for c in enum_cases(nmax)]
    rep.extra["small_scope_exhaustive"] = ("%d cases: every signature of <= %d parameters over {positional-or-keyword, keyword-only} x "
                                           "{un-annotated, Any, int} x {required, defaulted, dependency} x every accepted "
                                           "positional/keyword/unsent split" % (len(ex), nmax))
    broken = explore(ctx, rep, ex, "small_scope") or broken
    eg = [derive_default_serializer(c) for c in edge_cases()]
    rep.extra["edge_table"] = ("%d cases: every (annotation, value) of the constructor-vs-pydantic edge grammar (%s) sent "
                               "positionally and by keyword" % (len(eg), ", ".join("%s:%d" % (a, len(EDGE[a])) for a in sorted(EDGE))))
    broken = explore(ctx, rep, eg, "edge_table") or broken
    tw = [derive_default_serializer(c) for c in twin_table_cases()]
    r3 = ctx.sub_rng("twins")
    groups = [gen_group(r3) for _ in range(ctx.n(150, 4000))]
    rep.extra["same_named_types"] = ("%d table groups (every kind of same-named twin pair: %s; x bare / List / Optional / Dict x "
                                     "which twin is parsed first, 4 calls each) + %d random groups of 2-5 calls; one driver "
                                     "process per group, each call judged on its own against pydantic on the call's own class"
                                     % (len(tw), ", ".join(TW_KINDS), len(groups)))
    broken = explore(ctx, rep, tw + groups, "same_named_types") or broken
    rt = [derive_default_serializer(c) for c in registry_table_cases()]
    r4 = ctx.sub_rng("registry")
    rgroups = [gen_registry_group(r4) for _ in range(ctx.n(110, 3000))]
    rep.extra["task_registry"] = ("%d table groups (%d pairs of same-named functions that convert / fill one call differently x %d "
                                  "layouts over the broker's own / the shared / a producer-side registry, both roles; 3 calls "
                                  "each) + %d random groups of 2-5 calls around one worker broker and one Receiver; each call "
                                  "judged by the signature of the function whose body ran"
                                  % (len(rt), len(REG_PAIRS), len(REG_LAYOUTS), len(rgroups)))
    broken = explore(ctx, rep, rt + rgroups, "task_registry") or broken
    lt = [derive_default_serializer(c) for c in lifecycle_table_cases()]
    r5 = ctx.sub_rng("lifecycle")
    lgroups = [gen_lifecycle_group(r5) for _ in range(ctx.n(70, 2500))]
    rep.extra["broker_life_cycle"] = ("%d table groups (cast_types off / on x %d histories before the first send x %d "
                                      "between the sends, 4 calls each) + %d random groups of 2-5 calls on ONE InMemoryBroker "
                                      "object with startup() / shutdown() events before and between the sends; each call judged "
                                      "on its own with the cast_types the broker was constructed with (sync task functions only "
                                      "before the first shutdown: the pool is closed for good by it)"
                                      % (len(lt), len(LIFE_TABLE_PRE), len(LIFE_TABLE_MID), len(lgroups)))
    broken = explore(ctx, rep, lt + lgroups, "broker_life_cycle") or broken
    dt = [derive_default_serializer(c) for c in redelivery_table_cases()]
    r6 = ctx.sub_rng("redelivery")
    dgroups = [gen_redelivery_group(r6) for _ in range(ctx.n(60, 2500))]
    rep.extra["redelivery"] = ("%d table groups (%d handlers that consume their input x %d places (worker Receiver shared / per "
                               "delivery, InMemoryBroker in place / background) x %d ways the 2nd and 3rd delivery come about: "
                               "redelivered bytes, equal copy, AckableMessage, re-sent under the same custom task id, same kicker "
                               "object) + %d random groups of 2-9 deliveries; task functions change their arguments in place after "
                               "recording them (%s); every delivery judged on its own, round trip judged on a decode before and "
                               "after every execution" % (len(dt), len(RD_FNS), len(RD_PLACES), len(RD_PATTERNS), len(dgroups),
                                                          ", ".join(MUTATIONS)))
    broken = explore(ctx, rep, dt + dgroups, "redelivery") or broken
    tt = text_table_cases()
    r7 = ctx.sub_rng("text")
    tcases = [gen_text_case(r7) for _ in range(ctx.n(160, 6000))]
    tgroups = [gen_text_lifecycle_group(r7) for _ in range(ctx.n(18, 800))] + \
        [gen_text_redelivery_group(r7) for _ in range(ctx.n(14, 700))]
    rep.extra["text_and_broker_defaults"] = (
        "%d table cases (every specimen of the text grammar: %s; bare / nested in lists and dict values / dataclass field / dict "
        "key, two calls each) + %d random calls + %d life-cycle and redelivery groups on brokers constructed with their defaults, "
        "whose values carry such text; lone surrogates only as values under ProxyFormatter (what the unchanged tree carries); "
        "serializer / formatter either the ones the broker's own constructor chose or objects built by the driver. Besides, in "
        "every family about one case in three of those with a hand-built JSONSerializer() leaves the broker's own default "
        "serializer in place instead" % (len(tt), ", ".join("%s:%d" % (k, len(v)) for k, v in sorted(TEXT.items())),
                                         len(tcases), len(tgroups)))
    broken = explore(ctx, rep, tt + tcases + tgroups, "text") or broken
    if (broken or any(not o["ok"] for o in rep.obligations)) and not rep.failures:
        r2 = ctx.sub_rng("search")
        explore(ctx, rep, [gen_case(r2) for _ in range(ctx.n(10000, 100000))] +
                [gen_group(r2) for _ in range(ctx.n(500, 5000))] +
                [gen_registry_group(r2) for _ in range(ctx.n(500, 5000))] +
                [gen_lifecycle_group(r2) for _ in range(ctx.n(300, 3000))] +
                [gen_redelivery_group(r2) for _ in range(ctx.n(300, 3000))] +
                [gen_text_case(r2) for _ in range(ctx.n(1000, 10000))] +
                [gen_text_lifecycle_group(r2) for _ in range(ctx.n(100, 1000))], "search")
    return rep.finish()


def replay(ctx, path):
    rec = json.load(open(path))
    c = rec.get("case", rec)
    o = C.run_driver(ctx, "params_driver", [c], nproc=1)[0]
    print("case:", json.dumps(c))
    if "_crash" in o:
        print("driver crashed:", o["_crash"])
        return 1
    if not is_group(c):
        fails = replay_one(ctx, c, o, "replay")
    elif is_redelivery(c):
        rd = c["redelivery"]
        print("a sequence of deliveries in one process; %s; parsing %s; formatter/serializer %s/%s" % (
            "one worker Receiver for all of them" if rd["path"] == "receiver" and rd["receiver"] == "shared" else
            "a new Receiver(broker) for every delivery" if rd["path"] == "receiver" else
            "ONE started InMemoryBroker(%s)" % ", ".join("%s=%s" % kv for kv in sorted(rd["broker"].items())),
            "on" if c["validate"] else "off", c["fmt"], c["ser"]))
        fails = []
        for i, (st, so) in enumerate(zip(c["steps"], o["steps"])):
            print("--- delivery %d: task t%d%s; %s; the same bytes were delivered %s time(s) before, those executions changed %s "
                  "container(s) / object(s) of their arguments in place" % (
                      i, st.get("task", i), " (its body changes its arguments in place: %s)" % st["mutate"] if st.get("mutate") else "",
                      "the broker message of delivery %d delivered once more (%s)" % (st["again"], st.get("how")) if st.get("again") is not None
                      else "sent with task id %r%s" % (st["task_id"], " through the kicker object of delivery %d" % st["kicker"]
                                                       if st.get("kicker") is not None else "") if st.get("task_id") is not None else "sent",
                      so.get("same_bytes_delivered_before"), so.get("mutated_by_earlier_deliveries")))
            fails += replay_one(ctx, st, so, "replay%d" % i)
    elif is_lifecycle(c):
        print("a sequence in one process on ONE InMemoryBroker(cast_types=%s, %s); formatter/serializer %s/%s; receiver objects "
              "seen by the calls: %s" % (c["validate"], ", ".join("%s=%s" % kv for kv in sorted(c["broker"].items())), c["fmt"], c["ser"],
                                         o.get("receiver_objects")))
        fails = []
        for e in c["life"]:
            if e["ev"] in ("startup", "shutdown"):
                print("  await broker.%s()" % e["ev"])
            elif e["ev"] == "reg":
                print("  task t%d registered (%s)" % (e["step"], e["how"]))
            else:
                st, so = c["steps"][e["step"]], o["steps"][e["step"]]
                print("--- call %d: task t%d" % (e["step"], st.get("task", e["step"])))
                fails += replay_one(ctx, st, so, "replay%d" % e["step"])
    elif is_registry(c):
        print("a sequence in one process around one worker broker and one Receiver (registry `shared` = async_shared_broker, "
              "`other` = a producer-side broker); task names as taskiq derived them:", o["names"])
        fails, nr = [], 0
        for e in c["events"]:
            if e["ev"] == "reg":
                print("  register #%d on %-6s name=%r (%s): F%d = %s" % (nr, e["where"], e["name"], e["how"], e["fn"],
                                                                       "; ".join(sp["name"] + (":" + sp["ann"] if sp["ann"] else "") +
                                                                                 ("=dep" if sp["dep"] else "=dflt" if sp["default"] else "")
                                                                                 for sp in c["fns"][e["fn"]]["params"])))
                nr += 1
            elif e["ev"] == "receiver":
                print("  Receiver(worker broker) constructed")
            else:
                st, so = c["steps"][e["step"]], o["steps"][e["step"]]
                print("--- call %d: name=%r kiq through registration #%d; resolves to F%d; bodies entered: %s" % (
                    e["step"], st["name"], st["via"], st["target"], ["F%d" % k for k in so.get("executed", [])]))
                for what, got, want in registry_oracle(st, so):
                    print("VIOLATED:", what, got, want)
                    fails.append((what, got, want))
                fails += replay_one(ctx, eff_step(c, st, so), so, "replay%d" % e["step"])
    else:
        print("a sequence of %d calls in one process (%s) over the same-named types:" % (
            len(c["steps"]), "one shared receiver" if c.get("shared") else "one receiver per call"))
        for tn, sp in c["types"].items():
            print("  %s = %s   repr %s" % (tn, json.dumps(sp), o["type_reprs"][tn]))
        fails = []
        for i, (st, so) in enumerate(zip(c["steps"], o["steps"])):
            print("--- call %d" % i)
            fails += replay_one(ctx, st, so, "replay%d" % i)
    if c.get("observation"):
        print("(observation outside the property's quantifier - not a verdict)")
        return 0
    print("holds" if not fails else "VIOLATED")
    return 1 if fails else 0


def replay_one(ctx, c, o, label):
    print("function:", o.get("src", "").strip())
    if o.get("broker_conf"):
        print("broker: a subclass of %s; formatter %s (%s); serializer %s (%s)" % (
            o["broker_conf"][0], o["broker_conf"][1],
            "built by the driver" if c.get("fmt") in ("json", "proxy_built") else "the one the broker's constructor installed",
            o["broker_conf"][2],
            "the one the broker's constructor installed" if c.get("ser") == "default" else "built by the driver"))
    print("sent (wire):", o.get("wire"))
    print("implementation: kiq=%s outcome=%s received=%s" % (o["kiq"], o.get("outcome"), o.get("received")))
    fails = oracle(c, o)
    lit = literal(c, o) if o["kiq"] == "ok" else None
    if lit:
        body = COQ_BODY.replace("Eval vm_compute in bad 0%nat cases.",
                                "Eval vm_compute in (match cases with (tb, tc, validate, sg, h, args, kw, o) :: _ => "
                                "Some (run_task_n tb validate sg h args kw, C08_check_n tb validate sg h args kw o, "
                                "consults_ok tc validate sg h args kw o) | [] => None end).\n"
                                "Eval vm_compute in bad 0%nat cases.")
        rc, out = C.coq_eval_raw(ctx, label, COQ_HEADER + "\nDefinition cases := [\n" + lit + "\n].\n" + body)
        print("model (values numbered per case; run_task_n, C08_check_n, consults_ok, mismatching indices):", " ".join(out.split())[-600:])
    for what, got, want in fails:
        print("VIOLATED:", what, "\n  observed:", json.dumps(got)[:600], "\n  expected:", json.dumps(want)[:600])
    return fails
