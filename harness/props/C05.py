"""C05 - graceful shutdown drains accepted work and terminates."""
import common as C
import recv_props as R

META = dict(
    id="C05",
    design_ref="DESIGN.md section 4, RecvLTS.v and C05; section 5 D5",
    technique="Coq proof (inductive invariants + a termination variant of a labelled transition system) + trace acceptance of real "
              "Receiver.listen() runs with stop requests / budgets captured by logging shims under a virtual-time loop + timed oracle",
    level_text="Theorems over every configuration (any A, P, N, wait_tasks_timeout) and every event sequence accepted by the receiver "
               "LTS (coq/theories/RecvLTS.v): C05_one_more (at most one take after the stop request), C05_no_new_la (the look-ahead "
               "created after the stop never takes anything), C05_drains (listen() returns only after prefetcher and runner returned; "
               "every taken message was started; with no live callback all have finished), C05_waits (the runner returns with a live "
               "callback only through the wait timeout, which needs wait_tasks_timeout), C05_exactly_N (never more than N taken; a "
               "budget stop has handed over and taken exactly N), C05_terminates + C05_progress (after the stop a variant strictly "
               "decreases on every prefetcher / runner step and a step is enabled whenever no callback task exists). The full-strength "
               "timeout clause is refuted on the faithful model: C05_timeout_blocked_refuted (D5, known finding). Tied to /repo on "
               "every run by trace acceptance inside Coq and by the timed oracle on the implementation.",
    level_note="Partial w.r.t. real time: the 0.3 s poll, 'returns promptly' and the wait_tasks_timeout clock are real-time behaviour the "
               "untimed LTS cannot exhibit; they are oracle-checked on the implementation under virtual time only (return not while an "
               "accepted task runs unless stop + wait_tasks_timeout passed; return within 0.3 s + 10 ms of the later of stop and last "
               "task end; with wait_tasks_timeout set, after the trigger no period longer than 0.3 s + the timeout without any accepted "
               "message starting or finishing and without returning - the reading of 'that timeout has elapsed' that demands least). 'Including "
               "its acknowledgement' is checked by the oracle (one ack per valid ackable message by the drained return); the ack site "
               "itself is Pipeline.v (C02). KNOWN FINDING D5 runner_blocked_on_slot: listen() does not return although the timeout "
               "elapsed when every slot is held by a task that outlives it. Trusted: Coq kernel + vm_compute, shims and raw-log "
               "grouping, virtual-time loop.",
    rule="case = receiver scenario with a stop instant (absolute, or relative to an event of the run such as the begin of a task's "
         "cancellation clean-up) and / or N (A, P, wait_tasks_timeout, messages short / long / never-ending / slow to react to the "
         "cancellation their timeout label causes); for ~10 % of the stream (command-line scenarios) the real start_listen runs the worker "
         "from beginning to end on the event loop it creates and configures itself, stopped through the signal handler it installs "
         "(SIGINT / SIGTERM / SIGHUP, also repeated below the hard-kill count; broker path naming the object or a factory function); Further family (own random stream): the REAL taskiq.api.run_receiver_task coroutine runs for the whole scenario over a scripted listen() that raises 0..3 times (ConnectionError, RuntimeError, TimeoutError, OSError, EOFError, a client's own class, a falsy exception object, an ExceptionGroup, BrokerError) as the first thing a session does / right after taking a message / while tasks are in flight / while idle, the remaining messages going to the re-started listening; N and wait_tasks_timeout set by the receiver class handed to it, stop = the finish event it gave to listen(); decided by the direct oracles only, every listen() session held to the statement by its own messages; "
         "non-trivial iff at the shutdown trigger >= 1 callback is running and >= 1 message is taken-but-not-started or arrives within "
         "the next poll period; distinct by canonical scenario",
    trusted_base=["model: coq/theories/RecvLTS.v", "logging shims + raw log -> LTS event grouping: harness/shims.py; harness/vloop.py",
                  "harness/cli_glue.py run_start_listen: event-loop policy handing start_listen the virtual-time loop, signal stand-in, import hooks"],
    assumptions=["fairness of the asyncio event loop; timers fire at their instant (virtual time)",
                 "start_listen runs: no uvloop, no process pool; the signal handler is called from a loop timer (between two callbacks)",
                 "the broker's listen() generator takes a message only at its yield; in the proofs it raises nothing but StopAsyncIteration. "
                 "Runs under run_receiver_task with a failing listen() are oracle-checked only; the worker that is asked to stop, accepts "
                 "N messages, drains and returns is read as the session listening then - the last one (the reading that demands less)"],
)
PROF = dict(stop_p=.75, n_p=.25, ends_p=.1, wtt_p=.45, never=.07)
PROF_BACKLOG = dict(backlog=True, limited_only=True, stop_p=.8, n_p=.3, ends_p=.05, wtt_p=.5, never=.05)
# shutdown while an accepted task is handling the cancellation its timeout label caused (recv_props.gen_slow_cancel_shutdown)
PROF_SLOWCANCEL = dict(stop_p=.5, n_p=.15, ends_p=.1, wtt_p=.12, slowcancel=.3)
# run_receiver_task running for the whole scenario over a listen() that fails 0..3 times (recv_props.gen_live)
PROF_LIVE = dict(limited_only=True, stop_p=.6, n_p=.3, ends_p=.15, wtt_p=.2, slowcancel=.1, reg_p=.05, A_choices=[1, 1, 1, 2, 2, 3])
RN_TAGS = ("sem.acq", "q.get", "spawn", "waited")


def runner_position(f, t):
    """where the runner is suspended at instant t, read from its own raw events"""
    last = None
    for e in f.raw:
        if e[0] > t:
            break
        if (e[1] in ("sem.acq", "semp.rel") and e[2] == "rn") or e[1] in ("q.get", "spawn", "waited"):
            last = e
    if last is None or last[1] == "spawn":
        return "slot-acquire"
    if last[1] in ("sem.acq", "semp.rel"):
        return "queue-get"
    if last[1] == "q.get":
        return "wait-tasks" if last[2] == "DONE" else "spawning"
    return "done"


def oracle(sc, obs):
    out = []
    f = R.Facts(sc, obs)
    msgs = sc["msgs"]
    wtt = sc.get("wtt_us")
    A = sc["A"] if R.limited(sc) else None
    # Under run_receiver_task (sc["live"]) listen() is called once per session; "the worker" that is asked to stop, accepts N
    # messages, drains and returns is read as the session that is listening then - the LAST one (the reading that demands
    # less): what a session whose listen() failed left running, or dropped with its hand-over queue, is not demanded of the
    # session that replaced it.  In an ordinary run there is one session and nothing changes.
    if f.live and f.t0 is not None:
        f.t0 = max(f.t0, f.sess_start.get(f.last_s, 0))      # a session cannot react to a request before it exists
    all_taken = [i for _, i in f.takes]
    taken = [i for i in all_taken if f.final(i)]
    # -- at most one further message after the stop request (event order)
    seen_stop, after = False, 0
    for e in f.raw:
        if e[1] == "STOP":
            seen_stop = True
        elif e[1] == "TAKE" and seen_stop:
            after += 1
    if after > 1:
        out.append(dict(what="more than one message taken from the broker after the stop request", observed=after, expected="<= 1",
                        sig=dict(kind="one_more")))
    # -- max_tasks_to_execute: never more than N
    per = {}
    for i in all_taken:
        per[f.session_of(i)] = per.get(f.session_of(i), 0) + 1
    if sc["N"] and per and max(per.values()) > sc["N"]:
        out.append(dict(what="more than max_tasks_to_execute messages accepted", observed=max(per.values()), expected=sc["N"], sig=dict(kind="budget")))
    ends = {i: f.cbend[i][0] for i in taken if f.cbend.get(i)}
    if f.returned:
        if f.t0 is None or f.ret_t < f.t0:
            out.append(dict(what="listen() returned without / before any shutdown trigger", observed=dict(ret_us=f.ret_t, trigger_us=f.t0),
                            expected="stop request, budget or end of stream first", sig=dict(kind="early_return")))
            return out
        # finished = the callback has ended and every acknowledgement that was begun (ack callable invoked) has completed
        def ack_pending(i):
            return len([t for t in f.acks.get(i, []) if t <= f.ret_t]) > len([t for t in f.ackend.get(i, []) if t <= f.ret_t])

        # ... and its task function body, once entered, has REALLY ended (the outermost `finally` of the body was reached):
        # a body that is still handling a cancellation (timeout label fired, clean-up in progress) is a task still running
        def body_running(i):
            return len([t for t in f.bodyin.get(i, []) if t <= f.ret_t]) > len([t for t in f.bodyout.get(i, []) if t <= f.ret_t])

        unfinished = [i for i in taken if i not in ends or ends[i] > f.ret_t or ack_pending(i) or body_running(i)]
        if unfinished and (wtt is None or f.ret_t < f.t0 + wtt):
            out.append(dict(what="listen() returned while an accepted task was still running (or its acknowledgement had not completed) "
                                 "and wait_tasks_timeout had not elapsed",
                            observed=dict(ret_us=f.ret_t, trigger_us=f.t0, unfinished=unfinished, wtt_us=wtt,
                                          ack_in_flight=[i for i in unfinished if ack_pending(i)],
                                          body_still_running_after_its_callback_ended=[i for i in unfinished if body_running(i)
                                                                                        and i in ends and ends[i] <= f.ret_t]),
                            expected="return after every accepted task, or not before trigger + wait_tasks_timeout", sig=dict(kind="no_wait")))
        if not unfinished:
            for i in taken:
                m = msgs[i]
                if R.ack_in_quantifier(m):
                    n = sum(1 for t in f.ackend.get(i, []) if t <= f.ret_t)      # COMPLETED acknowledgements
                    if n != 1:
                        out.append(dict(what="drained return but an accepted message is not acknowledged exactly once",
                                        observed=dict(msg=i, acks_completed=n, ack_calls=len(f.acks.get(i, []))),
                                        expected=1, sig=dict(kind="ack")))
                        break
    if f.t0 is None:
        return out
    R_t = f.ret_t if f.returned else f.end_t
    # -- once all accepted tasks have finished it returns promptly
    if len(ends) == len(taken):
        t_fin = max([f.t0] + list(ends.values())) + R.POLL      # within one poll period of the later of trigger and last end
        if R_t > t_fin + R.EPS:
            out.append(dict(what="all accepted tasks have finished but listen() does not return promptly",
                            observed=dict(trigger_us=f.t0, last_end_us=max(ends.values()) if ends else None,
                                          returned_us=f.ret_t, observed_until_us=f.end_t, runner_at=runner_position(f, t_fin + R.EPS)),
                            expected="return by %d us" % (t_fin + R.EPS), sig=dict(kind="not_prompt")))
    # -- it runs every message it has taken to completion and then returns: the request stands, none of the accepted messages is
    #    being processed, nothing of them has started or ended for longer than a poll period - and listen() still has not
    #    returned (observed until the harness' cut mark: a worker that has stopped dead logs nothing any more)
    if not f.returned and len(ends) != len(taken):
        cut_t = next((e[0] for e in obs["raw"] if e[1] == "CUTMARK"), f.end_t)
        running = [i for i in taken if f.cbstart.get(i) and i not in ends]
        quiet = max([f.t0] + [t for i in taken for t in f.cbstart.get(i, []) + f.cbend.get(i, [])])
        if not running and cut_t > quiet + R.POLL + R.EPS:
            out.append(dict(what="shutdown was triggered and no accepted task is running, yet listen() neither runs the accepted "
                                 "messages that have not been started nor returns",
                            observed=dict(trigger_us=f.t0, accepted=taken, never_started=[i for i in taken if not f.cbstart.get(i)],
                                          nothing_happened_since_us=quiet, observed_until_us=cut_t, runner_at=runner_position(f, cut_t)),
                            expected="every accepted message run to completion, then return", sig=dict(kind="stalled")))
    # -- once wait_tasks_timeout has elapsed it returns promptly: after the trigger no period longer than 0.3 s + the timeout
    #    in which no accepted message starts or finishes and listen() still has not returned
    if wtt is not None:
        p0 = f.t0
        pts = sorted({p0} | {t for i in taken for t in (f.cbstart.get(i, []) + f.cbend.get(i, [])) if p0 < t < R_t})
        for k, p in enumerate(pts):
            nxt = pts[k + 1] if k + 1 < len(pts) else R_t
            g = p + R.POLL + wtt + R.EPS      # one poll period to notice, then the timeout
            if nxt > g and any(i not in ends or ends[i] > p for i in taken):
                holders = [i for i in f.cbstart if f.final(i) and f.cbstart[i][0] <= p and not (f.cbdone.get(i) and f.cbdone[i][0] <= g)]
                out.append(dict(what="wait_tasks_timeout elapsed with no accepted message starting or finishing, yet listen() has not returned",
                                observed=dict(trigger_us=f.t0, idle_since_us=p, still_not_returned_at_us=g, returned_us=f.ret_t,
                                              runner_at=runner_position(f, g), slot_holders=holders, A=A),
                                expected="return by %d us" % g,
                                sig=dict(kind="timeout_not_honoured", runner_blocked_on_slot=runner_position(f, g) == "slot-acquire",
                                         all_slots_held_by_outliving_tasks=A is not None and len(holders) == A)))
                break
    return out


def sig_runner_blocked_on_slot(fl):
    """D5: listen() not returned although stop + 0.3 s + wait_tasks_timeout passed, AND the runner is blocked at the slot acquisition,
    AND every slot is held by a task that outlives the timeout"""
    s = fl.get("sig") or {}
    return (s.get("kind") == "timeout_not_honoured" and s.get("runner_blocked_on_slot") is True
            and s.get("all_slots_held_by_outliving_tasks") is True)


def nontrivial(sc, o):
    if "_crash" in o:
        return False
    f = R.Facts(sc, o)
    if f.t0 is None:
        return False
    running = [i for i in f.cbstart if f.cbstart[i][0] <= f.t0 and not (f.cbend.get(i) and f.cbend[i][0] <= f.t0)]
    waiting = [i for t, i in f.takes if t <= f.t0 and not (f.cbstart.get(i) and f.cbstart[i][0] <= f.t0)]
    arriving = [m for m in sc["msgs"] if f.t0 < m["at"] <= f.t0 + R.POLL]
    return bool(running) and bool(waiting or arriving)


def count_cleanup(rep, sc, o):
    """evidence: where the shutdown trigger / the return fell relative to a body that handles its cancellation slowly"""
    f = R.Facts(sc, o)
    cl = {}
    for e in f.raw:
        if e[1] == "body.cleanup":
            cl.setdefault(e[2], e[0])
    if not cl:
        return
    rep.count("scenario:with-a-body-handling-its-cancellation-slowly")
    spans = [(t, f.bodyout[i][0] if f.bodyout.get(i) else None) for i, t in cl.items()]
    if f.t0 is not None and any(a <= f.t0 and (b is None or f.t0 < b) for a, b in spans):
        rep.count("shutdown-trigger:during-a-slow-cancellation-clean-up")
    elif f.t0 is not None and any(f.t0 < a for a, b in spans):
        rep.count("shutdown-trigger:before-a-slow-cancellation-clean-up-began")
    if f.returned and any(b is not None and b + R.POLL + R.EPS >= f.ret_t >= b and (f.t0 is not None and f.t0 <= b) for a, b in spans):
        rep.count("return:within-a-poll-period-of-the-end-of-a-slow-cancellation-clean-up")


def explore(ctx, rep, scs, label):
    obss = C.run_driver(ctx, "recv_driver", scs)
    nfail = 0
    for sc, o in zip(scs, obss):
        rep.case(sc, nontrivial(sc, o))
        if "_crash" in o:
            rep.fail("driver crashed", sc, observed=o["_crash"])
            continue
        for f in oracle(sc, o):
            nfail += 1
            rep.fail(f["what"], sc, observed=f["observed"], expected=f["expected"], sig=f["sig"])
            rep.count("oracle:" + f["sig"].get("kind", "?"))
        rep.count("returned" if o["returned"] else "cut")
        R.count_inputs(rep, sc)
        rep.count("trigger:" + ("stop" if sc["stop_us"] is not None else "-") + ("+N" if sc["N"] else "") + ("+end" if sc["ends"] else ""))
        rep.count("wtt=%s" % ("set" if sc.get("wtt_us") is not None else None))
        if "_crash" not in o:
            count_cleanup(rep, sc, o)
    bad, fails = R.acceptance(ctx, rep, label, scs, obss, "C05_check")
    return bad or fails or nfail


def run(ctx):
    rep = C.Report(ctx, META)
    rep.add_obligations(C.proof_obligations("C05"))
    d5 = False
    for name, c in C.load_corpus("C05"):
        n0 = len(rep.failures)
        explore(ctx, rep, [c], "corpus:" + name)
        if name.startswith("d5_"):
            d5 = any(sig_runner_blocked_on_slot(f) for f in rep.failures[n0:])
    rep.extra["corpus_d5_runner_blocked_on_slot"] = "reproduces (known finding)" if d5 else "does not reproduce on this tree"
    r = ctx.sub_rng("gen")
    scs = [R.gen_scenario(r, PROF if i % 3 else PROF_BACKLOG) for i in range(ctx.n(450, 30000))]
    r3 = ctx.sub_rng("gen-slow-cancel")      # own stream: the scenarios above are what they were
    scs += [R.gen_slow_cancel_shutdown(r3, PROF_SLOWCANCEL) for _ in range(ctx.n(70, 4000))]
    r4 = ctx.sub_rng("gen-live")             # own stream
    scs += [R.gen_live(r4, PROF_LIVE) for _ in range(ctx.n(80, 4000))]
    broken = explore(ctx, rep, scs, "main")
    if not ctx.quick:
        broken = explore(ctx, rep, R.grid_scenarios(), "grid") or broken
        rep.extra["small_scope_grid"] = "A<=3 x P<=2 x N in {None,1,2,3} x 13 stop instants x 4 five-message patterns"
    unexplained = [f for f in rep.failures if not sig_runner_blocked_on_slot(f)]
    if (any(not o["ok"] for o in rep.obligations)) and not unexplained:
        r2 = ctx.sub_rng("search")
        explore(ctx, rep, [R.gen_scenario(r2, PROF) for _ in range(ctx.n(2000, 20000))], "search")
    return rep.finish(signatures={"runner_blocked_on_slot": sig_runner_blocked_on_slot},
                      corpus_known={"runner_blocked_on_slot": d5})


def replay(ctx, path):
    return R.replay_print(ctx, path, oracle, "C05_check")
