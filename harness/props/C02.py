"""C02 - acknowledgement happens exactly once and never before the configured point."""
import common as C
import pipeline_lib as L
import srctie

META = dict(
    id="C02",
    design_ref="DESIGN.md section 4, C02",
    technique="Coq proof over an operational Gallina model of Receiver.callback/run_task (Pipeline.v) + per-message "
              "effect-sequence correspondence with the real receiver.callback under concurrency",
    level_text="C02_exactly_once, C02_at_most_once, C02_not_before (every prefix = every crash point) and C02_concurrent "
               "(every prefix of every interleaving of any number of messages) are proved for middleware stacks of any "
               "length, any override mask, any hook behaviour, all three acknowledge types, every task outcome "
               "(return, any exception class, timeout, no-result, dependency failure) and backend failure. The model is "
               "tied to /repo on every run: 1-6 messages are processed concurrently by the real receiver.callback on a "
               "virtual-time loop, the global fine-grained log must be an interleaving of the model's per-message "
               "sequences (compared inside Coq), and the Boolean form of the statement is evaluated on every observed "
               "sequence; a Python oracle re-checks the statement at every prefix of the real log. Ack callables are plain functions, "
               "`async def`s, or plain functions returning a Future / Task / object with __await__ (the acknowledgement of the last is "
               "made only when it is awaited).",
    level_note="Scope (the reading that demands less): malformed / unknown-task messages are never acknowledged by the code "
               "and are outside the statement (C01 covers them); hook failure is outside the quantifier, but the ack "
               "position / at-most-once theorems hold with raising hooks too. 'Task function finished' for a sync function "
               "whose timeout label expired means wait_for gave up (the thread cannot be interrupted). Trusted: Coq kernel "
               "+ vm_compute, the recorders in harness/drivers/pipeline_driver.py, asyncio task-step atomicity.",
    rule="case = 1-6 concurrent messages x ack type x ackable(sync/async/none) x outcome x stack; non-trivial iff some "
         "ackable well-formed message has an outcome other than plain return, or a failing backend, or runs concurrently "
         "with another message; distinct by canonical case",
    trusted_base=["model: coq/theories/Pipeline.v (hand-written transcription of Receiver.callback / run_task)",
                  "recorders and shims of harness/drivers/pipeline_driver.py (time() marks, base-class hook loggers)",
                  "asyncio.wait_for / thread-pool behaviour as modelled by body_run (exercised, not verified)"],
    assumptions=["an ack callback that itself raises is outside the property",
                 "duration = timeout (timer tie, c_tie) is an environment choice in the theorems and is not generated; the "
                 "thread race of a sync body under timeout <= 0 (c_race) is exercised through scripted eager / lazy executors"],
)


def nontrivial(case):
    for M in case["msgs"]:
        if M["kind"] == "ok" and M["ackable"] != "none" and ("raise" in M["out"] or not M.get("save_ok", True)
                                                             or len(case["msgs"]) > 1):
            return True
    return False


ORACLES = [L.oracle_c02]


def run(ctx):
    rep = C.Report(ctx, META)
    rep.add_obligations(C.proof_obligations("C02"))
    # source tie: Receiver.callback re-translated from the source text; srcproofs/Src_callback_*.v re-checked against it
    src_obs, src_info = srctie.obligations(ctx, "callback", "C02")
    rep.add_obligations(src_obs)
    rep.extra["source_tie"] = src_info
    L.explore(ctx, rep, "C02", L.load_corpus_cases("C02"), "corpus", ORACLES, nontrivial)
    r = ctx.sub_rng("gen")
    broken = L.explore(ctx, rep, "C02", [L.gen_recv(r, "c02") for _ in range(ctx.n(900, 20000))], "main", ORACLES,
                       nontrivial)
    if (broken or any(not o["ok"] for o in rep.obligations)) and not rep.failures:
        r2 = ctx.sub_rng("search")
        L.explore(ctx, rep, "C02", [L.gen_recv(r2, "c02") for _ in range(ctx.n(5000, 60000))], "search", ORACLES,
                  nontrivial)
    return L.finish(rep, "C02")


def replay(ctx, path):
    return L.replay(ctx, path, ORACLES)
