"""C02 - acknowledgement happens exactly once and never before the configured point."""
import json
import os
import random
import zlib

import common as C
import pipeline_lib as L
import recv_props as R
import srctie
from cli_args import add_harmless

META = dict(
    id="C02",
    design_ref="DESIGN.md section 4, C02",
    technique="Coq proof over an operational Gallina model of Receiver.callback/run_task (Pipeline.v) + per-message "
              "effect-sequence correspondence with the real receiver.callback under concurrency",
    level_text="C02_exactly_once, C02_at_most_once, C02_not_before (every prefix = every crash point) and C02_concurrent "
               "(every prefix of every interleaving of any number of messages) are proved for middleware stacks of any "
               "length, any override mask, any hook behaviour, all three acknowledge types, every task outcome "
               "(return, any exception class, timeout, no-result, dependency failure) and backend failure. The model is "
               "tied to /repo on every run: 1-6 messages are processed concurrently by the real receiver.callback on a "
               "virtual-time loop, the global fine-grained log must be an interleaving of the model's per-message "
               "sequences (compared inside Coq), and the Boolean form of the statement is evaluated on every observed "
               "sequence; a Python oracle re-checks the statement at every prefix of the real log. Ack callables are plain functions, "
               "`async def`s, or plain functions returning a Future / Task / object with __await__ (the acknowledgement of the last is "
               "made only when it is awaited). In a fifth of these cases the task functions take ARGUMENTS from the message: 1-3 "
               "parameters annotated with what Python's typing offers (plain classes, generic aliases, Optional / Union, TypedDict "
               "classes, Protocols, NewType, Literal, Annotated, pydantic models / dataclasses / enums, classes without a schema, "
               "classes whose metaclass defines __instancecheck__ - also one that raises -, forward-reference strings, `from "
               "__future__ import annotations`), passed positionally / by keyword / through *rest / not at all, with values of the "
               "type, convertible, not convertible or null, validation on or off (--no-parse). In a seventh of these cases the stack holds the "
               "SimpleRetryMiddleware taskiq ships (any position, its three options varied, also as an application subclass) next to "
               "the recording middlewares, the failing tasks' retry-control labels (retry_on_error, max_retries, _retries) arriving as "
               "bool / int / float / str or not at all, typed through labels_types or not, its re-send going through the real kicker "
               "into the scripted broker: whatever the hook does, exactly one acknowledgement at the configured point. Second family (implementation only, no model): whole runs of the real "
               "Receiver.listen() - prefetcher, hand-over queue, runner, one callback task per message - on saturating "
               "lock-step backlogs (several slots free at once, the runner dispatches several queued messages in one step), "
               "stop requests, budgets, with the statement re-checked over the raw log of the ack callables, task bodies "
               "and result backend: no ack callable called twice, none before its configured point, every ackable valid "
               "message whose processing is complete acknowledged exactly once. Third family (implementation only): the real "
               "taskiq.api.run_receiver_task runs as a task of an embedding application that cancels it while sync task functions "
               "(taking virtual time) run in / wait queued inside a pool with fewer threads than sync tasks in flight, and goes on "
               "running its loop: the same oracle over what the callbacks left behind do; an ack call under when_executed for a "
               "function that never started (and did not time out) is a violation. In ~10 percent of the listen scenarios a task is "
               "registered WHILE listen() runs (through async_shared_broker or on the worker's broker) after 1-2 messages naming it "
               "have already arrived (those: no claim); the messages naming it that arrive strictly after the registration are "
               "ordinary members of the quantifier. Part of the command-line listen scenarios is "
               "run by the real start_listen on the loop it creates.",
    level_note="Scope (the reading that demands less): malformed / unknown-task messages are never acknowledged by the code "
               "and are outside the statement (C01 covers them); hook failure is outside the quantifier, but the ack "
               "position / at-most-once theorems hold with raising hooks too. 'Task function finished' for a sync function "
               "whose timeout label expired means wait_for gave up (the thread cannot be interrupted). Trusted: Coq kernel "
               "+ vm_compute, the recorders in harness/drivers/pipeline_driver.py, asyncio task-step atomicity.",
    rule="case = 1-6 concurrent messages x ack type x ackable(sync/async/none) x outcome x stack; non-trivial iff some "
         "ackable well-formed message has an outcome other than plain return, or a failing backend, or runs concurrently "
         "with another message; distinct by canonical case. Second family: case = receiver scenario (harness/recv_props.py) run through "
         "listen(); non-trivial iff finite max_async_tasks and >= 2 ackable valid messages without failing hooks. Third family: case = "
         "scenario of recv_props.gen_live_cancel (run_receiver_task cancelled at an instant / relative to a body entry or callback "
         "start, sync_workers 1..3, sync functions with durations); non-trivial iff >= 2 ackable valid messages without failing hooks",
    trusted_base=["model: coq/theories/Pipeline.v (hand-written transcription of Receiver.callback / run_task)",
                  "recorders and shims of harness/drivers/pipeline_driver.py (time() marks, base-class hook loggers)",
                  "asyncio.wait_for / thread-pool behaviour as modelled by body_run (exercised, not verified)"],
    assumptions=["an ack callback that itself raises is outside the property",
                 "KNOWN FINDING D16 sync_function_submitted_after_pool_shutdown: run_receiver_task cancelled by its application while "
                 "the callback of a sync-function message is still suspended before it hands the function to the pool - the message "
                 "is acknowledged with the shut-down executor's RuntimeError as its result (corpus/C02/known/)",
                 "duration = timeout (timer tie, c_tie) is an environment choice in the theorems and is not generated; the "
                 "thread race of a sync body under timeout <= 0 (c_race) is exercised through scripted eager / lazy executors"],
)


def nontrivial(case):
    for M in case["msgs"]:
        if M["kind"] == "ok" and M["ackable"] != "none" and ("raise" in M["out"] or not M.get("save_ok", True)
                                                             or len(case["msgs"]) > 1):
            return True
    return False


ORACLES = [L.oracle_c02]


# ------------------------------------------------------------------------------------------------------------------
# Second family: the statement over whole worker runs.  The real Receiver.listen() (prefetcher, hand-over queue, runner,
# one callback task per message) is driven by harness/drivers/recv_driver.py on scenarios of harness/recv_props.py; the
# oracle reads nothing but the raw log of the ack callables / task bodies / result backend the scripted broker supplied.
# (Family one calls receiver.callback itself, one asyncio task per message: whatever the runner does between taking a
# message from the queue and its callback - which message object a callback task gets - is invisible there.)
PROF_LISTEN = dict(limited_only=True, backlog=True, A_choices=[1, 2, 2, 3, 3, 4], P_choices=[0, 1, 2, 2, 2, 3, 3, 4], equal_p=.5, stop_p=.3, n_p=.15, ends_p=.15,
                   wtt_p=.1, slowcancel=.1, aw_p=.15, outage_p=.08, wire_p=.1, early_p=.1)
# an application embeds the receiver (run_receiver_task) and cancels that task while sync functions wait in a small pool
# (recv_props.gen_live_cancel)
PROF_CANCEL = dict(stop_p=.12, n_p=.08, ends_p=.1, wtt_p=.08, slowcancel=.05, aw_p=.12, outage_p=.05, wire_p=.1)
# early_p: 1-2 messages name a task BEFORE it is registered (no claim about them), the task is registered while listen() runs, later
# messages naming it are ordinary members of the quantifier (recv_props.decorate_early)
PROF_LISTEN_MIX = dict(equal_p=.3, stop_p=.4, n_p=.25, ends_p=.2, wtt_p=.15, aw_p=.15, wire_p=.1, early_p=.15)


in_quantifier = R.ack_in_quantifier


def oracle_listen(sc, obs):
    """C02 over the raw log of one listen() run (positions = indices of the one global log, so every prefix of the log is
    a crash point):
      never twice   - no ack callable is invoked more than once (any message);
      not before    - when_received: the task function does not start before the ack callable was invoked;
                      when_executed: the ack callable is not invoked before the task function has finished: its body has
                      really ended (body.out), or its timeout label has expired (entry instant + timeout);
                      when_saved (the default): not before the attempt to store the result has completed (save.end of an
                      attempt that is made at any time in the run), or - no attempt at all (no-result outcome) - not before
                      the task function has finished;
      exactly once  - a message of the quantifier whose processing is complete (its callback has ended) has exactly one
                      COMPLETED acknowledgement by then; when listen() has returned after draining (no wait_tasks_timeout)
                      every such message that was taken from the broker has exactly one."""
    out = []
    f = R.Facts(sc, obs)
    msgs = sc["msgs"]
    at = sc.get("ack_type") or "when_saved"
    pos = {}
    for k, e in enumerate(f.raw):
        if e[1] in ("ack", "ack.end", "body.in", "body.out", "save", "save.end", "cb.end"):
            pos.setdefault((e[1], e[2]), []).append(k)
    ret_k = next((k for k, e in enumerate(f.raw) if e[1] == "RETURN"), None)
    for i, m in enumerate(msgs):
        acks = pos.get(("ack", i), [])
        sig = dict(msg=i, ack_type=at)
        if len(acks) > 1:
            out.append(dict(what="C02/listen: the acknowledge callback of one message was called %d times" % len(acks),
                            observed=dict(msg=i, ack_calls_at_us=f.acks.get(i), never_acknowledged=[
                                j for j, x in enumerate(msgs) if in_quantifier(x) and j in f.take_t and not f.acks.get(j)]),
                            expected="exactly one call", sig=dict(sig, kind="twice")))
            continue
        if m["kind"] != "ok" or m.get("ack", "none") == "none":
            continue
        if m.get("early"):
            # it arrived before the task it names was registered (recv_props.decorate_early): skipped like an unknown-task message
            # or - its callback started after the registration - processed like a valid one; no claim either way
            continue
        bin_, bout = pos.get(("body.in", i), []), pos.get(("body.out", i), [])
        if at == "when_received":
            if bin_ and not (acks and acks[0] < bin_[0]):
                out.append(dict(what="C02/listen: when_received - the task function started before the acknowledgement",
                                observed=dict(msg=i), expected="ack call before body entry", sig=dict(sig, kind="received")))
        elif acks:
            a = acks[0]
            tl = m.get("tlabel_us")
            # the task function has finished: its body has really ended; or its timeout label has expired (counted from the
            # body entry; a function that was still waiting for a pool thread when its label expired has "timed out" as well);
            # or the message never gets as far as its function for a reason that is the pipeline's business (a failing
            # pre_execute hook: C10).  A function that never STARTED - and was not timed out - has not finished.
            if bin_:
                executed = any(k < a for k in bout) or (tl is not None and tl < m["dur"] and f.raw[a][0] >= f.raw[bin_[0]][0] + tl)
            else:
                executed = tl is not None or not f.must_run(i)
            if at == "when_executed":
                if not executed:
                    out.append(dict(what="C02/listen: when_executed - acknowledged before the task function finished" if bin_ else
                                    "C02/listen: when_executed - acknowledged although the task function had not even started",
                                    observed=dict(msg=i, ack_at_us=f.raw[a][0], function_entered_at_us=f.bodyin.get(i),
                                                  worker_task_cancelled_at_us=f.cancel_t),
                                    expected="ack call after the body ended / timed out",
                                    sig=dict(sig, kind="executed", d16=R.d16_facts(sc, f, i, f.raw[a][0]))))
            else:
                saves, send = pos.get(("save", i), []), pos.get(("save.end", i), [])
                ok = any(k < a for k in send) if saves else executed
                if not ok:
                    out.append(dict(what="C02/listen: when_saved - acknowledged before the save attempt completed / was skipped",
                                    observed=dict(msg=i, ack_at_us=f.raw[a][0], save_attempts_at_us=f.save.get(i)),
                                    expected="ack call after save.end (or after the body when nothing is saved)",
                                    sig=dict(sig, kind="saved")))
        if not in_quantifier(m):
            continue
        ce = pos.get(("cb.end", i), [])
        done = [k for k in pos.get(("ack.end", i), [])]
        if ce and len([k for k in done if k < ce[0]]) != 1:
            out.append(dict(what="C02/listen: processing of an ackable message is complete but it is not acknowledged exactly once",
                            observed=dict(msg=i, acks_completed=len([k for k in done if k < ce[0]]), ack_calls=len(acks)),
                            expected=1, sig=dict(sig, kind="once")))
        elif not ce and ret_k is not None and sc.get("wtt_us") is None and i in f.take_t and \
                len([k for k in done if k < ret_k]) != 1:
            out.append(dict(what="C02/listen: listen() returned after draining but a message taken from the broker was never acknowledged",
                            observed=dict(msg=i, acks_completed=len([k for k in done if k < ret_k]), callback_started=bool(f.cbstart.get(i))),
                            expected=1, sig=dict(sig, kind="once")))
    return out


def back_to_back(obs):
    """number of times the runner dispatched two queued messages in one task step (nothing but its own slot acquisition,
    permit release and queue read between two task creations)"""
    n, own = 0, False
    for e in obs["raw"]:
        if e[1] == "spawn":
            if own:
                n += 1
            own = True
        elif not (e[1] == "q.get" or (e[1] in ("sem.acq", "semp.rel") and e[2] == "rn")):
            own = False
    return n


def nontrivial_listen(sc):
    if R.is_live(sc):
        return sum(1 for m in sc["msgs"] if in_quantifier(m)) >= 2
    return R.limited(sc) and sum(1 for m in sc["msgs"] if in_quantifier(m)) >= 2


def explore_listen(ctx, rep, scs, label):
    obss = C.run_driver(ctx, "recv_driver", scs)
    for sc, o in zip(scs, obss):
        rep.case(sc, nontrivial_listen(sc))
        if "_crash" in o:
            rep.fail("driver crashed", sc, observed=o["_crash"])
            continue
        for f in oracle_listen(sc, o):
            rep.fail(f["what"], sc, observed=f["observed"], expected=f["expected"], sig=f["sig"])
        R.count_inputs(rep, sc)
        R.count_early(rep, sc, o)
        if R.is_live(sc):
            R.count_live(rep, sc, o)
        rep.count("listen:ack_type=%s" % sc.get("ack_type"))
        rep.count("listen:max_prefetch%s" % (">=1" if sc["P"] else "=0"))
        rep.count("listen:config=" + ("run_receiver_task-running-for-real" if R.is_live(sc) else "command-line" if sc.get("cli") is not None else "run_receiver_task" if sc.get("api") is not None
                                      else "direct"))
        b = back_to_back(o)
        rep.count("listen:runner-dispatched-two-messages-in-one-step:%s" % ("never" if not b else "1-2" if b < 3 else "3+"))
        fx = R.Facts(sc, o)
        for i, m in enumerate(sc["msgs"]):
            if in_quantifier(m) and fx.cbend.get(i):
                rep.count("listen:ackable-message-processed:%s/%s" % (sc.get("ack_type") or "default", (
                    "timeout" if m.get("tlabel_us") is not None and m["tlabel_us"] < m["dur"] else m["out"]) +
                    ("/save-fails" if m.get("save_fail") else "")))
        rep.count("listen:" + ("returned" if o["returned"] else "cut"))
        rep.traces += 1


def with_worker_options(case):
    """family one, command-line cases: further worker options that do not configure the Receiver are mixed into the argv
    (own generator seeded with a hash of the case: the case stream itself is what it was)"""
    if case.get("cli") is not None:
        rr = random.Random(zlib.crc32(json.dumps(case, sort_keys=True).encode()) ^ 0xC0F16)
        if rr.random() < .5:
            case["cli"], _ = add_harmless(case["cli"], rr)
            case["cli_more"] = True
    return case


def run(ctx):
    rep = C.Report(ctx, META)
    rep.add_obligations(C.proof_obligations("C02"))
    # source tie: Receiver.callback re-translated from the source text; srcproofs/Src_callback_*.v re-checked against it
    src_obs, src_info = srctie.obligations(ctx, "callback", "C02")
    rep.add_obligations(src_obs)
    rep.extra["source_tie"] = src_info
    L.explore(ctx, rep, "C02", [c for c in L.load_corpus_cases("C02") if not is_listen_case(c)], "corpus", ORACLES, nontrivial)
    r = ctx.sub_rng("gen")
    cases = [with_worker_options(L.gen_recv(r, "c02")) for _ in range(ctx.n(900, 20000))]
    rep.extra["command_line_cases_with_further_worker_options"] = sum(1 for c in cases if c.get("cli_more"))
    broken = L.explore(ctx, rep, "C02", cases, "main", ORACLES, nontrivial)
    # second family: whole listen() runs (own random stream)
    rl = ctx.sub_rng("gen-listen")
    lcorp = [c for _, c in C.load_corpus("C02") if is_listen_case(c)]
    if lcorp:
        explore_listen(ctx, rep, [c["case"] if "case" in c else c for c in lcorp], "corpus:listen")
    explore_listen(ctx, rep, [R.gen_scenario(rl, PROF_LISTEN if i % 4 else PROF_LISTEN_MIX) for i in range(ctx.n(260, 12000))], "listen")
    # third family (own random stream): run_receiver_task running for real, cancelled by the application that embeds it while
    # sync functions wait in a pool with fewer threads than sync tasks in flight
    rc = ctx.sub_rng("gen-cancel")
    explore_listen(ctx, rep, [R.gen_live_cancel(rc, PROF_CANCEL) for _ in range(ctx.n(70, 3000))], "listen-cancel")
    if (broken or any(not o["ok"] for o in rep.obligations)) and not rep.failures:
        r2 = ctx.sub_rng("search")
        L.explore(ctx, rep, "C02", [L.gen_recv(r2, "c02") for _ in range(ctx.n(5000, 60000))], "search", ORACLES,
                  nontrivial)
    d16 = known_d16(ctx, rep)
    rep.extra["known_finding_D16_hits_this_run"] = sum(1 for f in rep.failures if R.sig_d16(f))
    return rep.finish({L.D10_SIG: lambda f: bool(f["sig"].get("d10")), R.SIG_D16: R.sig_d16}, {R.SIG_D16: d16})


def known_d16(ctx, rep):
    """known finding D16 (known_findings.json, signature sync_function_submitted_after_pool_shutdown): its replays under
    corpus/C02/known run on every check through the driver and the direct oracle (no model: run_receiver_task's life cycle).
    True iff the finding reproduced on this tree WITH its signature; otherwise rep.extra says the entry is stale."""
    d = os.path.join(C.VERIF, "corpus", "C02", "known")
    files = sorted(f for f in os.listdir(d) if f.endswith(".json")) if os.path.isdir(d) else []
    cases = []
    for f in files:
        rec = json.load(open(os.path.join(d, f)))
        cases.append(rec["case"] if "case" in rec else rec)
    hit = False
    for f, sc, o in zip(files, cases, C.run_driver(ctx, "recv_driver", cases) if cases else []):
        rep.case(sc, True)
        rep.count("known-finding-replay:" + f[:-5])
        if "_crash" in o:
            rep.fail("driver crashed", sc, observed=o["_crash"], sig=dict(kind="crash"))
            continue
        for fl in oracle_listen(sc, o):
            hit = hit or R.sig_d16(fl)
            rep.fail(fl["what"], sc, observed=fl["observed"], expected=fl["expected"], sig=fl["sig"])
    rep.extra["corpus_d16_sync_function_submitted_after_pool_shutdown"] = \
        "reproduces (known finding)" if hit else "does NOT reproduce on this tree: the known_findings.json entry is stale"
    if files and not hit:
        print("NOTE: property=C02 known finding %s no longer reproduces from corpus/C02/known - its known_findings.json entry is stale" % R.SIG_D16)
    return hit


def is_listen_case(rec):
    c = rec["case"] if "case" in rec else rec
    return "horizon_us" in c


def replay(ctx, path):
    if is_listen_case(json.load(open(path))):
        def oracle_noting(sc, obs):
            fl = oracle_listen(sc, obs)
            for f in fl:
                if R.sig_d16(f):
                    f["what"] += "  [recorded as known finding %s in known_findings.json]" % R.SIG_D16
            return fl

        return R.replay_print(ctx, path, oracle_noting, "C01_check")
    return L.replay(ctx, path, ORACLES)
