"""C04 - prefetch is bounded: at most A + P + 1 unfinished messages per worker."""
import common as C
import recv_props as R

META = dict(
    id="C04",
    design_ref="DESIGN.md section 4, RecvLTS.v and C04",
    technique="Coq proof (inductive invariants of a labelled transition system, lia) + trace acceptance of real "
              "Receiver.listen() runs captured by logging shims under a virtual-time event loop",
    level_text="Theorem C04_bound: for every configuration (any A > 0, any P, any N, any wait_tasks_timeout) and every event "
               "sequence accepted by the receiver LTS (coq/theories/RecvLTS.v; one transition = one asyncio task step of "
               "prefetcher / runner, or one environment step), look-ahead + hand-over queue + live callback tasks <= A + P + 1; "
               "proved from two conservation laws (C04_slots_conserved, C04_permits_conserved) by induction over the trace; "
               "C04_tight reaches the bound. The LTS is tied to /repo on every run: the real Receiver.listen() is run on "
               "saturating backlogs, every semaphore / queue / wait / task-creation call is logged by shims, and the event "
               "sequence must be accepted by the model's `run` inside Coq together with the Boolean form of the bound in every "
               "visited state; the bound is also checked directly on the implementation's log (#yields - #finished callbacks).",
    level_note="Proof is about the model; model = code is established by trace acceptance on generated schedules (a sample). "
               "Trusted: Coq kernel + vm_compute, the shims and the raw-log -> event grouping (harness/shims.py to_lts, "
               "fail-closed), asyncio's task-step atomicity, the virtual-time loop. In the model 'unfinished' counts a message from the "
               "broker's yield until its callback task's done-callback has run (slightly more than the statement asks); in the "
               "oracle a message is unfinished from the broker's yield until its last observable processing event: the end of its "
               "callback, or - if later - the completion of its acknowledgement, the end of every task created while its callback "
               "ran, any later save / ack / hook event of that message. The "
               "statement's A in 1..4, P in 0..4 is proved for all A > 0 and all P.",
    rule="case = receiver scenario (A, P, N, wait_tasks_timeout, stop instant, messages with arrival / kind / duration / outcome / "
         "hook and result-backend failures incl. an outage over consecutive messages / acknowledgements that take time; the worker "
         "configured directly, through the real command line (with further worker options such as the sync-pool size mixed in) or "
         "through the real run_receiver_task); Further family (own random stream): the REAL taskiq.api.run_receiver_task coroutine runs for the whole scenario over a scripted listen() that raises 0..3 times (ConnectionError, RuntimeError, TimeoutError, OSError, EOFError, a client's own class, a falsy exception object, an ExceptionGroup, BrokerError) as the first thing a session does / right after taking a message / while tasks are in flight / while idle, the remaining messages going to the re-started listening; N and wait_tasks_timeout set by the receiver class handed to it, stop = the finish event it gave to listen(); decided by the direct oracles only, every listen() session held to the statement by its own messages; "
         "further family (recv_props.gen_relisten): ONE Receiver object listens again after listen() failed, mostly while every slot "
         "was busy - one count over all its sessions (what went down with a failed session's hand-over queue stops counting when the "
         "next session begins); "
         "non-trivial iff finite A, backlog >= A+P+3 arriving within a burst shorter than the tasks (the worker saturates); "
         "distinct by canonical scenario",
    trusted_base=["model: coq/theories/RecvLTS.v (hand-written LTS of prefetcher / runner / look-ahead / hand-over queue)",
                  "logging shims + raw log -> LTS event grouping: harness/shims.py; virtual-time loop harness/vloop.py",
                  "asyncio semantics assumed by the model: a task step is atomic; Semaphore / Queue / wait as documented"],
    assumptions=["the broker's listen() generator takes a message only at its yield (scripted broker)",
                 "in the proofs the broker generator raises nothing but StopAsyncIteration; runs under run_receiver_task with a failing "
                 "listen() are oracle-checked only, with 'a worker' read as one listening session (the reading that demands less): "
                 "what a failed session left unfinished is not counted against the session that replaced it"],
)
PROF = dict(limited_only=True, backlog=True, stop_p=.2, n_p=.15, ends_p=.1, wtt_p=.2, outage_p=.12, aw_p=.1)
PROF_MIX = dict(limited_only=True, stop_p=.3, n_p=.25)
# run_receiver_task running for the whole scenario over a listen() that fails 0..3 times (recv_props.gen_live)
PROF_LIVE = dict(limited_only=True, backlog=True, stop_p=.1, n_p=.05, ends_p=.05, wtt_p=.1, outage_p=.05, aw_p=.05, reg_p=.05)
# ... the connection drops while the first tasks of a long backlog of valid, slow messages are running
PROF_LIVE_SAT = dict(limited_only=True, backlog=True, backlog_extra=6, faults=False, live_early=.7, stop_p=.05, n_p=0, ends_p=.05, wtt_p=.05,
                     outage_p=0, aw_p=.03, A_choices=[1, 2, 2, 3, 3, 4], P_choices=[0, 0, 1, 1, 2, 3])
# one Receiver object that listens again after listen() failed, mostly with every slot busy (recv_props.gen_relisten, mode fault
# only: the exit of a prefetcher that was stopped hands one prefetch permit too many to a next session - a second listen() after a
# graceful stop is not promised the bound)
PROF_RELISTEN = dict(faults=False, outage_p=.05, aw_p=.05, relisten_any_p=.15, relisten_stop_p=0)


# a NEW Receiver with its own (max_async_tasks, max_prefetch) per listening session on one broker object (recv_props.gen_rebuild)
PROF_REBUILD = dict(faults=False, outage_p=.03, aw_p=.03, ends_p=.2)


PROC_TAGS = ("cb.start", "cb.end", "hook.pre", "hook.post", "hook.post_save", "hook.on_error", "hook.aw", "hook.aw.end", "body.in",
             "body.cleanup", "body.out", "save", "save.end", "ack", "ack.end", "bg.new", "bg.done")


def oracle(sc, obs):
    """literal statement: with finite A and P, (#messages taken from the broker - #finished processing) <= A+P+1 at every instant.
    A message has finished processing at its LAST observable processing event, which is no earlier than the end of its
    callback: if an acknowledgement that was begun completes later, a task created while its callback ran is still
    running, or a save / ack / hook of that message is logged later, the message was not finished before that.  It never
    finishes within the observation if its callback has not ended, an acknowledgement that was begun has not completed, or
    a task created for it is still alive at the end of the log."""
    out = []
    if not R.limited(sc):
        return out
    f = R.Facts(sc, obs)
    if f.limit_only:
        return out          # (one Receiver object listening again after a graceful stop: no claim, see PROF_RELISTEN)
    # (a new Receiver with its own configuration per session, recv_props.gen_rebuild: every session is held to the bound of the
    # Receiver that listens in it; otherwise the scenario has one configuration)
    def bound_of(key):
        a, p = R.session_cfg(sc, key)
        return a + p + 1

    last, cbended, pending = {}, set(), {}
    for k, e in enumerate(f.raw):
        if e[1] in PROC_TAGS:
            last[e[2]] = k
            if e[1] == "cb.end":
                cbended.add(e[2])
            elif e[1] in ("ack", "hook.aw", "bg.new"):
                pending[e[2]] = pending.get(e[2], 0) + 1
            elif e[1] in ("ack.end", "hook.aw.end", "bg.done"):
                pending[e[2]] = pending.get(e[2], 0) - 1
    fin_at = {}
    for i in cbended:
        if not pending.get(i):
            fin_at.setdefault(last[i], []).append(i)
    # Under run_receiver_task (sc["live"]) "a worker" is read as one listening session (the reading that demands less): the count
    # is kept per session - messages a failed session left unfinished (still running, or dropped with its hand-over queue) are
    # not counted against the session that replaced it.  In an ordinary run there is one session.
    # ONE Receiver object that listens several times (recv_props.gen_relisten) is one worker over all its sessions: one count -
    # what an earlier session left running counts on; what went down with a failed session's hand-over queue (taken, never handed
    # to a callback) stops counting when the next session begins.
    wkey = (lambda i: 0) if f.same_rcv else f.session_of
    unfin, peak, over, bound = {}, 0, None, bound_of(0)
    when = None
    late = []
    for k, e in enumerate(f.raw):
        if e[1] == "TAKE":
            unfin[wkey(e[2])] = unfin.get(wkey(e[2]), 0) + 1
        elif e[1] == "SESSION" and f.same_rcv:
            unfin[0] = unfin.get(0, 0) - sum(1 for i in f.dropped if f.sess[i] == e[2] - 1)
        for i in fin_at.get(k, []):
            unfin[wkey(i)] = unfin.get(wkey(i), 0) - 1
            if e[1] != "cb.end":
                late.append(i)
        for key, n in unfin.items():
            if over is None or n - bound_of(key) > over:
                over, peak, bound, when = n - bound_of(key), n, bound_of(key), e[0]
                worst = key
    if over is not None and over > 0:
        out.append(dict(what="more than A+P+1 messages taken from the broker and not yet finished",
                        observed=dict(peak=peak, at_us=when, listening_session=worst, finished_after_their_callback_ended=late[:12],
                                      never_finished_after_callback_end=sorted(i for i in cbended if pending.get(i))[:12]),
                        expected="<= %d" % bound, sig=dict(kind="bound")))
    obs["_peak"] = peak
    obs["_over"] = over if over is not None else -bound
    obs["_late"] = len(late)
    return out


def nontrivial(sc):
    if not R.limited(sc):
        return False
    need = sc["A"] + sc["P"] + 3
    ms = sc["msgs"]
    if len(ms) < need:
        return False
    span = ms[need - 1]["at"] - ms[0]["at"]
    return sum(1 for m in ms[:need] if m["kind"] == "ok" and (m["dur"] < 0 or m["dur"] > span)) >= sc["A"]


def explore(ctx, rep, scs, label):
    obss = C.run_driver(ctx, "recv_driver", scs)
    for sc, o in zip(scs, obss):
        rep.case(sc, nontrivial(sc))
        if "_crash" in o:
            rep.fail("driver crashed", sc, observed=o["_crash"])
            continue
        for f in oracle(sc, o):
            rep.fail(f["what"], sc, observed=f["observed"], expected=f["expected"], sig=f["sig"])
        if R.limited(sc):
            rep.count("peak-bound:%d" % o["_over"])
            if o.get("_late"):
                rep.count("scenario:with-message-finished-after-its-callback-ended")     # never on the unchanged code
        R.count_inputs(rep, sc)
        nsf = sum(1 for m in sc["msgs"] if m.get("save_fail"))
        rep.count("save-failures-in-scenario:%s%s" % (min(nsf, 4), "+" if nsf >= 4 else ""))
        rep.count("A=%s" % sc["A"])
        rep.count("P=%s" % sc["P"])
        rep.count("returned" if o["returned"] else "cut")
    bad, fails = R.acceptance(ctx, rep, label, scs, obss, "C04_check")
    return bad or fails


def run(ctx):
    rep = C.Report(ctx, META)
    rep.add_obligations(C.proof_obligations("C04"))
    corp = [c for _, c in C.load_corpus("C04")]
    if corp:
        explore(ctx, rep, corp, "corpus")
    r = ctx.sub_rng("gen")
    n = ctx.n(400, 30000)
    scs = [R.gen_scenario(r, PROF if i % 4 else PROF_MIX) for i in range(n)]
    r4 = ctx.sub_rng("gen-live")             # own stream: the scenarios above are what they were
    scs += [R.gen_live(r4, PROF_LIVE_SAT if i % 2 else PROF_LIVE) for i in range(ctx.n(80, 4000))]
    r6 = ctx.sub_rng("gen-relisten")         # own stream: ONE Receiver object over several listen() sessions
    scs += [R.gen_relisten(r6, PROF_RELISTEN) for _ in range(ctx.n(30, 1500))]
    r7 = ctx.sub_rng("gen-rebuild")          # own stream: a new Receiver with another configuration per session, one broker object
    scs += [R.gen_rebuild(r7, PROF_REBUILD) for _ in range(ctx.n(40, 2000))]
    broken = explore(ctx, rep, scs, "main")
    if not ctx.quick:
        broken = explore(ctx, rep, R.grid_scenarios(), "grid") or broken
        rep.extra["small_scope_grid"] = "A<=3 x P<=2 x N in {None,1,2,3} x 13 stop instants x 4 five-message patterns"
    if (broken or any(not o["ok"] for o in rep.obligations)) and not rep.failures:
        r2 = ctx.sub_rng("search")
        explore(ctx, rep, [R.gen_scenario(r2, PROF) for _ in range(ctx.n(2000, 20000))], "search")
    return rep.finish()


def replay(ctx, path):
    return R.replay_print(ctx, path, oracle, "C04_check")
