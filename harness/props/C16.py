"""C16 - scheduled sends carry the schedule's payload and honour source callbacks; the label based source lists
exactly the declared cron/time entries of its own broker's tasks and removes one entry per fired one-shot."""
import json

import common as C
import srctie

META = dict(
    id="C16",
    design_ref="DESIGN.md section 4, C16",
    technique="Coq proof (induction over registries, entry lists and firing sequences) over a Gallina transcription of "
              "TaskiqScheduler.on_ready / AsyncKicker message preparation / LabelScheduleSource + differential "
              "correspondence with the real classes",
    level_text="Theorems C16_cancel, C16_payload, C16_listing, C16_remove_one, C16_remove_one_any_order (every registry, every entry list with duplicates "
               "and equal times, every firing sequence) hold for the model coq/theories/SchedSource.v; the model is tied to "
               "/repo on every run by evaluating it in Coq (vm_compute) on the same schedules / registries / histories the real "
               "on_ready, get_schedules and post_send just ran on (listing, registry state after every step incl. the in-place "
               "label merge, kicked message, callback order), and the Boolean form of the statement is evaluated on every "
               "implementation observation.",
    level_note="Readings taken (the ones demanding less): 'one entry with that time' = any entry of that task whose time equals "
               "the fired time (it may be a cron+time entry); invalid entries = entries with neither a cron nor a time key (an "
               "entry whose keys are present but both None makes ScheduledTask raise and the whole listing fail - modelled, "
               "excluded from the statement, reported as an observation); the labels of a listed schedule are the entry's "
               "labels updated with the task's (the task wins) - not part of the statement, modelled as the code does it. "
               "A task is the source's broker's own iff it was declared on that broker object; a task declared through a "
               "shared broker (async_shared_broker.task) is foreign whatever default_broker() says - sends of shared tasks "
               "go through the default broker, their schedule labels do not become that broker's. "
               "Broker middlewares are not in the model (C10). prepare_label is a Section variable (C09). "
               "'With the schedule's labels': labels whose declared value is a bool / int / float / str / bytes arrive (after the "
               "worker's parse_labels) with that value and that type; a value of any other type travels as text and only has to be "
               "the text prepare_label gives for that value in a process that has sent nothing before - whatever was sent earlier in "
               "the process must not show in a later scheduled message. "
               "'The schedule's arguments' of a sent message = what the broker's own formatter decodes from it, compared with the "
               "JSON form of the schedule's args / kwargs (pydantic's mode='json', asked of pydantic directly; the identity on "
               "None / bool / int / float / str / list / dict); the order in which a set is written out is not demanded; with a "
               "serializer that carries Python objects (pickle) the values themselves arriving is accepted as well.",
    rule="case = on_ready scenario (payload, callback kinds, outcomes), history of 2-5 sends in one process (on_ready firings and "
         "unscheduled kiq sends on one or two brokers, label values drawn from pools of hash-equal values of different types: "
         "True / 1 / 1.0 / Decimal / Fraction / IntEnum member, 0.0 / -0.0, str / bytes of one text, equally spelled values) "
         "or label-source history (global+local registries "
         "with foreign tasks of another broker object / of a shared broker before and after default_broker() / hidden in "
         "another broker's local registry, listing/firing operations); non-trivial iff >= 2 entries share a task or a time, or a callback cancels / raises / "
         "is not a plain sync def (async def, or a def returning a Future / Task / __await__ object / gather / shield / "
         "executor future / generator-based coroutine), or a history has >= 2 firings, or args / kwargs hold a value that is not a JSON native (date, UUID, "
         "enum member, Decimal, set, bytes, nested model / dataclass ...); distinct by canonical JSON of the case; every case runs in "
         "a process image of its own (forked from the freshly imported driver), so a case is its own replay",
    trusted_base=["model: coq/theories/SchedSource.v (hand-written transcription of scheduler.py, kicker.py message preparation, "
                  "label_based.py, AsyncBroker.get_all_tasks)",
                  "taskiq.labels.prepare_label supplies the expected wire form of each label value (Section variable `prepare`): the "
                  "file taskiq/labels.py of the tree under test executed into a module namespace of its own for every single value, "
                  "so the expectation knows nothing of the sends made before (C09 decides whether that function is right); independently of "
                  "it the oracle demands that bool / int / float / str / bytes labels, parsed by TaskiqMessage.parse_labels, are the "
                  "schedule's values with the schedule's types",
                  "datetime -> number mapping in harness/props/C16.py (naive 2*us, aware 2*instant+1)",
                  "pydantic (TypeAdapter(Any).dump_python(mode='json'), called by the driver, not through taskiq) supplies the "
                  "expected decoded form of args / kwargs that are not JSON natives; the model carries args / kwargs opaquely"],
    assumptions=["label dict objects are not shared between entries (no aliasing)", "cron strings are non-empty",
                 "no broker middlewares"],
)

STR = 3  # LabelType.STR


class Intern:
    def __init__(self, seed=()):
        self.t = {}
        for s in seed:
            self(s)

    def __call__(self, x):
        k = C.canon(x)
        if k not in self.t:
            self.t[k] = len(self.t)
        return self.t[k]


class Tabs:
    def __init__(self):
        self.key = Intern(["schedule_id", "schedule"])
        self.val = Intern()
        self.name = Intern()
        self.args = Intern([[]])
        self.kwargs = Intern([{}])
        self.cron = Intern()
        self.off = Intern()
        self.sid = Intern()


def tid(t):
    if t is None:
        return None
    return 2 * t["naive"] if "naive" in t else 2 * t["aware"] + 1


def c_lval(v, T):
    if isinstance(v, dict) and "__sched__" in v:
        return "(LSched %s)" % C.cn(T.name(v["__sched__"]))
    return "(LVal %s)" % C.cn(T.val(v))


def c_labels(d, T):
    return C.clist(["(%s, %s)" % (C.cn(T.key(k)), c_lval(v, T)) for k, v in d.items()])


def c_onat(x, f):
    return C.copt(None if x is None else f(x), C.cn)


def c_payload(p, T, labels_lit):
    return "(mkPayload %s %s %s %s %s %s %s)" % (
        C.cn(T.name(p["task"])), c_onat(p.get("cron"), T.cron), C.copt(tid(p.get("time")), C.cz),
        C.cn(T.args(p["args"])), C.cn(T.kwargs(p["kwargs"])), labels_lit, c_onat(p.get("cron_offset"), T.off))


def c_effects(effs, sid, T):
    """observed effects -> list (eff lval); wire labels are (value, type) pairs, schedule_id recognised as LSid.
    The model's EPre / EPost are the instants a callback's work COMPLETES (log entries pre / post; the .begin marks are
    the oracle's business), and only what happened before on_ready returned (the `ret` mark) is on_ready's doing."""
    out = []
    for e in effs:
        if e[0] == "ret":
            break
        if e[0] in ("pre.begin", "post.begin"):
            continue
        if e[0] in ("pre", "post"):
            out.append("(%s %s)" % ("EPre" if e[0] == "pre" else "EPost", C.cn(T.sid(e[1]))))
        else:
            m = e[1]
            labs = []
            for k, pair in m["labels"].items():
                if k == "schedule_id" and pair[1] == STR and isinstance(pair[0], str):
                    labs.append("(%s, LSid %s)" % (C.cn(T.key(k)), C.cn(T.sid(pair[0]))))
                else:
                    labs.append("(%s, LVal %s)" % (C.cn(T.key(k)), C.cn(T.val(["wire", pair]))))
            out.append("(EKick (mkMsg %s %s %s %s))" % (C.cn(T.name(m["task_name"])), C.cn(T.args(m["args"])),
                                                        C.cn(T.kwargs(m["kwargs"])), C.clist(labs)))
    return C.clist(out)


def c_wire_labels(expect, T):
    return C.clist(["(%s, LVal %s)" % (C.cn(T.key(k)), C.cn(T.val(["wire", pair]))) for k, pair in expect.items()])


RES = {"ok": 0, "raise:Boom:pre": 1, "raise:SendTaskError": 2, "raise:Boom:post": 3}

HEADER = """From Coq Require Import ZArith List Bool. Import ListNotations.
From TQ Require Import SchedSource.
Definition rcode (r : result) : nat := match r with ROk | RCancelled => 0 | RPreRaised => 1 | RSendError => 2 | RPostRaised => 3 end."""
BODY_FIRE = """Definition chk (c : pre_out * bool * bool * nat * payload * list (eff lval) * nat) : bool :=
  let '(pre, kok, pok, sid, p, effs, res) := c in
  let (me, mr) := on_ready (fun x => x) pre kok pok sid p in
  list_eqb eff_eqb me effs && Nat.eqb (rcode mr) res && C16_check_fire pre kok sid p effs.
Fixpoint bad (i : nat) (l : list (pre_out * bool * bool * nat * payload * list (eff lval) * nat)) : list nat :=
  match l with [] => [] | c :: t => if chk c then bad (S i) t else i :: bad (S i) t end.
Eval vm_compute in bad 0%nat cases."""
BODY_LABEL = """Definition vw := list (nat * list (nat * option labels)).
Definition chk (c : list task * list task * vw * list op) : bool :=
  let '(g, l, v0, ops) := c in
  let reg := all_tasks g l in view_eqb (map task_view reg) v0 && run_ops reg ops.
Fixpoint bad (i : nat) (l : list (list task * list task * vw * list op)) : list nat :=
  match l with [] => [] | c :: t => if chk c then bad (S i) t else i :: bad (S i) t end.
Eval vm_compute in bad 0%nat cases."""


# ------------------------------------------------------------------ oracles (literal transcriptions of the statement)
def kick_matches(m, sched_task, sched_args, sched_kwargs, expect_labels, sid):
    want = dict(expect_labels)
    want["schedule_id"] = [sid, STR]
    return (m["task_name"] == sched_task and m["bm_task_name"] == sched_task and C.canon(m["args"]) == C.canon(sched_args)
            and C.canon(m["kwargs"]) == C.canon(sched_kwargs) and C.canon(m["labels"]) == C.canon(want)
            and m["bm_labels"].get("schedule_id") == sid)


def wire_scalar(v):
    """canonical form (the driver's canon) of a label value of one of the five types labels keep on the wire: bool, int, str
    natively, float as {"__float__": hex}, bytes as {"__bytes__": hex}"""
    return isinstance(v, (bool, int, str)) or (isinstance(v, dict) and len(v) == 1 and next(iter(v)) in ("__float__", "__bytes__"))


def labels_arrive(m, decl_labels, sid):
    """The schedule's labels, value AND type: every label the schedule declares with a bool / int / float / str / bytes value
    is, in the one message sent - parsed the way the worker parses a received message (TaskiqMessage.parse_labels) - that
    very value with that very type (True is not 1 is not 1.0; 0.0 is not -0.0), and schedule_id is the schedule's id.  Values
    of other types (None, Decimal, enum members, lists ...) travel as text; for them only the wire form is compared
    (kick_matches, against prepare_label of the value alone)."""
    if decl_labels is None or "seen" not in m:
        return True
    seen = m["seen"]
    want = dict(decl_labels)
    want["schedule_id"] = sid
    if not isinstance(seen, dict) or "__error__" in seen:
        return False
    return all(k in seen and C.canon(seen[k]) == C.canon(v) for k, v in want.items() if wire_scalar(v))


def fire_oracle(pre, kick_ok, sid, task, args, kwargs, expect_labels, effs, decl_labels=None):
    """None if the statement holds on this observed effect list, else a description.
    effs: [pre.begin, sid] pre_send called, [pre, sid] its work completed (it then returns / raises), [kick, m],
    [post.begin, sid] / [post, sid] likewise, [ret] on_ready returned; entries after [ret] happened too late."""
    if not effs or effs[0] != ["pre.begin", sid]:
        return "pre_send did not run first"
    rest = effs[1:]
    if any(e[0] == "pre.begin" for e in rest) or sum(e[0] == "pre" for e in rest) > 1:
        return "pre_send ran twice"
    kicks = [e for e in rest if e[0] == "kick"]
    posts = [e for e in rest if e[0] in ("post.begin", "post")]
    if pre == "cancel":
        return None if not kicks and not posts else "cancelled schedule was sent or post_send was called"
    if pre == "raise":
        return None if not kicks and not posts else "sent / post_send although pre_send raised"
    if rest[:1] != [["pre", sid]]:
        return "something was done before pre_send had completed"
    rest = rest[1:]
    if len(kicks) != 1:
        return "%d messages sent instead of exactly one" % len(kicks)
    if not kick_matches(kicks[0][1], task, args, kwargs, expect_labels, sid):
        return "sent message differs from the schedule (task name / args / kwargs / labels + schedule_id)"
    if not labels_arrive(kicks[0][1], decl_labels, sid):
        return "a label of the sent message does not arrive with the value and type the schedule declares"
    if kick_ok:
        if [e for e in rest if e[0] != "ret"] != [kicks[0], ["post.begin", sid], ["post", sid]]:
            return "post_send did not run exactly once after the send"
        if rest[-1:] != [["ret"]]:
            return "post_send had not completed when on_ready returned"
    elif posts:
        return "post_send ran although the send failed"
    return None


def label_oracle(c, obs, rep):
    spec, own = {}, {}
    for t in c["globals"]:
        own[t["name"]] = t["own"]
    for t in c["locals"]:
        own[t["name"]] = True
    vis = {}
    for t in c["globals"] + c["locals"]:
        vis[t["name"]] = t          # local wins
    for t in vis.values():
        for e in t["schedule"] or []:
            spec[e["uid"]] = e
    declared = [[n, [e["uid"] for e in (vis[n]["schedule"] or [])]] for n in vis]
    prev = [[n, [u for u, _ in ents]] for n, ents in obs[0]["view"]]
    if sorted(map(json.dumps, prev)) != sorted(map(json.dumps, declared)):
        return "initial registry view differs from the declaration", 0
    for k, o in enumerate(obs[1:], 1):
        if o["op"] in ("skip", "default"):
            continue                 # default = <shared broker>.default_broker(...) was called: nothing to demand of it
        cur = [[n, [u for u, _ in ents]] for n, ents in o["view"]]
        if o["op"] == "list":
            ents = [(n, spec[u]) for n, us in prev if own[n] for u in us if "cron" in spec[u] or "time" in spec[u]]
            if any(e.get("cron") is None and e.get("time") is None for _, e in ents):
                rep.count("label:listing-with-null-entry")
                if o["result"] is not None:
                    return "listing with a cron=None,time=None entry did not raise", k
            else:
                want = [dict(task=n, cron=e.get("cron"), time=tid(e.get("time")), args=e.get("args", []),
                             kwargs=e.get("kwargs", {})) for n, e in ents]
                got = None if o["result"] is None else [
                    dict(task=s["task"], cron=s["cron"], time=tid(s["time"]), args=s["args"], kwargs=s["kwargs"])
                    for s in o["result"]]
                if C.canon(got) != C.canon(want):
                    return "listing is not exactly the declared cron/time entries of own-broker tasks in declaration order", k
            if cur != prev:
                return "listing changed the set of declared entries", k
        else:
            s = o["sched"]
            # wire_args / wire_kwargs: JSON form of the schedule's args / kwargs (pydantic's, computed by the driver without
            # taskiq; the identity on JSON natives) - what a decoded message holds
            bad = fire_oracle("ok", True, s["sid"], s["task"], o.get("wire_args", s["args"]), o.get("wire_kwargs", s["kwargs"]),
                              o["expect_labels"], o["effects"], o.get("decl_labels"))
            if bad:
                return bad, k
            pure = s["cron"] is None and s["time"] is not None
            ok = cur == prev
            if pure:
                T = tid(s["time"])
                for i, (n, us) in enumerate(prev):
                    if n != s["task"] or not own[n]:
                        continue
                    cands = [u for u in us if tid(spec[u].get("time")) == T]
                    if cands:
                        ok = any(cur == prev[:i] + [[n, [x for x in us if x != u]]] + prev[i + 1:] for u in cands)
                        rep.count("label:removed-one")
                    else:
                        rep.count("label:oneshot-nothing-to-remove")
            else:
                rep.count("label:fired-cron-or-both")
            if not ok:
                return ("after the firing the registry is not the old one minus one entry with that time" if pure else
                        "a cron / cron+time firing changed the registry"), k
        prev = cur
    return None, 0


# ------------------------------------------------------------------ generators
AW_STYLES = ["task", "future", "future", "done_future", "awaitobj", "gencoro", "gather", "shield", "executor"]
LABEL_CB_STYLES = ["async", "task", "future", "awaitobj", "gencoro", "gather", "shield"]


def style_of(c, kind):
    return c.get(kind + "_style") or ("async" if c.get(kind + "_async") else "sync")


POOL_KEYS = ["q", "prio", "queue", "retry", "x", "schedule_id"]


def gen_value(r, rich):
    k = r.random()
    if k < .3:
        return r.choice(["a", "", "low", "true", "7", "x y"])
    if k < .5:
        return r.randint(-3, 9)
    if k < .6:
        return r.random() < .5
    if k < .68:
        return None
    if k < .8:
        return [r.randint(0, 3) for _ in range(r.randint(0, 2))]
    if not rich:
        return r.choice(["b", 1, 2])
    if k < .9:
        return {"__bytes__": bytes(r.randrange(256) for _ in range(r.randint(0, 3))).hex()}
    return r.choice([0.5, 1e300, -0.0, 2.25])


def gen_labels(r, rich, n=None):
    return {k: gen_value(r, rich) for k in r.sample(POOL_KEYS, r.randint(0, 3) if n is None else n)}


def gen_args(r):
    return [r.choice([r.randint(0, 9), "s", None, [1, 2], {"k": 1}, True, 1.5]) for _ in range(r.randint(0, 3))]


def gen_kwargs(r):
    return {k: r.choice([1, "v", None, [0]]) for k in r.sample(["a", "b", "c"], r.randint(0, 2))}


# ---- payload values that are not JSON natives (tagged the way the driver's dec / canon code them)
def skey(x):
    return json.dumps(x, sort_keys=True)


def rich_date(r):
    return {"__date__": [r.choice([1999, 2024, 2030]), r.choice([1, 2, 12]), r.choice([1, 15, 28])]}


def rich_dt(r):
    us = (1_700_000_000 + r.randint(0, 10**6)) * 10**6 + r.choice([0, 0, 4, 250_000])
    if r.random() < .5:
        return {"__dt__": {"naive": us}}
    return {"__dt__": {"aware": us, "offmin": r.choice([0, 0, 60, -300, 330])}}


def rich_hashable(r):
    """a value that can sit in a set / be a dict key"""
    k = r.randrange(8)
    if k == 0:
        return rich_date(r)
    if k == 1:
        return {"__uuid__": "%032x" % r.choice([5, 2**127 + 3, 0x1234567812345678_1234567812345678])}
    if k == 2:
        return {"__enum__": r.choice([["Mode", "FULL"], ["Mode", "DELTA"], ["Level", "HIGH"]])}   # no str / int mixins: Kind.B == "b"
    if k == 3:
        return {"__tuple__": [r.randint(0, 3), r.choice(["a", "b"])]}
    if k == 4:
        return r.randint(0, 9)
    return r.choice(["a", "b", "tag", ""])


def rich_set(r):
    els = {skey(x): x for x in (rich_hashable(r) for _ in range(r.randint(0, 3)))}
    # 1 == True, Prio.P0 == 0 ...: equal-but-different elements would make the set depend on insertion order
    els = {k: x for k, x in els.items() if not isinstance(x, bool)}
    return {r.choice(["__set__", "__fset__"]): [els[k] for k in sorted(els)]}


def rich_window(r):
    tags = sorted({r.choice(["a", "b", "eu", "x y"]) for _ in range(r.randint(0, 2))})
    return {"__model__": ["Window", {"since": rich_date(r), "until": r.choice([None, rich_dt(r)]), "tags": {"__set__": tags}}]}


def rich_point(r, inner):
    return {"__dc__": ["Point", {"x": r.randint(-2, 5), "when": inner}]}


RICH_KINDS = ["date", "date", "datetime", "datetime", "time", "timedelta", "uuid", "uuid", "enum", "enum", "intenum", "strenum",
              "flag", "decimal", "decimal", "set", "set", "bytes", "bytearray", "path", "ip", "model", "model", "model_nested",
              "model_own_serializer", "dataclass", "dataclass", "dataclass_nested", "pydantic_dataclass", "tuple", "tuple",
              "namedtuple", "nonstr_keys", "odict"]


def rich_leaf(r, kind=None):
    """(kind, tagged value): one value that is not a JSON native but that pydantic's JSON mode - hence taskiq - accepts"""
    k = kind or r.choice(RICH_KINDS)
    if k == "date":
        v = rich_date(r)
    elif k == "datetime":
        v = rich_dt(r)
    elif k == "time":
        v = {"__time__": [r.choice([0, 3_723_000_000, 86_399_999_999, 45_000_000_250]), r.choice([None, None, 0, 330, -60])]}
    elif k == "timedelta":
        v = {"__td__": r.choice([0, 5, 3_600_000_000, -5_000_000, 86_400_000_000 * 400 + 1])}
    elif k == "uuid":
        v = {"__uuid__": "%032x" % r.choice([0, 5, 2**127 + 3, 0x1234567812345678_1234567812345678])}
    elif k == "enum":
        v = {"__enum__": r.choice([["Mode", "FULL"], ["Mode", "DELTA"], ["Level", "LOW"], ["Level", "HIGH"]])}
    elif k == "intenum":
        v = {"__enum__": ["Prio", r.choice(["P0", "P2"])]}
    elif k == "strenum":
        v = {"__enum__": ["Kind", r.choice(["A", "B"])]}
    elif k == "flag":
        v = {"__enum__": ["Perm", r.choice([1, 3, 6, 7])]}
    elif k == "decimal":
        v = {"__dec__": r.choice(["1.50", "0", "-0.0", "1E+3", "12345678901234567890.123456789", "NaN"])}
    elif k == "set":
        v = rich_set(r)
    elif k == "bytes":
        v = {"__bytes__": r.choice([b"", b"ab", "h\u00e9".encode(), b"x y\n"]).hex()}       # UTF-8 only (see notes)
    elif k == "bytearray":
        v = {"__bytearray__": r.choice([b"", b"ab", b"q"]).hex()}
    elif k == "path":
        v = {"__path__": r.choice(["/x/y", "a/b.txt", "."])}
    elif k == "ip":
        v = {"__ip__": r.choice(["1.2.3.4", "::1"])}
    elif k == "model":
        v = rich_window(r)
    elif k == "model_nested":
        v = {"__model__": ["Job", {"id": {"__uuid__": "%032x" % r.randint(0, 99)}, "mode": {"__enum__": ["Mode", r.choice(["FULL", "DELTA"])]},
                                   "window": r.choice([None, rich_window(r)]),
                                   "extra": r.choice([None, 1, "s", rich_date(r), [rich_dt(r)], {"k": rich_set(r)}])}]}
    elif k == "model_own_serializer":
        v = {"__model__": ["Money", {"amount": {"__dec__": r.choice(["1.50", "100"])}, "cur": r.choice(["EUR", "USD"])}]}
    elif k == "dataclass":
        v = rich_point(r, r.choice([None, 3, "s", rich_date(r), rich_dt(r), [rich_date(r)], rich_window(r)]))
    elif k == "dataclass_nested":
        v = {"__dc__": ["Span", {"first": rich_point(r, r.choice([None, rich_date(r)])),
                                 "note": r.choice([None, "n", {"__tuple__": [1, rich_date(r)]}, rich_point(r, None)])}]}
    elif k == "pydantic_dataclass":
        v = {"__dc__": ["Day", {"n": r.randint(0, 3), "day": rich_date(r)}]}
    elif k == "tuple":
        v = {"__tuple__": [r.choice([1, "a", None, rich_date(r), [2]]) for _ in range(r.randint(0, 3))]}
    elif k == "namedtuple":
        v = {"__nt__": [r.randint(0, 3), r.choice(["b", None, rich_date(r)])]}
    elif k == "nonstr_keys":
        nonstr = [1, 2, None, rich_date(r), {"__enum__": ["Mode", "FULL"]}, {"__tuple__": [1, 2]}, {"__float__": (1.5).hex()}]
        ks = [r.choice(nonstr)] + [r.choice(nonstr + ["s", "t"]) for _ in range(r.randint(0, 1))]
        ks = {skey(x): x for x in ks}
        v = {"__map__": [[x, r.choice([1, "v", None, [0]])] for x in ks.values()]}
    elif k == "odict":
        v = {"__odict__": [[x, r.choice([1, rich_date(r)])] for x in r.sample(["z", "a", "m"], r.randint(1, 2))]}
    else:
        raise AssertionError(k)
    return k, v


def wrap_rich(r, v):
    """one level of list / dict around a value, next to plain JSON natives"""
    plain = lambda: r.choice([r.randint(0, 9), "s", None, True, [1, 2], {"k": 1}])   # noqa: E731
    if r.random() < .5:
        out = [plain() for _ in range(r.randint(0, 2))]
        out.insert(r.randint(0, len(out)), v)
        return out
    out = {k: plain() for k in r.sample(["p", "q"], r.randint(0, 1))}
    out[r.choice(["k", "until", "window"])] = v
    return out


def enrich(r, args, kwargs):
    """put one to three non-JSON-native values into args / kwargs, at depth 0..2 inside lists / dicts.
    Returns what was put where (for the evidence distribution)."""
    info = []
    for _ in range(r.choice([1, 1, 1, 2, 3])):
        kind, v = rich_leaf(r)
        depth = r.choice([0, 0, 1, 1, 2])
        for _ in range(depth):
            v = wrap_rich(r, v)
        if r.random() < .5:
            args.insert(r.randint(0, len(args)), v)
            where = "args"
        else:
            kwargs[r.choice(["a", "b", "c", "since", "mode"])] = v
            where = "kwargs"
        info.append([kind, depth, where])
    return info


def gen_broker(r):
    """formatter / serializer configuration of the broker (see configure in the driver)"""
    conf = {}
    k = r.random()
    if k < .45:
        conf["fmt"] = r.choice(["json", "json", "proxy", "proxy_sub"])
    k = r.random()
    if k < .3:
        conf["ser"] = r.choice(["json", "json_default", "json_default", "pickle"])
    if conf and r.random() < .3:
        conf["late"] = True
    return conf


# ---- unusual but valid text (round 11): what a str in a schedule's args / kwargs / labels may contain.  notes/C08.md "Round 10"
# measured what the unchanged tree carries: everything below round-trips under ProxyFormatter with the JSON (the constructor's
# default, hand-built, default=str) or the pickle serializer as long as a lone surrogate stands in a VALUE (not in a dict key);
# JSONFormatter refuses lone surrogates loudly (pydantic's JSON writer) - brokers with that formatter get the other kinds only.
# No high surrogate directly followed by a low one (Python's json joins the two escapes into one character - not taskiq's doing).
TEXT = {
    "lone surrogate": ["caf\udce9.csv", "r\udce9sum\udce9.txt", "/data/\udce9\udcff", "caf\u00e9 \ud83d", "\udc00\ud800", "\ud800", "\udbff",
                       "\udfff", "\U0001F600\udc00", "\x00\udcff", "a\udc80b"],
    "long with lone surrogates": ["ab\udce9" * 2500, "x" * 9000 + "\ud800"],
    "non-BMP": ["\U00010000", "\U0010ffff", "\U0001F468\u200d\U0001F469", "a\U0001F600b", "\U000E0041"],
    "BMP non-ASCII": ["caf\u00e9", "\u65e5\u672c", "\u042f\u0431", "\u0131\u0130", "e\u0301", "\ufb01", "\u0627\u0644"],
    "control": ["\x00", "a\x00b", "\x01\x1f\x7f\x80\x9f", "\r\n\t", "\x1b[0m"],
    "special BMP": ["\ufeff", "\ufffe\uffff", "\ufffd?", "\u2028\u2029", "\u200b\u202e", "\ud7ff\ue000", "\ufdd0"],
    "escape look-alike": ["\\ud83d", "\\u0000", "\"}", "\\", "\\udce9"],
    "long": ["x" * 20000, "\u00e9" * 7000, "\U0001F600" * 3000],
}
SURROGATE_KINDS = ["lone surrogate"] * 7 + ["long with lone surrogates"]
TEXT_KEYS = ["caf\u00e9", "\u65e5\u672c", "\U0001F600", "k\x00", "\ufeffq"]      # keys: never a lone surrogate (refused as a key)


def surrogates_ok(conf):
    """does the unchanged tree send a str VALUE holding a lone surrogate through a broker configured like this"""
    return (conf or {}).get("fmt", "default") != "json"


def has_surrogate(s):
    return any(0xD800 <= ord(ch) <= 0xDFFF for ch in s)


def textify(r, holder, conf, places=("args", "args", "kwargs", "kwargs", "labels", "labels", "labels")):
    """put one to three strings with unusual content into the args / kwargs / labels of `holder` (a scenario's payload, a
    label-source entry, or a task - `places` = labels only): as a value of its own, inside a list / a dict value, next to other
    text in one str, and ("sid" in places) as the schedule id; keys get non-ASCII / NUL text only, never a lone surrogate.
    Returns [[kind, where], ...] for the evidence."""
    ok = surrogates_ok(conf)
    kinds = [k for k in TEXT if ok or "surrogate" not in k]
    info = []
    for _ in range(r.choice([1, 1, 2, 3])):
        kind = r.choice(SURROGATE_KINDS) if ok and r.random() < .55 else r.choice(kinds)
        s = r.choice(TEXT[kind])
        if r.random() < .2 and not kind.startswith("long"):
            s = r.choice(["/srv/in/", "x=", ""]) + s + r.choice([".csv", " ", ""])
        where = r.choice(places)
        v = s
        if where in ("args", "kwargs") and r.random() < .4:
            v = [r.randint(0, 3), s] if r.random() < .5 else {r.choice(["path", "name"]): s, "n": 1}
            where += ", nested"
        if where.startswith("args"):
            a = holder.setdefault("args", [])
            a.insert(r.randint(0, len(a)), v)
        elif where.startswith("kwargs"):
            key = r.choice(TEXT_KEYS) if r.random() < .15 else r.choice(["a", "b", "path", "name"])
            holder.setdefault("kwargs", {})[key] = v
            if key in TEXT_KEYS:
                where += ", under a non-ASCII key"
        elif where == "labels":
            key = r.choice(TEXT_KEYS) if r.random() < .15 else r.choice(["q", "queue", "src_file", "x"])
            if r.random() < .15:
                v = {"__sub__": ["str", s]}          # the text held by an instance of a str SUBCLASS (travels as text, type ANY)
                where += ", instance of a str subclass"
            holder.setdefault("labels", {})[key] = v
            if key in TEXT_KEYS:
                where += ", under a non-ASCII key"
        else:
            holder["sid"] = s if len(s) < 200 else s[:40] + s[-3:]
        info.append([kind, where])
    return info


def textify_fire(r, c, conf=None):
    """an on_ready scenario (or the firing step of a history) whose schedule carries such text"""
    conf = c.get("broker") if conf is None else conf
    info = textify(r, c["payload"], conf)
    if r.random() < .15:
        info += textify(r, c, conf, places=("sid",))[:1]
    c["text"] = c.get("text", []) + info
    return c


def textify_label(r, c):
    """a label-source history whose entries (args / kwargs / labels) and tasks (labels) carry such text; enough firings right
    after the first listing that the entries are sent"""
    conf = c.get("broker")
    info = []
    tasks = c["globals"] + c["locals"]
    ents = [e for t in tasks for e in (t["schedule"] or [])]
    for e in r.sample(ents, min(len(ents), r.choice([1, 2, 2, 3]))):
        info += textify(r, e, conf)
    for t in tasks:
        if r.random() < .3:
            info += [[k, "task " + w] for k, w in textify(r, t, conf, places=("labels",))]
    at = 1 + [i for i, op in enumerate(c["ops"]) if op[0] == "list"][0]
    js = list(range(r.randint(2, 6)))
    r.shuffle(js)
    c["ops"][at:at] = [["fire", 0, j] for j in js]
    if c["ops"][-1][0] != "list":
        c["ops"].append(["list"])
    c["text"] = info
    return c


def text_in(v):
    """kinds of unusual text found in a case value (evidence only)"""
    out = set()
    if isinstance(v, str):
        if has_surrogate(v):
            out.add("lone surrogate")
        elif any(ord(ch) > 0xFFFF for ch in v):
            out.add("non-BMP")
        elif any(ord(ch) > 127 for ch in v):
            out.add("BMP non-ASCII")
        if "\x00" in v:
            out.add("NUL")
        if len(v) >= 5000:
            out.add("long")
    elif isinstance(v, dict):
        for k, x in v.items():
            out |= text_in(k) | text_in(x)
    elif isinstance(v, list):
        for x in v:
            out |= text_in(x)
    return out


def count_text(rep, fam, c, conf, sent_payloads):
    """evidence distribution of the unusual text: sent_payloads = [args, kwargs, labels] of every schedule that reached kick()"""
    for kind, where in c.get("text", []):
        rep.count("%s:text kind=%s" % (fam, kind))
        rep.count("%s:text in %s" % (fam, where))
    if c.get("text"):
        conf = conf or {}
        rep.count("%s:schedules with unusual text, formatter=%s serializer=%s" % (fam, conf.get("fmt", "default"), conf.get("ser", "default")))
    for p in sent_payloads:
        for k in sorted(text_in(p)):
            rep.count("%s:message with %s text reached kick()" % (fam, k))


def is_rich(v):
    """does this case value hold a tagged (not JSON-native) value"""
    if isinstance(v, dict):
        return any(k.startswith("__") and k.endswith("__") for k in v) or any(is_rich(x) for x in v.values())
    if isinstance(v, list):
        return any(is_rich(x) for x in v)
    return False


def gen_time(r, base=1_900_000_000):
    us = (base + 60 * r.randint(0, 2)) * 10**6
    if r.random() < .8:
        return {"naive": us}
    return {"aware": us, "offmin": r.choice([0, 60, -300, 330])}


def gen_fire(r):
    p = dict(task=r.choice(["t0", "t1", "mod:fn"]), args=gen_args(r), kwargs=gen_kwargs(r), labels=gen_labels(r, True))
    if r.random() < .5:
        p["cron"] = r.choice(["* * * * *", "*/2 * * * *"])
    if "cron" not in p or r.random() < .3:
        p["time"] = gen_time(r)
    c = dict(type="fire", sid=r.choice(["S1", "abc", "0", "7f3a"]), payload=p,
             pre=r.choice(["ok", "ok", "ok", "cancel", "cancel", "raise"]), pre_async=r.random() < .5,
             post_ok=r.random() < .85, post_async=r.random() < .5, kick_ok=r.random() < .85)
    # a quarter of the callbacks are plain defs handing back an awaitable that is not a coroutine object (see the driver)
    for kind in ("pre", "post"):
        if r.random() < .25:
            del c[kind + "_async"]
            c[kind + "_style"] = r.choice(AW_STYLES)
            c[kind + "_d"] = r.choice([0, 0, 1, 1000, 2_000_000])
            c[kind + "_when"] = r.choice(["await", "await", "call"])
        elif c[kind + "_async"] and r.random() < .3:
            c[kind + "_d"] = r.choice([1, 1000])                  # an `async def` callback that takes (virtual) time
        if r.random() < .2:
            c[kind + "_ret"] = r.choice([False, True, 0, "", "cancel", [1]])   # callbacks need not return None
    if r.random() < .2:
        c["kick_d"] = r.choice([1, 1000, 3_000_000])
    if r.random() < .25:
        c["bind"] = r.choice(["instance", "callable"])            # callbacks bound late, on the instance
    if r.random() < .15:
        c["registered"] = False                                   # a source the scheduler was not built with
    if c["pre"] == "cancel" and r.random() < .2:
        c["cancel_cls"] = "sub"
    # a fifth of the scenarios: args / kwargs hold values that are not JSON natives; a fifth (independently): the broker's
    # formatter / serializer are not the ones AsyncBroker.__init__ put there
    if r.random() < .2:
        c["rich"] = enrich(r, p["args"], p["kwargs"])
    if r.random() < .2:
        conf = gen_broker(r)
        if conf:
            c["broker"] = conf
    return c


def gen_entry(r, uid):
    e = {"uid": uid}
    k = r.random()
    if k < .4:
        e["time"] = gen_time(r)
    elif k < .6:
        e["cron"] = r.choice(["* * * * *", "*/2 * * * *", "5 4 * * *"])
    elif k < .75:
        e["cron"] = r.choice(["* * * * *", "*/2 * * * *"])
        e["time"] = gen_time(r)
    elif k < .8:
        e["cron"] = None
        e["time"] = gen_time(r)
    elif k < .83:
        e["time"] = gen_time(r)
        e["cron"] = None
    elif k < .84:
        e[r.choice(["time", "cron"])] = None      # key present, both values None: ScheduledTask raises
    if r.random() < .5:
        e["args"] = gen_args(r)[:2]
        e["args"] = [a for a in e["args"] if not isinstance(a, float)]
    if r.random() < .3:
        e["kwargs"] = gen_kwargs(r)
    if r.random() < .4:
        e["labels"] = gen_labels(r, False)
    if "cron" in e and e["cron"] and r.random() < .2:
        e["cron_offset"] = r.choice(["Europe/Berlin", {"__td__": 3600 * 10**6}])
    return e


def gen_label(r, exhaustive_ops=None):
    uid = [0]
    rich = r.random() < .15 and not exhaustive_ops       # histories whose entries carry non-JSON-native args / kwargs
    info = []

    def task(name, own):
        ents = None
        if r.random() < .9:
            ents = []
            for _ in range(r.choice([0, 1, 2, 2, 3, 4, 5])):
                uid[0] += 1
                ents.append(gen_entry(r, uid[0]))
                if rich and r.random() < .4:
                    e = ents[-1]
                    e.setdefault("args", [])
                    e.setdefault("kwargs", {})
                    info.extend(enrich(r, e["args"], e["kwargs"]))
        return dict(name=name, own=own, labels={k: v for k, v in gen_labels(r, False).items()}, schedule=ents)

    names = ["t0", "t1", "t2", "t3"]
    locs = [task(n, True) for n in r.sample(names, r.randint(1, 3))]
    globs = []
    for n in r.sample(names + ["g0", "g1"], r.randint(0, 2)):
        globs.append(task(n, r.random() < .3))
    ops = [["list"]]
    for _ in range(r.randint(1, 6)):
        ops.append(["list"] if r.random() < .25 else ["fire", r.randint(0, 3), r.randint(0, 11)])
    if r.random() < .5:
        ops.append(["list"])
    c = dict(type="label", globals=globs, locals=locs, ops=exhaustive_ops or ops)
    if r.random() < .2:
        c["cb_style"] = r.choice(LABEL_CB_STYLES)     # a wrapping source that defers the label source's own callbacks
    if r.random() < .25 and not exhaustive_ops:
        deployment(r, c, task)
    if not exhaustive_ops and r.random() < (.5 if rich else .1):
        conf = gen_broker(r)
        if conf:
            c["broker"] = conf
    if info:
        c["rich"] = info
    return c


def deployment(r, c, task):
    """Foreign tasks of every kind a deployment has (about a quarter of the label histories): tasks declared through
    async_shared_broker.task(...) / a second AsyncSharedBroker (they sit in the global registry every broker sees),
    default_broker(b | other | None) called before the declarations, after them, or between listings and firings; tasks
    that live only in another broker's local registry (hidden from b), possibly under a name b also uses; one Python
    function decorated on a foreign broker and registered on b as well; the decorator form of a declaration; schedules
    built by hand for a declared entry of any visible task, own or foreign, fired through this source."""
    used = {t["name"] for t in c["globals"]}
    for t in c["globals"]:
        if not t["own"] and r.random() < .6:
            t["decl"] = r.choice(["shared", "shared", "shared2"])
    for n in r.sample([x for x in ["t0", "t1", "t2", "t3", "g0", "g1", "lib:s0", "lib:s1"] if x not in used], r.choice([0, 1, 1, 2])):
        t = task(n, False)
        t["decl"] = r.choice(["shared", "shared", "shared2"])
        c["globals"].insert(r.randint(0, len(c["globals"])), t)
    whos = ["b", "b", "b", "other", "none"]
    for k in ("default_before", "default_after"):
        if r.random() < .45:
            c[k] = [[r.choice(["shared", "shared", "shared2"]), r.choice(whos)] for _ in range(r.choice([1, 1, 2]))]
    ops = c["ops"]
    for _ in range(r.choice([0, 0, 1, 1, 2])):
        ops.insert(r.randint(0, len(ops) - 1), ["default", r.choice(["shared", "shared", "shared2"]), r.choice(whos)])
    for _ in range(r.choice([0, 1, 2])):
        ops.insert(r.randint(1, len(ops)), ["fire_decl", r.randint(0, 5), r.randint(0, 5)])
    if ops[-1][0] != "list":
        ops.append(["list"])
    if r.random() < .4:
        names = [t["name"] for t in c["locals"]] + ["h0"]
        c["hidden"] = [task(n, False) for n in r.sample(names, r.randint(1, min(2, len(names))))]
    if r.random() < .4:
        pool = c["globals"] + c["locals"] + c.get("hidden", [])
        for t in r.sample(pool, min(len(pool), r.randint(2, 3))):
            t["fn"] = 0
    for t in c["globals"] + c["locals"]:
        if r.random() < .3:
            t["via"] = "task"


# ---- histories of sends in one process whose label values are hash-equal but of different types (round 10)
def F(x):
    return {"__float__": float(x).hex()}


# Each pool: values that are == and hash-equal to one another (so anything keyed by the VALUE - a dict, an lru_cache, a set -
# takes them for one key) although their type, or their text, differs.  Tagged the way the driver's dec / canon code them
# (canon(dec(v)) == v for every member - checked by selfcheck_pools).  "spelled" is the neighbour: values whose str() is
# equal (anything keyed by the wire TEXT confuses them); "text": str / bytes / str-mixin enum member of one text (str and
# bytes of one ASCII text have one hash in CPython).
HASH_POOLS = {
    "one": [True, 1, F(1.0), {"__dec__": "1"}, {"__dec__": "1.0"}, {"__dec__": "1.00"}, {"__frac__": [1, 1]}, {"__enum__": ["Sw", "ON"]},
            True, F(1.0)],
    "zero": [False, 0, F(0.0), F(-0.0), {"__dec__": "0"}, {"__dec__": "-0"}, {"__dec__": "0.0"}, {"__frac__": [0, 1]},
             {"__enum__": ["Sw", "OFF"]}, {"__enum__": ["Prio", "P0"]}, False, F(0.0), F(-0.0)],
    "two": [2, F(2.0), {"__dec__": "2"}, {"__dec__": "2.0"}, {"__frac__": [2, 1]}, {"__enum__": ["Prio", "P2"]}],
    "half": [F(.5), {"__dec__": "0.5"}, {"__dec__": "0.50"}, {"__frac__": [1, 2]}],
    "big": [2**53, F(2.0**53), {"__dec__": str(2**53)}, {"__dec__": "9007199254740992.0"}, {"__frac__": [2**53, 1]}],
    "text": ["a", {"__bytes__": b"a".hex()}, {"__enum__": ["Kind", "A"]}],
    "nested": [{"__tuple__": [1]}, {"__tuple__": [True]}, {"__tuple__": [F(1.0)]}, {"__fset__": [1]}, {"__fset__": [True]},
               {"__fset__": [F(1.0)]}, {"__tuple__": [0, "a"]}, {"__tuple__": [False, "a"]}],
    "spelled": ["1", 1, "True", True, "None", None, "1.0", F(1.0), {"__bytes__": b"1".hex()}, {"__dec__": "1"}],
}
TASK_KEYS = ["retry_on_error", "prio", "ratio"]
ENTRY_KEYS = ["delay", "w", "ratio"]


def vtype(v):
    """type name of a tagged label value (evidence only)"""
    if isinstance(v, dict) and len(v) == 1:
        k = next(iter(v))
        return {"__float__": "float", "__dec__": "Decimal", "__frac__": "Fraction", "__enum__": "enum member", "__bytes__": "bytes",
                "__tuple__": "tuple", "__fset__": "frozenset", "__sub__": "instance of a subclass of a primitive"}.get(k, k)
    return "None" if v is None else type(v).__name__


def pool_of(v):
    k = C.canon(v)
    return [n for n, vs in HASH_POOLS.items() if any(C.canon(x) == k for x in vs)]


def gen_hist(r):
    """a history of 2-5 sends in ONE process: on_ready firings (full scenarios - callback styles, outcomes, payloads - as in
    gen_fire) and now and then a send that is not scheduled (task.kicker().with_labels(..).kiq()), on one or two brokers;
    the label values of all steps come from one or two pools of hash-equal values, under a small pool of keys"""
    nb = 1 if r.random() < .7 else 2
    brokers = [(gen_broker(r) if r.random() < .2 else {}) for _ in range(nb)]
    cls = r.sample(sorted(HASH_POOLS), r.choice([1, 1, 2]))
    val = lambda: r.choice(HASH_POOLS[r.choice(cls)])   # noqa: E731
    keys = r.sample(TASK_KEYS + ENTRY_KEYS[:2], r.choice([1, 2, 2, 3]))
    steps, fires = [], []
    n = r.choice([2, 2, 3, 3, 4, 5])
    while len(steps) < n or len(fires) < 2:
        k = len(steps)
        on = r.randrange(nb)
        if r.random() < .2:
            st = dict(do="kiq", on=on, task=r.choice(["k0", "k1", "t0"]), decl={x: val() for x in r.sample(keys, r.randint(0, len(keys)))},
                      args=[a for a in gen_args(r)[:2] if not isinstance(a, float)])
            if r.random() < .5:
                st["with"] = {x: val() for x in r.sample(keys, r.randint(1, len(keys)))}
            steps.append(st)
            continue
        st = gen_fire(r)
        del st["type"]
        st.pop("broker", None)
        st["do"], st["on"] = "fire", on
        if r.random() < .8:
            st["pre"] = "ok"
        if r.random() < .8:
            st["kick_ok"] = True
        labels = gen_labels(r, True, r.choice([0, 0, 1])) if r.random() < .3 else {}
        labels.update({x: val() for x in r.sample(keys, r.randint(1, len(keys)))})
        st["payload"]["labels"] = labels
        st["sid"] = r.choice(["S1", "S2", "1", "True", "a", "0", "7f3a"])        # ids that spell a label value as well
        if r.random() < .5:
            st["sched"] = "reuse"
        if fires and r.random() < .15:
            j = r.choice(fires)                     # the very ScheduledTask object of an earlier step, fired again
            st["same_as"], st["payload"], st["sid"] = j, json.loads(json.dumps(steps[j]["payload"])), steps[j]["sid"]
        fires.append(k)
        steps.append(st)
    return dict(type="hist", brokers=brokers, pools=cls, steps=steps)


def poolify(r, c):
    """a label-source history whose task labels and entry labels come from one or two pools of hash-equal values, with
    enough firings of different entries after the first listing that such values meet in one process"""
    cls = r.sample(sorted(HASH_POOLS), r.choice([1, 1, 2]))
    val = lambda: r.choice(HASH_POOLS[r.choice(cls)])   # noqa: E731
    for t in c["globals"] + c["locals"] + c.get("hidden", []):
        for k in r.sample(TASK_KEYS, r.choice([0, 1, 1, 2])):
            t["labels"][k] = val()
        for e in t["schedule"] or []:
            if r.random() < .6:
                e.setdefault("labels", {})
                for k in r.sample(ENTRY_KEYS, r.choice([1, 1, 2])):
                    e["labels"][k] = val()
    js = list(range(r.randint(2, 5)))
    r.shuffle(js)
    at = 1 + [i for i, op in enumerate(c["ops"]) if op[0] == "list"][0]
    c["ops"][at:at] = [["fire", 0, j] for j in js]
    if c["ops"][-1][0] != "list":
        c["ops"].append(["list"])
    c["pools"] = cls
    return c


def selfcheck_pools():
    """members of one pool are pairwise distinct as case values (so the evidence counts and the Coq interning tell them
    apart) - their Python equality is the driver's business"""
    for n, vs in HASH_POOLS.items():
        assert len({C.canon(v) for v in vs}) >= 3, n


def count_pools(rep, fam, label_dicts):
    """label_dicts: the label values of the sends of one history, in order.  Counts the types met and the sends whose labels
    hold a value hash-equal / equally spelled to, but not the same as, a value an earlier send of the process carried"""
    earlier = {}
    for labels in label_dicts:
        hit = set()
        for v in labels.values():
            for n in pool_of(v):
                if any(x != C.canon(v) for x in earlier.get(n, ())):
                    hit.add(n)
        for n in hit:
            rep.count("%s:send with a label from pool %r that an earlier send of the process carried as another value" % (fam, n))
        for v in labels.values():
            for n in pool_of(v):
                earlier.setdefault(n, set()).add(C.canon(v))
                rep.count("%s:pooled label value type=%s" % (fam, vtype(v)))


def own_of(c):
    own = {t["name"]: t["own"] for t in c["globals"]}
    own.update({t["name"]: True for t in c["locals"]})
    return own


def count_deployment(rep, c, obs):
    """evidence distribution of the foreign-task kinds (see deployment)"""
    shadowed = {t["name"] for t in c["locals"]}
    for t in c["globals"]:
        kind = t.get("decl", "plain")
        if t["own"]:
            continue
        rep.count("label:foreign task decl=%s%s" % (kind, ", shadowed by a local task" if t["name"] in shadowed else ""))
        if kind != "plain" and any("cron" in e or "time" in e for e in (t["schedule"] or [])):
            rep.count("label:shared-broker task with cron/time entries")
    if not any(t.get("decl", "plain") != "plain" for t in c["globals"]) and not c.get("hidden"):
        return
    # which default broker each shared broker had at every listing / firing
    cur = {"shared": "none", "shared2": "none"}
    for d in c.get("default_before", []) + c.get("default_after", []):
        cur[d[0]] = d[1]
    for k in ("default_before", "default_after"):
        for d in c.get(k, []):
            rep.count("label:%s %s.default_broker(%s)" % (k, d[0], d[1]))
    kinds = {t.get("decl") for t in c["globals"] if t.get("decl", "plain") != "plain" and t["name"] not in shadowed
             and any("cron" in e or "time" in e for e in (t["schedule"] or []))}
    real = [x for x in c["ops"]]
    i = 0
    for x in obs[1:]:
        op = real[i]
        i += 1
        if op[0] == "default":
            cur[op[1]] = op[2]
            rep.count("label:default_broker(%s) between operations" % op[2])
        elif x["op"] in ("list", "fire"):
            for kd in kinds:
                rep.count("label:%s with visible %s-broker entries while its default broker = %s" % (x["op"], kd, cur[kd]))
    if c.get("hidden"):
        rep.count("label:tasks in another broker's local registry%s" %
                  (", same name as an own task" if {t["name"] for t in c["hidden"]} & shadowed else ""))
    if any("fn" in t for t in c["globals"] + c["locals"] + c.get("hidden", [])):
        owners = {("own" if t in c["locals"] or t["own"] else t.get("decl", "other")) for t in
                  c["globals"] + c["locals"] + c.get("hidden", []) if "fn" in t}
        rep.count("label:one function declared on %s" % "+".join(sorted(owners)))
    if any(t.get("via") == "task" for t in c["globals"] + c["locals"]):
        rep.count("label:declared with the decorator form")


def rich_tags(v, depth=0, out=None):
    """(tag, depth) of every tagged value in a case value (depth = number of lists / dicts / tagged containers around it)"""
    out = [] if out is None else out
    if isinstance(v, dict):
        tag = [k for k in v if k.startswith("__") and k.endswith("__")]
        if tag:
            out.append((tag[0], depth))
            x = v[tag[0]]
            rich_tags(x[1] if tag[0] in ("__model__", "__dc__") else x if isinstance(x, (list, dict)) else None, depth + 1, out)
        else:
            for x in v.values():
                rich_tags(x, depth + 1, out)
    elif isinstance(v, list):
        for x in v:
            rich_tags(x, depth + 1, out)
    return out


def count_payload(rep, fam, c, payloads, info, sent):
    """evidence distribution of the payload kinds and of the broker's formatter / serializer"""
    conf = c.get("broker") or {}
    rep.count("%s:broker formatter=%s" % (fam, conf.get("fmt", "default")))
    rep.count("%s:broker serializer=%s" % (fam, conf.get("ser", "default")))
    if conf.get("late"):
        rep.count("%s:broker formatter / serializer set after the scheduler was built" % fam)
    for kind, depth, where in info:
        rep.count("%s:payload value kind=%s" % (fam, kind))
        rep.count("%s:payload non-JSON-native value in %s at depth %d" % (fam, where, depth))
    rich = False
    for args, kwargs in payloads:
        tags = rich_tags(args, -1) + rich_tags(kwargs, -1)
        rich = rich or bool(tags)
        for tag in {t for t, _ in tags}:
            rep.count("%s:fired payload holds %s" % (fam, tag))
    if rich:
        rep.count("%s:%s with non-JSON-native args / kwargs, formatter=%s" % (
            fam, "scenario" if fam == "fire" else "history firing entries", conf.get("fmt", "default")))
        if "ser" in conf:
            rep.count("%s:non-JSON-native args / kwargs, serializer=%s" % (fam, conf["ser"]))
        if sent:
            rep.count("%s:non-JSON-native payload reached kick()" % fam)


def nontrivial(c):
    if c["type"] == "hist":
        return sum(st["do"] == "fire" for st in c["steps"]) >= 2
    if c["type"] == "fire":
        return (c["pre"] != "ok" or style_of(c, "pre") != "sync" or style_of(c, "post") != "sync"
                or is_rich(c["payload"]["args"]) or is_rich(c["payload"]["kwargs"]))
    for t in c["globals"] + c["locals"]:
        ents = [e for e in (t["schedule"] or []) if "cron" in e or "time" in e]
        if len(ents) >= 2:
            return True
    return False


# ------------------------------------------------------------------ evaluation
def lit_fire(c, o):
    T = Tabs()
    p = c["payload"]
    pl = c_payload(dict(p, args=o["sched_args"], kwargs=o["sched_kwargs"]), T, c_wire_labels(o["expect_labels"], T))
    return C.cpair({"ok": "PreOk", "cancel": "PreCancel", "raise": "PreRaise"}[c["pre"]], C.cb(c["kick_ok"]),
                   C.cb(c["post_ok"]), C.cn(T.sid(c["sid"])), pl, c_effects(o["effects"], c["sid"], T),
                   C.cn(RES.get(o["result"], 9)))


def c_entry(e, T):
    def key2(k, f):
        if k not in e:
            return "None"
        return "(Some %s)" % C.copt(None if e[k] is None else f(e[k]), C.cn)
    tm = "None" if "time" not in e else "(Some %s)" % C.copt(tid(e["time"]), C.cz)
    return "(mkEntry %s %s %s %s %s %s %s)" % (
        C.cn(e["uid"]), key2("cron", T.cron), tm,
        c_onat(e.get("args"), T.args) if "args" in e else "None",
        c_onat(e.get("kwargs"), T.kwargs) if "kwargs" in e else "None",
        ("(Some %s)" % c_labels(e["labels"], T)) if "labels" in e else "None",
        c_onat(e.get("cron_offset"), T.off) if "cron_offset" in e else "None")


def c_task(t, T):
    return "(mkTask %s %s %s %s)" % (C.cn(T.name(t["name"])), C.cb(t["own"]), c_labels(t["labels"], T),
                                    "None" if t["schedule"] is None else "(Some %s)" % C.clist([c_entry(e, T) for e in t["schedule"]]))


def c_view(v, T):
    return C.clist(["(%s, %s)" % (C.cn(T.name(n)), C.clist(
        ["(%s, %s)" % (C.cn(u), "(@None labels)" if l is None else "(Some %s)" % c_labels(l, T)) for u, l in ents])) for n, ents in v])


def lit_label(c, o):
    T = Tabs()
    obs = o["obs"]
    ops = []
    for x in obs[1:]:
        if x["op"] == "list":
            res = "None" if x["result"] is None else "(Some %s)" % C.clist(
                [c_payload(s, T, c_labels(s["labels"], T)) for s in x["result"]])
            ops.append("(OList %s %s)" % (res, c_view(x["view"], T)))
        elif x["op"] == "fire":
            s = x["sched"]
            s = dict(s, args=x.get("wire_args", s["args"]), kwargs=x.get("wire_kwargs", s["kwargs"]))
            ops.append("(OFire %s %s %s %s)" % (c_payload(s, T, c_wire_labels(x["expect_labels"], T)), C.cn(T.sid(s["sid"])),
                                                c_effects(x["effects"], s["sid"], T), c_view(x["view"], T)))
    tasks = lambda ts: C.clist([c_task(t, T) for t in ts]) if ts else "(@nil task)"   # noqa: E731 - typed when a case is replayed alone
    return C.cpair(tasks(c["globals"]), tasks(c["locals"]),
                   c_view(obs[0]["view"], T), C.clist(ops))


def hist_oracle(c, o):
    """the statement, firing by firing: (description, step index) of the first firing of the history that breaks it"""
    if len(o["steps"]) != len(c["steps"]):
        return "the history was not run to its end", 0
    for k, (st, x) in enumerate(zip(c["steps"], o["steps"])):
        if st["do"] != "fire":
            continue                     # a send that is not scheduled: nothing of this statement is demanded of it
        p = st["payload"]
        bad = fire_oracle(st["pre"], st["kick_ok"], st["sid"], p["task"], x["sched_args"], x["sched_kwargs"], x["expect_labels"],
                          x["effects"], x.get("decl_labels"))
        if bad:
            return bad, k
    return None, 0


def count_hist(rep, c, o):
    fires = [st for st in c["steps"] if st["do"] == "fire"]
    rep.count("hist:sends in one process=%d (scheduled %d)" % (len(c["steps"]), len(fires)))
    rep.count("hist:brokers=%d" % len(c["brokers"]))
    for n in c.get("pools", []):
        rep.count("hist:label values from the hash-equal pool %r" % n)
    for st, x in zip(c["steps"], o["steps"]):
        if st["do"] == "kiq":
            rep.count("hist:send that is not scheduled (kicker%s), %s" % (
                ".with_labels" if st.get("with") else "", "sent" if any(e[0] == "kick" for e in x["effects"]) else "not sent"))
            continue
        rep.count("hist:firing pre=%s result=%s" % (st["pre"], x["result"]))
        if st.get("sched") == "reuse":
            rep.count("hist:firing through the scheduler object of an earlier step")
        if st.get("same_as") is not None:
            rep.count("hist:the ScheduledTask object of an earlier step fired again")
        for kind in ("pre", "post"):
            if style_of(st, kind) not in ("sync", "async"):
                rep.count("hist:%s non-coroutine awaitable" % kind)
    sent = []
    for st, x in zip(c["steps"], o["steps"]):
        if st["do"] == "kiq":
            sent.append(dict(st.get("decl") or {}, **(st.get("with") or {})))
        elif any(e[0] == "kick" for e in x["effects"]):
            sent.append(st["payload"]["labels"])
        elif st["pre"] == "ok":
            sent.append(st["payload"]["labels"])
    count_pools(rep, "hist", sent)


def explore(ctx, rep, cases, label):
    obs = C.run_driver(ctx, "source_driver", cases)
    fl, fk, ll, lk = [], [], [], []
    for c, o in zip(cases, obs):
        rep.case(c, nontrivial(c))
        if "_crash" in o:
            rep.fail("driver crashed", c, observed=o["_crash"])
            continue
        if c["type"] == "hist":
            count_hist(rep, c, o)
            for st, x in zip(c["steps"], o["steps"]):
                if st["do"] == "fire":
                    p = st["payload"]
                    count_text(rep, "hist", st, c["brokers"][st.get("on", 0) % len(c["brokers"])],
                               [[p["args"], p["kwargs"], p["labels"], st["sid"]]] if any(e[0] == "kick" for e in x["effects"]) else [])
            bad, k = hist_oracle(c, o)
            if bad:
                rep.fail("in a history of sends in one process: " + bad, c, observed=o["steps"][k],
                         expected="every firing, whatever was sent before it: pre_send; unless cancelled: one message = schedule + "
                                  "schedule_id (labels with the schedule's values and types); post_send", sig=dict(step=k))
            for st, x in zip(c["steps"], o["steps"]):
                if st["do"] != "fire":
                    continue
                try:
                    fl.append(lit_fire(st, x))
                    fk.append(c)
                except AssertionError as e:
                    rep.fail("observation not encodable", c, observed=str(e))
            continue
        if c["type"] == "fire":
            rep.count("fire:pre=%s" % c["pre"])
            rep.count("fire:kick_ok=%s" % c["kick_ok"])
            rep.count("fire:result=%s" % o["result"])
            for kind in ("pre", "post"):
                st = style_of(c, kind)
                rep.count("fire:%s_style=%s" % (kind, st))
                if st not in ("sync", "async"):
                    rep.count("fire:%s non-coroutine awaitable, %s" % (kind, "delayed" if c.get(kind + "_d") else "immediate"))
                if kind + "_ret" in c:
                    rep.count("fire:%s returns a value" % kind)
            if style_of(c, "pre") not in ("sync", "async") and c["pre"] != "ok":
                rep.count("fire:pre %s raised %s" % (c["pre"], "inside the awaitable" if c.get("pre_when") != "call" else "by the def"))
            rep.count("fire:bind=%s" % c.get("bind", "class"))
            rep.count("fire:source registered=%s" % c.get("registered", True))
            if c.get("kick_d"):
                rep.count("fire:kick takes time")
            if c.get("cancel_cls") == "sub":
                rep.count("fire:cancel by subclass")
            p = c["payload"]
            count_payload(rep, "fire", c, [[p["args"], p["kwargs"]]], c.get("rich", []),
                          c["pre"] == "ok" and any(e[0] == "kick" for e in o["effects"]))
            count_text(rep, "fire", c, c.get("broker"),
                       [[p["args"], p["kwargs"], p["labels"], c["sid"]]] if any(e[0] == "kick" for e in o["effects"]) else [])
            bad = fire_oracle(c["pre"], c["kick_ok"], c["sid"], p["task"], o["sched_args"], o["sched_kwargs"],
                              o["expect_labels"], o["effects"], o.get("decl_labels"))
            if bad:
                rep.fail(bad, c, observed=o["effects"], expected="pre_send; unless cancelled: one message = schedule + schedule_id; post_send")
            try:
                fl.append(lit_fire(c, o))
                fk.append(c)
            except AssertionError as e:
                rep.fail("observation not encodable", c, observed=str(e))
        else:
            rep.count("label:cb_style=%s" % c.get("cb_style", "sync"))
            if c.get("pools"):
                for n in c["pools"]:
                    rep.count("label:history with task / entry labels from the hash-equal pool %r" % n)
                count_pools(rep, "label", [x.get("decl_labels") or {} for x in o["obs"] if x["op"] == "fire"])
            count_deployment(rep, c, o["obs"])
            fired = [[x["sched"]["args"], x["sched"]["kwargs"]] for x in o["obs"] if x["op"] == "fire"]
            count_payload(rep, "label", c, fired, c.get("rich", []), any(x["op"] == "fire" and is_rich([x["sched"]["args"], x["sched"]["kwargs"]])
                                                          and any(e[0] == "kick" for e in x["effects"]) for x in o["obs"]))
            count_text(rep, "label", c, c.get("broker"),
                       [[x["sched"]["args"], x["sched"]["kwargs"], x["sched"]["labels"]] for x in o["obs"]
                        if x["op"] == "fire" and any(e[0] == "kick" for e in x["effects"])])
            if any(is_rich(e.get("args", [])) or is_rich(e.get("kwargs", {})) for t in c["globals"] + c["locals"]
                   for e in (t["schedule"] or [])):
                rep.count("label:history with entries whose args / kwargs are not JSON-native")
            for x in o["obs"]:
                rep.count("label:op=" + x["op"])
                if x.get("by_hand"):
                    rep.count("label:fired a schedule built by hand for a%s task's entry" %
                              ("n own" if own_of(c).get(x["sched"]["task"]) else " foreign"))
                if x["op"] == "list":
                    rep.count("label:listing=%s" % ("raised" if x["result"] is None else "empty" if not x["result"] else "some"))
            bad, k = label_oracle(c, o["obs"], rep)
            if bad:
                rep.fail(bad, c, observed=o["obs"][k], expected="see statement", sig=dict(step=k))
            try:
                ll.append(lit_label(c, o))
                lk.append(c)
            except AssertionError as e:
                rep.fail("observation not encodable", c, observed=str(e))
    broken = False
    for lits, keep, body, name in ((fl, fk, BODY_FIRE, "on_ready"), (ll, lk, BODY_LABEL, "label_source")):
        if not lits:
            continue
        # at most 250 cases per coqc run, and about ten runs side by side when there are fewer than 2 500 cases (the label
        # histories' literals are large: registry view after every operation)
        bad, fails, _ = C.coq_eval(ctx, label + "_" + name, HEADER, lits, body, shard=max(60, min(250, -(-len(lits) // 10))))
        rep.corr(label + ":" + name, len(lits), bad, fails, lambda i, keep=keep: keep[i])
        rep.traces += len(lits) - len(bad)
        broken = broken or bool(bad or fails)
    return broken


def with_text(r, cases):
    """unusual but valid text in the payloads / labels of a modest share of the stream (one on_ready scenario in 9, one label
    history in 12, one history of sends in 5), drawn from a random stream of its own: every other case is what it was"""
    for k, c in enumerate(cases):
        if c["type"] == "fire" and k % 9 == 4:
            textify_fire(r, c)
        elif c["type"] == "label" and k % 12 == 7 and any(t["schedule"] for t in c["globals"] + c["locals"]):
            textify_label(r, c)
        elif c["type"] == "hist" and k % 5 == 2:
            fires = [st for st in c["steps"] if st["do"] == "fire" and st.get("same_as") is None]
            for st in r.sample(fires, min(len(fires), r.choice([1, 1, 2]))):
                textify_fire(r, st, c["brokers"][st.get("on", 0) % len(c["brokers"])] or {})
            for st in c["steps"]:           # a step that fires the ScheduledTask object of an earlier step again: that schedule
                if st.get("same_as") is not None:
                    st["payload"], st["sid"] = json.loads(json.dumps(c["steps"][st["same_as"]]["payload"])), c["steps"][st["same_as"]]["sid"]
    return cases


def spread(cases, extra):
    """`extra` put into `cases` at even distances (their Coq literals are the largest: they share the shards evenly)"""
    out, step = list(cases), max(1, len(cases) // (len(extra) + 1))
    for i, c in enumerate(extra):
        out.insert(min(len(out), (i + 1) * step + i), c)
    return out


def run(ctx):
    rep = C.Report(ctx, META)
    rep.add_obligations(C.proof_obligations("C16"))
    # source tie: TaskiqScheduler.on_ready re-translated from the source text; srcproofs/Src_on_ready_C16.v re-checked
    src_obs, src_info = srctie.obligations(ctx, "on_ready", "C16")
    rep.add_obligations(src_obs)
    rep.extra["source_tie"] = src_info
    corpus = [c for _, c in C.load_corpus("C16")]
    if corpus:
        explore(ctx, rep, corpus, "corpus")
    r = ctx.sub_rng("gen")
    cases = [gen_fire(r) for _ in range(ctx.n(600, 15000))] + [gen_label(r) for _ in range(ctx.n(900, 25000))]
    rt = ctx.sub_rng("text")
    cases = with_text(rt, cases)
    # histories of sends in one process with hash-equal label values of different types: a stream of their own (the cases above
    # are what they were), about a seventh of the whole
    selfcheck_pools()
    rh = ctx.sub_rng("hist")
    cases += with_text(rt, [gen_hist(rh) for _ in range(ctx.n(130, 4000))])
    cases = spread(cases, [poolify(rh, gen_label(rh)) for _ in range(ctx.n(100, 3000))])
    broken = explore(ctx, rep, cases, "main")
    if (broken or any(not o["ok"] for o in rep.obligations)) and not rep.failures:
        r2 = ctx.sub_rng("search")
        explore(ctx, rep, with_text(r2, [gen_fire(r2) for _ in range(ctx.n(2000, 20000))] + [gen_label(r2) for _ in range(ctx.n(3000, 40000))]
                                    + [gen_hist(r2) for _ in range(ctx.n(400, 5000))])
                + [poolify(r2, gen_label(r2)) for _ in range(ctx.n(400, 5000))], "search")
    return rep.finish()


def replay(ctx, path):
    rec = json.load(open(path))
    c = rec["case"] if "case" in rec else rec
    o = C.run_driver(ctx, "source_driver", [c], nproc=1)[0]
    print("case:", json.dumps(c))
    print("implementation:", json.dumps(o)[:4000])
    if "_crash" in o:
        print("VIOLATED (driver crash)")
        return 1
    if c["type"] == "fire":
        p = c["payload"]
        bad = fire_oracle(c["pre"], c["kick_ok"], c["sid"], p["task"], o["sched_args"], o["sched_kwargs"], o["expect_labels"],
                          o["effects"], o.get("decl_labels"))
        lits = [lit_fire(c, o)]
    elif c["type"] == "hist":
        bad, k = hist_oracle(c, o)
        if bad:
            print("failing step %d: %s\nobserved: %s" % (k, json.dumps(c["steps"][k]), json.dumps(o["steps"][k])[:1500]))
        lits = [lit_fire(st, x) for st, x in zip(c["steps"], o["steps"]) if st["do"] == "fire"]
    else:
        bad, k = label_oracle(c, o["obs"], C.Report(ctx, META))
        if bad:
            print("failing step %d: %s" % (k, json.dumps(o["obs"][k])[:1500]))
        lits = [lit_label(c, o)]
    mb, fails, _ = C.coq_eval(ctx, "replay", HEADER, lits, BODY_LABEL if c["type"] == "label" else BODY_FIRE)
    print("model (coq/theories/SchedSource.v) agrees with the implementation on this input:", not mb and not fails)
    print("statement:", "holds" if not bad else "VIOLATED - " + bad)
    return 1 if bad else 0
