"""C14 - a one-shot schedule is never sent early and at most one second late."""
import json

import common as C
import srctie

US = 10**6
MIN = 60 * US
ZONES = ["Europe/Berlin", "America/New_York", "Asia/Kolkata", "Asia/Kathmandu", "Australia/Lord_Howe",
         "America/St_Johns", "Africa/Casablanca", "Pacific/Chatham"]
META = dict(
    id="C14",
    design_ref="DESIGN.md section 4, C14",
    technique="Coq proof (lia over Z microseconds; Flocq for the one float step) + differential correspondence with get_task_delay",
    level_text="Theorems C14_past / C14_far / C14_near (exhaustive, exclusive cases) over the Gallina transcription `delay` of the "
               "time branch of get_task_delay hold for every (T, now) in Z microseconds; C14_float_trunc covers the binary64 "
               "total_seconds() step for every reachable delay. The model is tied to /repo on every run by evaluating it in Coq "
               "(vm_compute) against the real get_task_delay on boundary-biased (now, T, zone spelling) cases; the Boolean form "
               "of the statement (proved equivalent to it) is also evaluated on every implementation observation.",
    level_note="Trusted: Coq kernel + vm_compute; Reals axioms for C14_float_trunc only (sig_forall_dec, sig_not_dec, "
               "functional_extensionality_dep, classic); the harness' conversion of naive/aware datetimes to integer instants; "
               "CPython datetime arithmetic and pytz conversions (exercised, not modelled).",
    rule="case = (now, T, zone spelling of T); generated boundary-biased (T = now +- few us, whole seconds +- 1us, horizon +- 3us, "
         "minute roll-over) plus uniform +-2 days, plus 15% around UTC-offset transitions of IANA zones (repeated/skipped hour); "
         "42% of the cases run on a HOST whose system time zone is not the harness' UTC (POSIX TZ strings east/west, whole-hour / "
         "30 / 45 / 20 / 1 minute offsets, with and without DST; IANA names; a fifth of them an IANA host at one of its own "
         "transitions; a third with T re-aimed at now / the horizon shifted by the host's offset) - installed with "
         "time.tzset() in the driver, the controlled clock answering now() without tz with the host's local wall clock; "
         "neither the oracle nor the model sees the host zone; non-trivial iff |T-now| <= 62 s or T within 3 us of now / of the horizon; "
         "distinct by (now, T, spelling, host zone); plus back-to-back groups (one case = 2..10 ScheduledTask constructions + "
         "get_task_delay evaluations in ONE process, in a forked child of the driver; about a quarter of the evaluations): the two "
         "readings fold=0 / fold=1 of a repeated wall-clock hour on one tzinfo object (zoneinfo and dateutil zones; wall-clock "
         "fields + fold given to the datetime constructor, T computed by the harness from a fresh tzinfo object), both readings of a "
         "skipped hour, fold=1 where it means nothing, one instant in several spellings, one wall clock in several zones, equal "
         "values as distinct objects, the same datetime object for several tasks, the same task evaluated at several instants, "
         "times handed over as ISO 8601 strings, tasks built one by one or all before the first evaluation (any order), a third on a "
         "non-UTC host (a third of those the zone of the schedules); every element judged on its own by the same oracle and model; "
         "a quarter of the single cases and 40% of the groups also vary the OTHER fields of the schedule, which the statement does "
         "not mention: a cron_offset on the one-shot (None given explicitly, timedelta zero / positive / negative, sub-second, "
         "seconds..an hour, whole and half hours, more than a day, a whole number of seconds the model turns into a timedelta, an "
         "IANA zone name), task_name / labels / args / kwargs / schedule_id shapes (odd strings, keys named time / cron / "
         "cron_offset / schedule, duplicate ids), the construction path (constructor, model_validate of a dict, offset assigned "
         "after construction, model_copy shallow / deep, or a `schedule` label of a task of a real InMemoryBroker returned by the "
         "real LabelScheduleSource.get_schedules() - for build-first groups ONE call for all schedules), one timedelta object "
         "shared by several schedules, the offset re-assigned on a task between two evaluations; 40% of those with an offset aim "
         "T (or now) at now / the horizon / the minute boundary shifted by +- the offset; neither the oracle nor the model sees "
         "any of these fields; a schedule that carries cron AND time (3-4% of the varied ones) is run and counted but not "
         "judged (the cron branch decides: C13); about a quarter of the groups (60 `life` groups of 230, and 8% of the elements of "
         "the others) RE-WORK an object that get_task_delay has already evaluated before evaluating it again: task.time assigned "
         "(re-aimed at the clock of the moment: later / earlier / across the horizon; moved by a fixed amount; the same instant "
         "respelled naive <-> aware / in another zone; the same wall clock with the other fold, without tzinfo, in another zone), the "
         "new time handed to model_copy(update=...) / model_validate of the dumped fields, or assigned on a copy (model_copy shallow "
         "/ deep, copy.copy, copy.deepcopy, pickle round trip, model_validate(model_dump()), the time through its ISO string) of the "
         "evaluated object, unchanged copies, a second object derived from an evaluated one while the original lives on, other "
         "fields re-assigned in between, re-evaluation at the same instant / seconds / a poll later; every evaluation judged on its "
         "own with the target assigned last (the driver also reads task.time back from the evaluated object)",
    trusted_base=["model: coq/theories/SchedDelay.v (hand-written transcription of get_task_delay's time branch)",
                  "datetime<->integer instant conversion in harness/drivers/sched_delay.py"],
    assumptions=["asyncio.sleep(d) not waking early is outside this property (C15)"],
)


def oracle(now, T, obs):
    """literal transcription of the property statement"""
    nb = now // MIN * MIN + MIN
    if T <= now:
        return obs == 0
    if T > nb + US:
        return obs is None
    return isinstance(obs, int) and not isinstance(obs, bool) and T <= now + obs * US < T + US


def gen_spell(r):
    k = r.random()
    if k < .25:
        return {"kind": "naive"}
    if k < .35:
        return {"kind": "utc"}
    if k < .4:
        return {"kind": "pytzutc"}
    if k < .65:
        return {"kind": "fixed", "minutes": r.randint(-12, 14) * 60 + r.choice([0, 0, 30, 45])}
    if k < .9:
        return {"kind": "pytz", "zone": r.choice(ZONES)}
    return {"kind": "zoneinfo", "zone": r.choice(ZONES)}


_TRANS = {}


def transitions(zone):
    """UTC transition instants (us) of `zone` between 2015 and 2035, from pytz's own tables"""
    if zone not in _TRANS:
        import datetime as dt

        import pytz
        tz = pytz.timezone(zone)
        ep = dt.datetime(1970, 1, 1)
        _TRANS[zone] = [int((t - ep).total_seconds()) * US for t in getattr(tz, "_utc_transition_times", [])
                        if 2015 <= t.year < 2035]
    return _TRANS[zone]


def gen_dst_case(r):
    """now and T around a UTC-offset transition of an IANA zone (repeated / skipped local hour)"""
    zone = r.choice(ZONES)
    tr = r.choice(transitions(zone) or [1_700_000_000 * US])
    k = r.random()
    if k < .4:      # straddle the transition within the look-ahead window
        now = tr - r.randrange(0, 61 * US)
        T = tr + r.randrange(0, 61 * US)
    elif k < .7:    # both within two hours around it, any order
        now = tr + r.randrange(-7200 * US, 7200 * US)
        T = now + r.choice([1, -1]) * r.randrange(0, 7200 * US)
    else:           # same local wall-clock reading, one hour (or the zone's shift) apart
        now = tr + r.randrange(-3600 * US, 3600 * US)
        T = now + r.choice([-1, 1]) * r.choice([1800, 3600, 2700]) * US + r.randrange(-70, 70) * US
    return dict(type="time", now=now, T=T, spell={"kind": r.choice(["zoneinfo", "zoneinfo", "pytz"]), "zone": zone})


# The time zone of the HOST the scheduler runs on (TZ / /etc/localtime): an input the statement does not mention - the
# verdict must not depend on it.  POSIX TZ strings (no zone database needed; (string, standard offset, DST offset) in
# minutes east of UTC) and IANA names resolved by the C library (offsets read from pytz at generation time, only to AIM
# the case - neither the oracle nor the model ever sees the host zone).
HOSTS_POSIX = [("UTC0", 0, 0), ("MSK-3", 180, 180), ("EST5EDT", -300, -240), ("EST5", -300, -300), ("IST-5:30", 330, 330),
               ("NPT-5:45", 345, 345), ("NZST-12NZDT", 720, 780), ("<+14>-14", 840, 840), ("<-12>12", -720, -720),
               ("NST3:30NDT", -210, -150), ("AEST-10AEDT,M10.1.0,M4.1.0/3", 600, 660), ("CET-1CEST", 60, 120),
               ("GMT0BST", 0, 60), ("PST8PDT", -480, -420), ("<+0020>-0:20", 20, 20), ("<-0001>0:01", -1, -1)]
HOSTS_IANA = ZONES + ["Asia/Tokyo", "America/Los_Angeles", "Pacific/Kiritimati", "Etc/GMT+12", "Europe/London",
                      "America/Sao_Paulo", "Asia/Tehran"]


def host_offsets(host, now):
    """the UTC offsets (us) the host zone may show around `now` - used only to aim T"""
    for h, a, b in HOSTS_POSIX:
        if h == host:
            return [a * MIN, b * MIN]
    import datetime as dt

    import pytz
    t = dt.datetime(1970, 1, 1) + dt.timedelta(microseconds=now)
    tz = pytz.timezone(host.lstrip(":"))
    return [int(tz.utcoffset(t + dt.timedelta(days=d), is_dst=False).total_seconds()) * US for d in (0, 182)]


def gen_host(r, c):
    """give the case a host zone other than the harness default; a third of them re-aim T at the instants a
    local-wall-clock confusion moves the decision to (now / the horizon shifted by the host's UTC offset)"""
    k = r.random()
    if k < .2:      # IANA host zone with `now` (and so T) around one of ITS OWN offset transitions: the naive local
        zone = r.choice(ZONES)   # wall clock repeats / skips an hour while the scheduler is deciding
        tr = r.choice(transitions(zone) or [1_700_000_000 * US])
        d = c["T"] - c["now"]
        c["now"] = tr + (r.randrange(-61 * US, 61 * US) if r.random() < .5 else r.randrange(-7200 * US, 7200 * US))
        c["T"] = c["now"] + d
        c["host"] = zone
        c["hostkind"] = "iana-at-own-transition"
        return c
    if k < .65:
        c["host"] = r.choice(HOSTS_POSIX)[0]
        c["hostkind"] = "posix"
    else:
        c["host"] = (":" if r.random() < .1 else "") + r.choice(HOSTS_IANA)   # ":name" = glibc's explicit file form
        c["hostkind"] = "iana"
    if r.random() < .35:
        off = r.choice(host_offsets(c["host"], c["now"])) * r.choice([1, 1, -1])
        hor = (c["now"] + MIN) // MIN * MIN + US
        c["T"] = r.choice([c["now"], hor, hor, c["now"] // MIN * MIN + MIN]) + off + r.choice(
            [0, 1, -1, US, -US, r.randrange(-3, 4), r.randrange(-62 * US, 62 * US)])
        c["hostkind"] += ":T-at-local-reading"
    if r.random() < .1:   # T written in the host's own local zone (datetime.astimezone() without argument)
        c["spell"] = {"kind": "hostlocal"}
    return c


def gen_case(r):
    c = gen_dst_case(r) if r.random() < .15 else gen_plain(r)
    if r.random() < .42:
        c = gen_host(r, c)
    if r.random() < .25:
        c = gen_sched(r, c)
    return c


# The OTHER fields of the schedule.  The statement speaks of "a schedule with a target time T": which task it names, its
# labels / args / kwargs / schedule_id, whether it ALSO carries a cron_offset (LabelScheduleSource copies the key of the
# label dict onto every schedule, cron or not; a source with a column default does the same) and through which door it
# became a ScheduledTask are not in it - the verdict must not depend on them.  Until round 6 all of them were constants.
OFFZONES = ZONES + ["UTC", "Asia/Tokyo", "Etc/GMT+12", "Pacific/Kiritimati", "America/Los_Angeles"]
NAMES = ["t", "pkg.mod:task", "", " ", "None", "t\u00e4sk-\u2713", "a" * 300, "cron", "time", "0", "two\nlines"]
LABELS = [{}, {"queue": "q"}, {"cron_offset": 10800}, {"time": "2030-01-01T00:00:00"}, {"cron": "* * * * *"},
          {"schedule": [{"cron": "* * * * *"}]}, {"a": None, "b": [1, {"c": 2}], "": ""}, {"retry_on_error": True, "max_retries": 3},
          {"cron_offset": "Europe/Berlin", "time": 0}]
ARGS = [[], [1], [None], ["a", 2.5, [1, 2], {"k": "v"}], [0] * 20]
KWARGS = [{}, {"x": 1}, {"time": 1, "cron_offset": "Europe/Berlin"}, {"a": {"b": [1, None]}}, {"cron": None}]
SIDS = ["", "dup", "0", "x" * 64, "\u0438\u0434-1", "id with spaces", "dup"]
CRONS = ["* * * * *", "0 0 1 1 *", "*/5 * * * *", "59 23 31 12 *"]


def gen_off_td(r):
    """a non-zero timedelta offset: sub-second, seconds .. an hour, zone-like whole / half hours, more than a day"""
    k = r.random()
    if k < .2:
        us = r.choice([1, 2, 999_999, 500_000, r.randrange(1, US)])
    elif k < .45:
        us = r.randrange(1, 3600) * US + r.choice([0, 0, 1, 999_999, r.randrange(US)])
    elif k < .8:
        us = r.randint(1, 14) * 3600 * US + r.choice([0, 0, 30, 45]) * MIN
    else:
        us = r.randrange(24 * 3600, 46 * 3600) * US + r.choice([0, 0, r.randrange(US)])
    off = {"kind": "td", "us": r.choice([1, 1, -1]) * us}
    if us % US == 0 and r.random() < .15:
        off["as"] = "seconds"      # the whole number of seconds a JSON-ish source stores; the model makes a timedelta of it
    return off


def gen_off(r):
    k = r.random()
    if k < .1:
        return None
    if k < .2:
        return {"kind": "td", "us": 0}
    if k < .32:
        return {"kind": "zone", "zone": r.choice(OFFZONES)}
    return gen_off_td(r)


def off_shift(off, now):
    """the amount (us) a confusion of the offset with the one-shot branch would move a decision boundary by"""
    if off is None:
        return 0
    if off["kind"] == "td":
        return off["us"]
    return offset_at(off["zone"], now)


def off_cat(off):
    if off is None:
        return "none"
    if off["kind"] == "zone":
        return "zone name"
    us = off["us"]
    if us == 0:
        return "timedelta zero"
    a = abs(us)
    return "timedelta %s %s%s" % ("positive" if us > 0 else "negative",
                                  "sub-second" if a < US else "up to an hour" if a <= 3600 * US else
                                  "hours" if a < 86400 * US else "more than a day",
                                  " (handed over as a number of seconds)" if off.get("as") == "seconds" else "")


def gen_fields(r, sc, p=.3):
    if r.random() < p:
        sc["name"] = r.choice(NAMES)
    if r.random() < p:
        sc["labels"] = r.choice(LABELS)
    if r.random() < p:
        sc["args"] = r.choice(ARGS)
    if r.random() < p:
        sc["kwargs"] = r.choice(KWARGS)
    if r.random() < p and sc.get("how") != "label":     # the label source cannot choose the id
        sc["sid"] = r.choice(SIDS)


def gen_how(r, sc):
    sc["how"] = r.choices(["ctor", "label", "validate", "assign", "copy"], [.33, .3, .12, .13, .12])[0]
    if sc["how"] == "copy":
        sc["deep"] = r.random() < .5
    if sc["how"] == "assign" and "off" not in sc:
        sc["off"] = gen_off(r)


def gen_sched(r, c):
    """give a single time case the other fields of a schedule; 40 % of those with an offset re-aim T at the instants a
    confusion of the offset with the one-shot branch moves the decision to (now / the horizon / the minute boundary
    shifted by +- the offset)"""
    sc = {}
    if r.random() < .78:
        sc["off"] = gen_off(r)
        if sc["off"] is None:
            sc["offkey"] = True        # cron_offset=None handed over explicitly, as LabelScheduleSource does
    gen_how(r, sc)
    gen_fields(r, sc)
    if r.random() < .04:
        sc["cron"] = r.choice(CRONS)   # cron AND time: the cron branch decides (C13) - run, counted, not judged here
    c["sched"] = sc
    sh = off_shift(sc.get("off"), c["now"])
    if sh and r.random() < .4 and "T-at-local-reading" not in (c.get("hostkind") or ""):
        hor = (c["now"] + MIN) // MIN * MIN + US
        c["T"] = r.choice([c["now"], c["now"], hor, hor, c["now"] // MIN * MIN + MIN]) + sh * r.choice([1, 1, -1]) + r.choice(
            [0, 1, -1, US, -US, r.randrange(-3, 4), r.randrange(-62 * US, 62 * US)])
        c["aim"] = "offset-reading"
    return c


def gen_plain(r):
    base = r.choice([1_420_070_400, 1_700_000_000, 1_790_000_000, 2_040_000_000])
    now = (base + r.randrange(0, 86400 * 400)) * US + r.choice([0, 0, 1, 999_999, r.randrange(US)])
    k = r.random()
    if k < .15:   # pin the second of the minute
        now = now // MIN * MIN + r.choice([0, 1, 59, 58, 30]) * US + r.choice([0, 1, 999_999, r.randrange(US)])
    return dict(type="time", now=now, T=aim_T(r, now), spell=gen_spell(r))


def aim_T(r, now):
    """a target time around `now`: boundary-biased (now, whole seconds, the horizon, the minute boundary), or anywhere"""
    hor = (now + MIN) // MIN * MIN + US
    k = r.random()
    if k < .35:
        return now + r.choice([-1, 0, 1, US, US - 1, US + 1, 2 * US, 59 * US, 60 * US, 61 * US, -US]) + r.randrange(-3, 4)
    if k < .6:
        return hor + r.randrange(-3, 4)
    if k < .8:
        return now + r.randrange(0, 62) * US + r.choice([0, 0, 1, -1, r.randrange(US)])
    if k < .9:
        return now // MIN * MIN + MIN + r.randrange(-2, 3)
    return now + r.randrange(-2 * 86400 * US, 2 * 86400 * US)


# ---------------------------------------------------------------- back-to-back groups (one scheduler process, several schedules)
# The statement speaks about ONE schedule and ONE reading of the clock, so a stream of independent (now, T) cases, each a
# single ScheduledTask in whatever process the shard runs in, holds constant everything a long-lived scheduler keeps
# between schedules: which ScheduledTask / datetime / tzinfo OBJECTS it has seen before.  A group is one case: several
# schedule times constructed (the real model, validators included) and evaluated one after the other in ONE process.
# The times of a group are chosen to look alike to anything that identifies a time by less than its instant: the two
# readings (fold 0 / 1) of a repeated wall-clock hour on one tzinfo object - datetime's own == and hash ignore fold
# there -, both readings of a skipped hour, fold=1 where it means nothing, one instant spelled in several zones, one
# wall clock in several zones, equal values that are distinct objects, the same object / the same task again.
# Every element is judged on its own by the unchanged oracle and model.  T of a wall-clock spelling is computed HERE, in the
# harness process, from a fresh tzinfo object (datetime arithmetic, utcoffset() with fold) - never through taskiq.
EPOCH_AWARE = None
_FRESH = {}


def _epoch():
    global EPOCH_AWARE
    if EPOCH_AWARE is None:
        import datetime as dt
        EPOCH_AWARE = dt.datetime(1970, 1, 1, tzinfo=dt.timezone.utc)
    return EPOCH_AWARE


def pep495_zone(kind, zone):
    """a tzinfo of a PEP 495 zone library over pytz's own copy of the zone data (what the driver reads, separately)"""
    import os

    import pytz
    path = os.path.join(os.path.dirname(pytz.__file__), "zoneinfo", zone)
    if kind == "zoneinfo":
        import zoneinfo
        return zoneinfo.ZoneInfo.from_file(open(path, "rb"), key=zone)
    import dateutil.tz
    return dateutil.tz.tzfile(path)


def gzone(kind, zone):
    if (kind, zone) not in _FRESH:
        _FRESH[kind, zone] = pep495_zone(kind, zone)
    return _FRESH[kind, zone]


def wall_instant(kind, zone, wall, fold):
    """the instant (us) the aware datetime (wall-clock fields, fold, zone) denotes: datetime's own arithmetic"""
    import datetime as dt
    d = dt.datetime(*wall, fold=fold, tzinfo=gzone(kind, zone))
    return (d - _epoch()) // dt.timedelta(microseconds=1)


def wall_of(kind, zone, T):
    """(wall-clock fields, fold) the zone shows at instant T"""
    import datetime as dt
    d = (_epoch() + dt.timedelta(microseconds=T)).astimezone(gzone(kind, zone))
    return [d.year, d.month, d.day, d.hour, d.minute, d.second, d.microsecond], d.fold


def offset_at(zone, T):
    import datetime as dt
    off = (_epoch() + dt.timedelta(microseconds=T)).astimezone(gzone("zoneinfo", zone)).utcoffset()
    return (off.days * 86400 + off.seconds) * US + off.microseconds


def shift_wall(wall, us):
    import datetime as dt
    d = dt.datetime(*wall) + dt.timedelta(microseconds=us)
    return [d.year, d.month, d.day, d.hour, d.minute, d.second, d.microsecond]


_SHIFTS = {}


def zone_shifts(zone):
    """[(transition instant, offset before - offset after)] of the zone, 2015-2035: > 0 a repeated, < 0 a skipped hour"""
    if zone not in _SHIFTS:
        _SHIFTS[zone] = [(t, d) for t in transitions(zone) for d in [offset_at(zone, t - 1) - offset_at(zone, t)] if d]
    return _SHIFTS[zone]


DSTZ = [z for z in ZONES if z not in ("Asia/Kolkata", "Asia/Kathmandu")]
SUBSEC = [(0, 0), (0, 0), (1, 0), (1, 1), (1, 2), (0, 999_999), (0, 1), (59, 999_999), (30, 500_000)]


def wall_value(kind, zone, wall, fold, tag, tzid=0):
    return dict(T=wall_instant(kind, zone, wall, fold), tag=tag,
                spell=dict(kind=kind, zone=zone, wall=wall, fold=fold, tzid=tzid))


def pin_subsec(r, T):
    """move T inside its minute to a second / microsecond where the horizon and rounding boundaries sit"""
    if r.random() < .6:
        s, us = r.choice(SUBSEC)
        return T // MIN * MIN + s * US + us
    return T


def aim_now(r, T):
    """a `now` around T: the boundary-biased distances of the single-case generator, seen from T"""
    k = r.random()
    if k < .3:
        return T - r.choice([-1, 0, 1, US, US - 1, US + 1, 2 * US, 59 * US, 60 * US, 61 * US, -US]) + r.randrange(-3, 4)
    if k < .65:
        return T - r.randrange(0, 62) * US - r.choice([0, 0, 1, -1, r.randrange(US)])
    if k < .8:      # T at / around the horizon of now: now somewhere in the minute before the one T - 1 s starts
        return (T - US) // MIN * MIN - r.randrange(1, MIN + 1) + r.choice([0, 0, MIN])
    if k < .9:
        return T + r.randrange(0, 5 * US)
    return T + r.randrange(-7200 * US, 7200 * US)


def gen_group(r):
    zone = r.choice(DSTZ)
    kind = r.choice(["zoneinfo", "zoneinfo", "dateutil"])
    scen = r.choices(["fold-pair", "gap", "same-instant", "same-wall", "repeat"], [.4, .1, .2, .15, .15])[0]
    sh = zone_shifts(zone)
    vals = []
    if scen == "fold-pair" and not [x for x in sh if x[1] > 0]:
        scen = "same-instant"
    if scen == "gap" and not [x for x in sh if x[1] < 0]:
        scen = "same-instant"
    if scen == "fold-pair":       # one wall clock of the repeated hour, both readings, ONE tzinfo object
        tr, d = r.choice([x for x in sh if x[1] > 0])
        first = pin_subsec(r, tr - r.randrange(1, d + 1))             # an instant of the first pass
        if not tr - d <= first < tr:
            first = tr - r.randrange(1, d + 1)
        wall, f = wall_of(kind, zone, first)
        tzid = 0
        for fold in r.sample([0, 1], 2):
            if r.random() < .12:
                tzid += 1        # the other reading on another tzinfo instance of the same zone
            vals.append(wall_value(kind, zone, wall, fold, "repeated-hour fold=%d" % fold, tzid))
        if r.random() < .4:      # a neighbour one shift earlier / later on the wall clock: unambiguous, any fold
            w2 = shift_wall(wall, r.choice([-1, 1]) * d)
            vals.append(wall_value(kind, zone, w2, r.choice([0, 1]), "next to the repeated hour"))
        if r.random() < .25:     # a second wall clock of the same repeated hour
            w2, _ = wall_of(kind, zone, tr - r.randrange(1, d + 1))
            vals.append(wall_value(kind, zone, w2, r.choice([0, 1]), "repeated-hour other wall clock"))
    elif scen == "gap":          # a wall clock the zone skips: fold picks the offset before / after (PEP 495)
        tr, d = r.choice([x for x in sh if x[1] < 0])
        wall = shift_wall(wall_of(kind, zone, tr - 1)[0], 1 + r.randrange(0, -d))
        if r.random() < .5:
            wall[5], wall[6] = r.choice(SUBSEC)
        for fold in r.sample([0, 1], 2):
            vals.append(wall_value(kind, zone, wall, fold, "skipped-hour fold=%d" % fold))
    elif scen == "same-instant":  # one instant, several spellings (zones, libraries, fold=1 where it means nothing)
        c = gen_dst_case(r) if r.random() < .5 else gen_plain(r)
        T = pin_subsec(r, c["T"])
        for _ in range(r.choice([2, 3, 3, 4])):
            vals.append(instant_value(r, T, zone, "one instant, several spellings"))
    elif scen == "same-wall":    # one wall clock read in several zones: different instants that print alike
        c = gen_dst_case(r) if r.random() < .3 else gen_plain(r)
        wall, _ = wall_of("zoneinfo", zone, pin_subsec(r, c["T"]))
        for z in [zone] + r.sample([z for z in ZONES if z != zone], r.choice([1, 2])):
            try:
                vals.append(wall_value(r.choice(["zoneinfo", "dateutil"]), z, wall, r.choice([0, 0, 1]),
                                       "one wall clock, several zones"))
            except (ValueError, OverflowError):
                pass
        import datetime as dt
        Tw = (dt.datetime(*wall) - dt.datetime(1970, 1, 1)) // dt.timedelta(microseconds=1)
        vals.append(dict(T=Tw, tag="one wall clock, several zones", spell={"kind": "naive"}))
        if r.random() < .5:
            m = r.randint(-12, 14) * 60 + r.choice([0, 0, 30, 45])
            vals.append(dict(T=Tw - m * MIN, tag="one wall clock, several zones", spell={"kind": "fixed", "minutes": m}))
    else:                        # one value many times
        c = gen_dst_case(r) if r.random() < .5 else gen_plain(r)
        vals.append(instant_value(r, pin_subsec(r, c["T"]), zone, "one value again and again"))
    if r.random() < .3:          # fold=1 where the wall clock is not ambiguous
        T = pin_subsec(r, vals[0]["T"] + r.choice([-1, 1]) * r.choice([3600, 86400, 60, 7 * 86400]) * US)
        wall, f = wall_of(kind, zone, T)
        try:
            vals.append(wall_value(kind, zone, wall, 1 - f if r.random() < .8 else f, "fold flipped on some wall clock"))
        except (ValueError, OverflowError):
            pass
    host, hostkind = None, None
    if r.random() < .3:          # the whole group on ONE host zone; a third of them the very zone of the schedules
        k = r.random()
        if k < .35:
            host, hostkind = zone, "iana-of-the-schedules"
        elif k < .7:
            host, hostkind = r.choice(HOSTS_POSIX)[0], "posix"
        else:
            host, hostkind = r.choice(HOSTS_IANA), "iana"
    pool = None
    if r.random() < .4:          # the schedules of this process also differ in their OTHER fields (see gen_sched): a few
        pool = [gen_off(r) for _ in range(r.choice([1, 2, 2, 3]))]   # offsets shared by the schedules, as one label dict is
        if not any(o and o.get("us") for o in pool) and r.random() < .7:
            pool[0] = gen_off_td(r)
    Ts = [v["T"] for v in vals]
    picks = list(range(len(vals))) + [r.randrange(len(vals)) for _ in range(r.randint(1, max(1, 9 - len(vals))))]
    elems = []
    for vi in picks:
        v = vals[vi]
        e = dict(type="time", now=aim_now(r, v["T"] if r.random() < .6 else r.choice(Ts)), T=v["T"], spell=v["spell"],
                 tag=v["tag"], scen=scen, val=vi)
        if pool is not None:
            e["_oi"] = r.randrange(len(pool))
            sh = off_shift(pool[e["_oi"]], e["now"])
            if sh and r.random() < .4:     # now aimed so that T sits at now / the horizon shifted by the offset
                e["now"] -= sh * r.choice([1, 1, -1])
                e["aim"] = "offset-reading"
        if host:
            e["host"], e["hostkind"] = host, hostkind
        elems.append(e)
    elems.sort(key=lambda e: e["now"])      # time does not run backwards inside one process
    st = new_slots()
    for k, e in enumerate(elems):
        prev = [p for p in elems[:k] if p["val"] == e["val"]]
        x = r.random()
        if k and r.random() < .08:   # an evaluated ScheduledTask object RE-TARGETED to this element's time (any earlier one)
            reuse_task(r, e, r.choice(elems[:k]), st, elems[:k])
        elif prev and x < .2:     # the same ScheduledTask evaluated again (the loop, a minute later)
            reuse_task(r, e, r.choice(prev), st, elems[:k])
        elif prev and x < .45:    # the same datetime OBJECT handed to another ScheduledTask
            e["obj"] = r.choice(prev)["obj"]
        else:                     # an equal value, a distinct object (the zone object stays shared)
            e["obj"] = st["n"]
            st["n"] += 1
            if x > .9:
                e["via"] = "iso"
    g = dict(type="group", group=elems, mode=r.choice(["interleaved", "build-first"]), scen=scen)
    if g["mode"] == "build-first":
        g["build_order"] = r.sample(range(len(elems)), len(elems))
    if pool is not None:
        sched_group(r, g, pool)
    return g


# A long-lived schedule OBJECT.  Until round 7 a ScheduledTask that was evaluated twice carried the same target both times
# (only its cron_offset was ever re-assigned): what the object was when get_task_delay FIRST saw it and what it is NOW
# were the same thing.  In-memory schedule sources postpone / pull forward / re-arm a schedule by assigning `task.time`
# (the model is mutable) or by model_copy(update={"time": ...}) of the evaluated object; stores hand back pickled or
# re-validated copies.  The statement speaks of the target time the schedule HAS when it is evaluated.
DERIVES = ["model_copy", "model_copy_deep", "copy.copy", "copy.deepcopy", "pickle", "revalidate", "revalidate_iso"]


def new_slots():
    return {"n": 0, "slot": {}}


def gen_re(r, changed):
    """how an evaluated object is re-worked before its next evaluation"""
    re = {}
    k = r.random()
    if changed:
        re["set_time"] = True
        if k < .5:
            pass                                      # task.time = value
        elif k < .75:                                 # the new time is part of the copy operation itself
            re["derive"] = r.choice(["model_copy", "model_copy", "model_copy_deep", "revalidate"])
            re["in_copy"] = True
        else:                                         # a copy of the evaluated object, then the assignment on the copy
            re["derive"] = r.choice(DERIVES)
    elif k >= .5:
        re["derive"] = r.choice(DERIVES)              # an unchanged copy is what gets evaluated
    return re


def reuse_task(r, e, p, st, before):
    """element e evaluates the ScheduledTask object of the earlier element p again.  While the object carries e's own value
    and was never re-worked this is the plain re-evaluation of round 5; otherwise e["re"] says how the object gets e's time"""
    if p.get("task") is None:
        p["task"] = st["n"]
        st["n"] += 1
        st["slot"][p["task"]] = {"val": p["val"], "re": False}
    s = st["slot"][p["task"]]
    e["task"] = p["task"]
    if s["val"] == e["val"] and not s["re"] and r.random() < .8:
        e["obj"] = p["obj"]
        if p.get("via"):
            e["via"] = p["via"]
        return
    e["re"] = gen_re(r, s["val"] != e["val"])
    e["re"]["change"] = "another schedule time of the group" if s["val"] != e["val"] else "none"
    same = [q for q in before if q["val"] == e["val"]]
    if same and r.random() < .3:     # the very datetime object another schedule holds
        e["obj"] = r.choice(same)["obj"]
    else:
        e["obj"] = st["n"]
        st["n"] += 1
    s["val"], s["re"] = e["val"], True


def respelled(r, T, like, zone, tag):
    """instant T in the spelling of value `like` where that is possible, else in any"""
    sp = like["spell"]
    if "wall" in sp:
        wall, fold = wall_of(sp["kind"], sp["zone"], T)
        v = wall_value(sp["kind"], sp["zone"], wall, fold, tag, sp.get("tzid", 0))
        return v if v["T"] == T else instant_value(r, T, zone, tag)
    return dict(T=T, tag=tag, spell={k: v for k, v in sp.items() if k != "fold"})


def life_change(r, change, pv, now, zone, kind):
    """the next target of an object whose current one is pv"""
    import datetime as dt
    sp = pv["spell"]
    if change == "aim":           # postponed / pulled forward / re-armed relative to the clock of the moment
        T = aim_T(r, now)
        return respelled(r, T, pv, zone, "re-aimed at the clock") if r.random() < .5 else instant_value(
            r, T, zone, "re-aimed at the clock")
    if change == "shift":         # moved by a fixed amount
        T = pv["T"] + r.choice([1, -1]) * r.choice([1, US, 30 * US, MIN, 10 * MIN, 3600 * US, 86400 * US, r.randrange(1, 120 * US)])
        return respelled(r, T, pv, zone, "moved by a fixed amount")
    if change == "respell":       # the same instant written another way (naive <-> aware, another zone)
        return instant_value(r, pv["T"], zone, "same instant, other spelling")
    if change == "flip":          # the same wall clock, the other fold (== and hash of datetime do not see it)
        if "wall" in sp:
            return wall_value(sp["kind"], sp["zone"], sp["wall"], 1 - sp["fold"], "same wall clock, fold flipped", sp.get("tzid", 0))
        wall, f = wall_of(kind, zone, pv["T"])
        return wall_value(kind, zone, wall, 1 - f, "same wall clock, fold flipped")
    if change == "same-wall":     # the same wall clock read as naive / in another zone / at a fixed offset
        wall, f = (sp["wall"], sp["fold"]) if "wall" in sp else wall_of("zoneinfo", zone, pv["T"])
        Tw = (dt.datetime(*wall) - dt.datetime(1970, 1, 1)) // dt.timedelta(microseconds=1)
        k = r.random()
        if k < .4 and sp.get("kind") != "naive":
            return dict(T=Tw, tag="same wall clock, tzinfo dropped", spell={"kind": "naive"})
        if k < .75:
            return wall_value(r.choice(["zoneinfo", "dateutil"]), r.choice(ZONES), wall, f, "same wall clock, other zone")
        m = r.randint(-12, 14) * 60 + r.choice([0, 0, 30, 45])
        return dict(T=Tw - m * MIN, tag="same wall clock, fixed offset", spell={"kind": "fixed", "minutes": m})
    raise ValueError(change)


def gen_life(r):
    """the life of a long-lived schedule object: evaluated, re-targeted / copied / stored and loaded, evaluated again ...
    One group = 2..8 evaluations of 1..3 objects that descend from one ScheduledTask; every evaluation judged on its own
    with the target the object carries at that evaluation"""
    zone = r.choice(DSTZ)
    kind = r.choice(["zoneinfo", "zoneinfo", "dateutil"])
    rep_h = [x for x in zone_shifts(zone) if x[1] > 0]
    c = gen_dst_case(r) if r.random() < .25 else gen_plain(r)
    now = c["now"]
    if rep_h and r.random() < .2:    # the first target inside a repeated hour, as wall clock + fold
        tr, d = r.choice(rep_h)
        wall, f = wall_of(kind, zone, tr - r.randrange(1, d + 1))
        v0 = wall_value(kind, zone, wall, r.choice([0, 1]), "repeated-hour wall clock")
        now = aim_now(r, v0["T"])
    else:
        v0 = instant_value(r, pin_subsec(r, c["T"]) if r.random() < .3 else c["T"], zone, "first target")
    vals = [v0]
    st = new_slots()
    host, hostkind = None, None
    if r.random() < .3:
        k = r.random()
        if k < .35:
            host, hostkind = zone, "iana-of-the-schedules"
        elif k < .7:
            host, hostkind = r.choice(HOSTS_POSIX)[0], "posix"
        else:
            host, hostkind = r.choice(HOSTS_IANA), "iana"
    pool = [gen_off(r) for _ in range(r.choice([1, 2]))] if r.random() < .5 else None

    def elem(vi, slot):
        v = vals[vi]
        e = dict(type="time", now=now, T=v["T"], spell=v["spell"], tag=v["tag"], scen="life", val=vi, task=slot)
        if pool is not None:
            e["_oi"] = r.randrange(len(pool))
        if host:
            e["host"], e["hostkind"] = host, hostkind
        return e

    def new_obj(e):
        e["obj"] = st["n"]
        st["n"] += 1

    slots = [0]                       # slot -> index of the value the object in it carries
    elems = [elem(0, 0)]
    new_obj(elems[0])
    for _ in range(r.choice([1, 1, 2, 2, 3, 4, 5, 7])):
        now += r.choice([0, 0, 1, r.randrange(5 * US), r.randrange(50 * US, 62 * US), MIN, r.randrange(1, 4) * MIN + r.randrange(US)])
        k = r.random()
        if k >= .92 and len(slots) < 3:    # an unrelated new schedule next to the long-lived ones
            vals.append(instant_value(r, aim_T(r, now), zone, "another schedule"))
            slots.append(len(vals) - 1)
            elems.append(elem(len(vals) - 1, len(slots) - 1))
            new_obj(elems[-1])
            continue
        src = r.randrange(len(slots))
        slot = len(slots) if k >= .75 and len(slots) < 3 else src   # a NEW object derived from an evaluated one / the same
        pv = vals[slots[src]]
        change = r.choices(["none", "aim", "shift", "respell", "flip", "same-wall"], [.12, .38, .2, .12, .1, .08])[0]
        v = pv
        if change != "none":
            try:
                v = life_change(r, change, pv, now, zone, kind)
            except (ValueError, OverflowError):
                v = pv
        if v["T"] == pv["T"] and C.canon(v["spell"]) == C.canon(pv["spell"]):
            change, vi = "none", slots[src]
        else:
            vals.append(v)
            vi = len(vals) - 1
            if r.random() < .3:       # the clock of this evaluation aimed at the new target
                cand = aim_now(r, v["T"])
                if 0 <= cand - elems[-1]["now"] < 10 * MIN:
                    now = cand
        e = elem(vi, slot)
        e["re"] = gen_re(r, vi != slots[src])
        e["re"]["change"] = change
        if slot != src:
            e["re"]["src"] = src
            if "derive" not in e["re"]:
                e["re"]["derive"] = r.choice(DERIVES)
            slots.append(vi)
        else:
            slots[slot] = vi
        if change == "none" and "in_copy" not in e["re"] and r.random() < .3:
            e["re"]["set_time"] = True      # the value it already has assigned again: the same object or an equal one
            prev = [q for q in elems if q["val"] == vi]
            if r.random() < .5 and prev:
                e["obj"] = prev[-1]["obj"]
        if "obj" not in e:
            new_obj(e)
        elems.append(e)
    g = dict(type="group", group=elems, mode=r.choice(["interleaved", "build-first"]), scen="life")
    if g["mode"] == "build-first":
        g["build_order"] = r.sample(range(len(elems)), len(elems))
    if pool is not None:
        sched_group(r, g, pool)
    return g


def sched_group(r, g, pool):
    """the other fields of the schedules of one process: offsets from a small pool (the very same timedelta object on
    several schedules in half of the groups), one or two task names, duplicate schedule ids, mixed construction paths -
    or, for build-first groups, every schedule a label of ONE broker returned by one LabelScheduleSource.get_schedules();
    a task evaluated again keeps its fields, a third of those get their offset re-assigned first"""
    share = r.random() < .5
    names = r.sample(NAMES, r.choice([1, 1, 2]))
    if g["mode"] == "build-first" and r.random() < .4:
        g["source"] = "label"
    first = {}
    for e in g["group"]:
        oi = e.pop("_oi")
        if "re" in e and e["re"].get("src", e["task"]) in first:
            # a re-worked object keeps the other fields it had; a third get one of them re-assigned as well; cron AND time
            # objects (not judged) mostly lose their cron and become ordinary one-shots that were evaluated before
            sc = json.loads(json.dumps(first[e["re"].get("src", e["task"])]))
            if r.random() < .3:
                f, v = r.choice([("name", NAMES), ("labels", LABELS), ("args", ARGS), ("kwargs", KWARGS), ("sid", SIDS)])
                sc[f] = r.choice(v)
                e["re"].setdefault("set", {})[f] = sc[f]
            if sc.get("cron") is not None and r.random() < .6:
                del sc["cron"]
                e["re"].setdefault("set", {})["cron"] = None
            if r.random() < .25:
                e["reoff"] = r.choice(pool) if r.random() < .6 else gen_off(r)
            e["sched"] = sc
            first[e["task"]] = sc
            continue
        if e.get("task") is not None and e["task"] in first:
            e["sched"] = json.loads(json.dumps(first[e["task"]]))
            if r.random() < .35:
                e["reoff"] = r.choice(pool) if r.random() < .6 else gen_off(r)
            continue
        sc = {}
        if r.random() < .85:
            sc["off"] = pool[oi]
            if sc["off"] is None:
                sc["offkey"] = True
            elif share and sc["off"]["kind"] == "td" and sc["off"].get("as") != "seconds":
                sc["offobj"] = oi
        if g.get("source") == "label":
            sc["how"] = "label"
        else:
            gen_how(r, sc)
        if r.random() < .5:
            sc["name"] = r.choice(names)
        gen_fields(r, sc, .2)
        if "name" in sc and sc["name"] not in names:
            sc["name"] = r.choice(names)
        if r.random() < .03:
            sc["cron"] = r.choice(CRONS)
        e["sched"] = sc
        if e.get("task") is not None:
            first[e["task"]] = sc


def instant_value(r, T, zone, tag):
    """instant T in one of the spellings: the instant-derived ones of the single cases, or wall clock + fold in a PEP 495 zone"""
    if r.random() < .5:
        kind = r.choice(["zoneinfo", "dateutil"])
        z = zone if r.random() < .6 else r.choice(ZONES)
        wall, fold = wall_of(kind, z, T)
        v = wall_value(kind, z, wall, fold, tag)
        if v["T"] == T:           # (dateutil reads a few instants next to a transition differently on the way back:
            return v              # then the instant is spelled another way)
    sp = gen_spell(r)
    if sp["kind"] == "zoneinfo":
        sp = {"kind": "pytz", "zone": sp["zone"]}
    if r.random() < .3:
        sp["fold"] = 1            # means nothing for naive / fixed-offset / pytz values: the same instant
    return dict(T=T, tag=tag, spell=sp)


def nontrivial(c):
    hor = (c["now"] + MIN) // MIN * MIN + US
    if abs(c["T"] - c["now"]) <= 62 * US or abs(c["T"] - hor) <= 3:
        return True
    sh = off_shift(eff_off(c), c["now"])     # T at now / the horizon as a reading shifted by the schedule's offset sees them
    return bool(sh) and any(abs(c["T"] - c["now"] - x) <= 62 * US or abs(c["T"] - hor - x) <= 3 for x in (sh, -sh))


def eff_off(c):
    """the cron_offset the evaluated schedule carries (the re-assigned one where the element re-assigns it)"""
    return c["reoff"] if "reoff" in c else (c.get("sched") or {}).get("off")


def not_judged(c):
    """cron AND time on one schedule: the cron branch decides whether it is due - C13's statement, not this one"""
    return (c.get("sched") or {}).get("cron") is not None


def sched_counts(rep, c, o):
    sc = c.get("sched")
    if not sc:
        rep.count("sched:other fields constant (task 't', no labels / args / kwargs, no cron_offset, constructor)")
        return
    rep.count("sched:schedules with other fields varied")
    rep.count("sched:cron_offset on a one-shot:" + (off_cat(sc["off"]) if "off" in sc else "not given"))
    if "reoff" in c:
        rep.count("sched:cron_offset re-assigned on an existing task before the evaluation:" + off_cat(c["reoff"]))
    rep.count("sched:built through:" + sc.get("how", "ctor"))
    for k, name in (("name", "task_name"), ("labels", "labels"), ("args", "args"), ("kwargs", "kwargs"), ("sid", "schedule_id")):
        if k in sc:
            rep.count("sched:field varied:" + name)
    if c.get("aim"):
        rep.count("sched:T / now aimed at now / the horizon / the minute boundary shifted by +- the offset")
    if "off_seen" in o:
        rep.count("sched:offset as the evaluated task carries it:" + o["off_seen"].split(":")[0])
    if sc.get("cron") is not None:
        rep.count("sched:cron AND time on one schedule (cron branch decides - C13; run, not judged)")


COQ_HEADER = """From Coq Require Import ZArith List. Import ListNotations.
From TQ Require Import SchedDelay.
Open Scope Z_scope."""
COQ_BODY = """Fixpoint bad (i : nat) (l : list (Z * Z * option Z)) : list nat :=
  match l with [] => [] | (now, T, o) :: t =>
    if andb (oeqb (delay T now) o) (C14_check T now o) then bad (S i) t else i :: bad (S i) t end.
Eval vm_compute in bad 0%nat cases."""


GROUP_NOTE = " [element of a back-to-back group: several schedules built and evaluated in one process]"


def flatten(cases, obs):
    """(element, its observation, the case to record when it fails) - the elements of a group are judged one by one;
    the recorded case is the whole group (what else was built / evaluated in the process is part of the input)"""
    out = []
    for c, o in zip(cases, obs):
        if c.get("type") != "group":
            out.append((c, o, c))
            continue
        eo = o["group"] if "group" in o else [o] * len(c["group"])
        for k, (e, x) in enumerate(zip(c["group"], eo)):
            out.append((e, x, dict(c, at=k)))
    return out


def group_counts(rep, g):
    """what one group revisits - counted from the case alone"""
    el = g["group"]
    rep.count("group:groups")
    rep.count("group:elements", len(el))
    rep.count("group:scenario:" + g.get("scen", "corpus"))
    rep.count("group:mode:" + g.get("mode", "interleaved"))
    rep.count("group:distinct-schedule-times=%d" % len({e["T"] for e in el}))
    walls = {}
    for k, e in enumerate(el):
        sp = e["spell"]
        if "wall" in sp:
            walls.setdefault((sp["kind"], sp["zone"], sp.get("tzid", 0), tuple(sp["wall"])), set()).add(e["T"])
    if any(len(v) > 1 for v in walls.values()):
        rep.count("group:one wall clock on ONE tzinfo object denotes two instants (fold 0 / 1)")
    by_obj, by_task, by_T = {}, {}, {}
    for e in el:
        by_obj.setdefault(e.get("obj"), []).append(e)
        by_T.setdefault(e["T"], set()).add(C.canon(e["spell"]))
        if e.get("task") is not None:
            by_task.setdefault(e["task"], []).append(e)
    if any(k is not None and len(v) > 1 for k, v in by_obj.items()):
        rep.count("group:one datetime object handed over more than once")
    if any(len(v) > 1 for v in by_task.values()):
        rep.count("group:one ScheduledTask evaluated at several instants")
    if any(len(v) > 1 for v in by_T.values()):
        rep.count("group:one instant in several spellings")
    if len({(e["T"], C.canon(e["spell"])) for e in el}) < len({e.get("obj") for e in el}):
        rep.count("group:equal values as distinct objects")
    retarget_counts(rep, el)
    if not any(e.get("sched") for e in el):
        return
    rep.count("group:sched:groups whose schedules differ in their other fields")
    if g.get("source") == "label":
        rep.count("group:sched:all schedules labels of ONE broker, from ONE LabelScheduleSource.get_schedules()")
    scs = [e["sched"] for e in el if e.get("sched")]
    if len({C.canon(sc.get("off")) for sc in scs}) > 1:
        rep.count("group:sched:schedules with different offsets in one process")
    by_oo = {}
    for e in el:
        sc = e.get("sched") or {}
        if sc.get("offobj") is not None and e.get("task") is None:
            by_oo.setdefault((sc["offobj"], sc["off"]["us"]), []).append(e)
    if any(len(v) > 1 for v in by_oo.values()):
        rep.count("group:sched:one timedelta object on several schedules")
    sids = [sc["sid"] for e in el for sc in [e.get("sched") or {}] if "sid" in sc and e.get("task") is None]
    if len(sids) > len(set(sids)):
        rep.count("group:sched:duplicate schedule_id")
    for T in {e["T"] for e in el}:
        if len({C.canon(eff_off(e)) for e in el if e["T"] == T}) > 1:
            rep.count("group:sched:one target time with different offsets")
            break


def vclass(e):
    return "zero" if e["T"] <= e["now"] else "none" if e["T"] > e["now"] // MIN * MIN + MIN + US else "delay"


def re_how(re):
    d = re.get("derive")
    if not re.get("set_time"):
        return "evaluated again as it is" if not d else "an unchanged copy (%s)" % d
    if not d:
        return "task.time = value"
    return "%s with the new time in the copy operation" % d if re.get("in_copy") else "copy (%s), then copy.time = value" % d


def retarget_counts(rep, el):
    """what the re-worked objects of one group went through - counted from the case alone"""
    last, any_re = {}, False
    for e in el:
        re = e.get("re")
        if re is not None:
            any_re = True
            p = last.get(re.get("src", e.get("task")))
            rep.count("retarget:evaluations of an object that was evaluated before and re-worked since")
            rep.count("retarget:change:" + re.get("change", "corpus"))
            rep.count("retarget:through:" + re_how(re))
            if "src" in re:
                rep.count("retarget:a NEW object derived from an evaluated one, the original stays alive")
            if p is not None:
                rep.count("retarget:target %s" % ("moved later" if e["T"] > p["T"] else "moved earlier" if e["T"] < p["T"] else
                                                  "the same instant"))
                rep.count("retarget:verdict class at the previous evaluation -> at this one:%s -> %s" % (vclass(p), vclass(e)))
                a, b = p["spell"]["kind"] == "naive", e["spell"]["kind"] == "naive"
                if a != b:
                    rep.count("retarget:naive <-> aware")
                if "wall" in p["spell"] and "wall" in e["spell"] and p["spell"]["wall"] == e["spell"]["wall"] and (
                        p["spell"]["zone"] == e["spell"]["zone"] and p["spell"]["fold"] != e["spell"]["fold"]):
                    rep.count("retarget:same wall clock, other fold (%s)" % ("another instant" if e["T"] != p["T"] else "same instant"))
                if e["now"] == p["now"]:
                    rep.count("retarget:re-evaluated at the very same instant of the clock")
            for f in re.get("set") or {}:
                rep.count("retarget:other field re-assigned between two evaluations:" + f)
        if e.get("task") is not None:
            last[e["task"]] = e
    if any_re:
        rep.count("retarget:groups with a re-worked object")


def explore(ctx, rep, cases, label):
    obs = C.run_driver(ctx, "sched_delay", cases)
    lits, keep = [], []
    for c in cases:
        if c.get("type") == "group":
            group_counts(rep, c)
    for c, o, rec in flatten(cases, obs):
        ing = rec is not c
        rep.case(c, nontrivial(c) and not not_judged(c))
        sp = c["spell"]
        rep.count("spell:" + sp["kind"] + (":wall-clock+fold" if "wall" in sp else ""))
        if "wall" in sp or sp.get("fold"):
            rep.count("fold:%d on %s" % (sp.get("fold", 0), c.get("tag") or ("a %s value" % sp["kind"])))
        if c.get("via"):
            rep.count("via:" + c["via"])
        rep.count("host-zone:" + (c.get("hostkind") or "UTC (harness default)"))
        if c.get("host"):
            rep.count("host-zone-string:" + c["host"])
            if "host_off_us" in o:
                ho = o["host_off_us"]
                rep.count("host-offset:" + ("zero" if ho == 0 else ("east" if ho > 0 else "west") +
                                            (" whole hours" if ho % (3600 * US) == 0 else " with minutes")))
        if "spelled_us" in o and o["spelled_us"] != c["T"]:
            # not an observation of taskiq: the driver's own reading of the spelled value (objects taskiq never saw)
            raise RuntimeError("harness inconsistency: case %s spells instant %r, the generator computed %r" % (
                json.dumps(c), o["spelled_us"], c["T"]))
        sched_counts(rep, c, o)
        if "re" in c and "carried_us" in o:
            rep.count("retarget:task.time read back from the evaluated object is the element's T:%s" % (o["carried_us"] == c["T"]))
        if o.get("stale"):       # the object does not carry this element's T because the element that assigned it is not
            rep.count("retarget:stale element (its predecessor is missing) - not judged")   # there (hand-made / shrunk groups)
            continue
        if not_judged(c):
            continue
        if "_crash" in o:
            rep.fail("get_task_delay raised" + (GROUP_NOTE if ing else ""), rec, observed=o["_crash"])
            continue
        d = o["delay"]
        rep.count("outcome:" + ("none" if d is None else "zero" if d == 0 else "delay"))
        if ing:
            rep.count("group:outcome:" + ("none" if d is None else "zero" if d == 0 else "delay"))
        if o.get("badtype") or not oracle(c["now"], c["T"], d):
            rep.fail("one-shot delay violates the statement (early, >1 s late, or wrong case)" + (GROUP_NOTE if ing else ""),
                     shrink_group(ctx, rec) if ing and not any(GROUP_NOTE in f["what"] for f in rep.failures) else rec,
                     observed=d, expected="T<=now: 0; T>next minute boundary+1s: None; else d with T <= now+d < T+1s")
            if o.get("badtype"):
                continue
        lits.append(C.cpair(C.cz(c["now"]), C.cz(c["T"]), C.copt(d, C.cz)))
        keep.append(rec)
    bad, fails, _ = C.coq_eval(ctx, label, COQ_HEADER, lits, COQ_BODY)
    rep.corr(label, len(lits), bad, fails, lambda i: keep[i])
    rep.traces += len(lits) - len(bad)
    return bad or fails


def elem_fails(e, x):
    if not_judged(e) or x.get("stale"):
        return False
    return "_crash" in x or bool(x.get("badtype")) or not oracle(e["now"], e["T"], x["delay"])


def shrink_group(ctx, g):
    """the recorded replay of the first failing group: drop elements one at a time while element `at` still fails when the
    remaining group runs alone in a fresh process (every candidate is a whole group case of its own)"""
    for _ in range(12):
        el, at = g["group"], g["at"]
        cands = []
        for j in range(len(el)):
            if j == at:
                continue
            keepi = [i for i in range(len(el)) if i != j]
            c = dict(g, group=[el[i] for i in keepi], at=keepi.index(at))
            if g.get("build_order"):
                c["build_order"] = [keepi.index(i) for i in g["build_order"] if i != j]
            cands.append(c)
        if not cands:
            break
        obs = C.run_driver(ctx, "sched_delay", cands, nproc=1)
        for c, o in zip(cands, obs):
            if "group" in o and elem_fails(c["group"][c["at"]], o["group"][c["at"]]):
                g = c
                break
        else:
            break
    return g


def float_exhaustive(ctx, rep):
    """thorough tier: int(n / 10**6) == n // 10**6 for every reachable delay n (0 .. 62 s), exhaustively"""
    import multiprocessing as mp
    lim = 62 * US
    step = lim // 16 + 1
    with mp.Pool(16) as pool:
        res = pool.map(_float_range, [(a, min(a + step, lim)) for a in range(0, lim, step)])
    badn = [b for r in res for b in r]
    rep.extra["float_truncation_exhaustive_upto_us"] = lim
    rep.obligations.append(dict(name="cpython:int(n/10**6)==n//10**6 exhaustively for n<62e6", ok=not badn, axioms=[],
                                detail="all equal" if not badn else "differs at %r" % badn[:3]))
    for b in badn[:1]:
        rep.fail("binary64 truncation of total_seconds() differs from the integer quotient", dict(n=b))


def _float_range(ab):
    a, b = ab
    return [n for n in range(a, b) if int(n / 10**6) != n // 10**6][:3]


def run(ctx):
    rep = C.Report(ctx, META)
    rep.add_obligations(C.proof_obligations("C14"))
    # source tie: get_task_delay / to_tz_aware are re-translated from the repository's source text and the
    # committed proofs (generated = model; C14 over the generated definition) are re-checked against them
    src_obs, src_info = srctie.obligations(ctx, "sched_run", "C14")
    rep.add_obligations(src_obs)
    rep.extra["source_tie"] = src_info
    corpus = [c for _, c in C.load_corpus("C14")]
    if corpus:
        explore(ctx, rep, corpus, "corpus")
    r = ctx.sub_rng("gen")
    cases = [gen_case(r) for _ in range(ctx.n(3600, 200000))]
    broken = explore(ctx, rep, cases, "main")
    rg = ctx.sub_rng("groups")
    rl = ctx.sub_rng("life")
    broken = explore(ctx, rep, [gen_group(rg) for _ in range(ctx.n(170, 9000))] + [gen_life(rl) for _ in range(ctx.n(60, 3000))],
                     "back-to-back-groups") or broken
    if not ctx.quick:
        float_exhaustive(ctx, rep)
    if (broken or any(not o["ok"] for o in rep.obligations)) and not rep.failures:
        r2 = ctx.sub_rng("search")
        explore(ctx, rep, [gen_case(r2) for _ in range(ctx.n(30000, 400000))] +
                [gen_group(r2) for _ in range(ctx.n(1500, 20000))] + [gen_life(r2) for _ in range(ctx.n(500, 7000))], "search")
    return rep.finish()


def replay(ctx, path):
    rec = json.load(open(path))
    c = rec["case"] if "case" in rec else rec
    if c.get("type") == "group":
        return replay_group(ctx, c)
    obs = C.run_driver(ctx, "sched_delay", [c], nproc=1)[0]
    print("case:", json.dumps(c))
    print("implementation:", obs)
    print("host time zone of the scheduler process (TZ): %s%s" % (c.get("host") or "UTC (harness default)", "" if not c.get(
        "host") else "; its naive local wall clock now() reads %s, UTC offset %s us - the statement does not depend on it" % (
        obs.get("local_now"), obs.get("host_off_us"))))
    if c.get("sched"):
        print("other fields of the schedule (the statement for a schedule with a target time mentions none of them): " + show_sched(c))
        print("the evaluated task carries cron_offset=%s cron=%r" % (obs.get("off_seen"), obs.get("cron_seen")))
    nb = c["now"] // MIN * MIN + MIN
    print("statement: T<=now -> 0; T > %d -> None; else T <= now + d*1e6 < T + 1e6" % (nb + US))
    if not_judged(c):
        print("cron AND time on one schedule: the cron branch decides (C13) - not judged by C14")
        print("holds")
        return 0
    ok = "_crash" not in obs and not obs.get("badtype") and oracle(c["now"], c["T"], obs["delay"])
    print("holds" if ok else "VIOLATED")
    return 0 if ok else 1


def show_off(off):
    if off is None:
        return "None"
    if off["kind"] == "zone":
        return repr(off["zone"])
    return "timedelta(microseconds=%d)%s" % (off["us"], " given as %d seconds" % (off["us"] // US) if off.get("as") == "seconds" else "")


def show_sched(e):
    sc = e.get("sched")
    if not sc:
        return ""
    out = ["built through " + sc.get("how", "ctor")]
    if "off" in sc:
        out.append("cron_offset=" + show_off(sc["off"]) + ("" if sc.get("offobj") is None else " (timedelta object#%d)" % sc["offobj"]))
    if "reoff" in e:
        out.append("cron_offset RE-ASSIGNED to %s before this evaluation" % show_off(e["reoff"]))
    if sc.get("cron") is not None:
        out.append("cron=%r" % sc["cron"])
    for k in ("name", "sid", "labels", "args", "kwargs"):
        if k in sc:
            v = json.dumps(sc[k])
            out.append("%s=%s" % (k, v if len(v) < 60 else v[:57] + "..."))
    return "; ".join(out)


def show_re(e):
    re = e.get("re")
    if re is None:
        return ""
    out = ["RE-WORKED object of slot %s: %s" % (re.get("src", e.get("task")), re_how(re))]
    for f, v in (re.get("set") or {}).items():
        out.append("%s re-assigned to %s" % (f, json.dumps(v)[:40]))
    return " <" + "; ".join(out) + ">"


def show_spell(e):
    sp = e["spell"]
    if "wall" in sp:
        return "%s %04d-%02d-%02dT%02d:%02d:%02d.%06d fold=%d in %s" % ((sp["kind"],) + tuple(sp["wall"]) + (sp["fold"], sp["zone"]))
    return json.dumps(sp)


def replay_group(ctx, g):
    """the whole group again in one fresh process, every element judged on its own"""
    o = C.run_driver(ctx, "sched_delay", [g], nproc=1)[0]
    obs = o["group"] if "group" in o else [o] * len(g["group"])
    print("back-to-back group: %d schedules built (%s%s) and evaluated in ONE process%s" % (
        len(obs), g.get("mode", "interleaved"), "" if not g.get("build_order") else ", construction order %r" % g["build_order"],
        "" if g.get("at") is None else " (recorded failing element: %d)" % g["at"]))
    if g.get("source") == "label":
        print("every schedule is an entry of the `schedule` label of a task of ONE InMemoryBroker; "
              "ONE LabelScheduleSource.get_schedules() call built them all")
    if g["group"] and g["group"][0].get("host"):
        print("host time zone of the scheduler process (TZ): %s - the statement does not depend on it" % g["group"][0]["host"])
    rc = 0
    for k, (e, x) in enumerate(zip(g["group"], obs)):
        head = "[%d] now=%d T=%d (T-now=%d us) spelled %s%s%s%s%s" % (
            k, e["now"], e["T"], e["T"] - e["now"], show_spell(e), "" if e.get("obj") is None else " object#%d" % e["obj"],
            "" if e.get("task") is None else " task#%d" % e["task"], "" if not e.get("via") else " via " + e["via"],
            "" if not e.get("sched") else " {%s}" % show_sched(e)) + show_re(e)
        if "re" in e or x.get("carried_us") not in (None, e["T"]):
            head += " [task.time read back: %r]" % (x.get("carried_us"),)
        if x.get("stale"):
            print(head + ": the object does not carry this element's T (the element that assigned it is missing): not judged")
            continue
        if not_judged(e):
            print(head + ": got %r - cron AND time, the cron branch decides (C13): not judged" % (x.get("delay"),))
            continue
        if x.get("spelled_us") not in (None, e["T"]):
            print(head + ": HARNESS INCONSISTENCY (the spelled value is instant %r)" % x["spelled_us"])
            rc = 1
            continue
        if "_crash" in x:
            print(head + ": VIOLATED (raised) " + x["_crash"][-300:])
            rc = 1
            continue
        ok = not elem_fails(e, x)
        nb = e["now"] // MIN * MIN + MIN
        print(head + ": expected %s, got %r: %s" % (
            "0" if e["T"] <= e["now"] else "None" if e["T"] > nb + US else "d with T <= now + d*1e6 < T + 1e6",
            x["delay"], "holds" if ok else "VIOLATED"))
        rc |= 0 if ok else 1
    print("holds" if rc == 0 else "VIOLATED")
    return rc
