"""C14 - a one-shot schedule is never sent early and at most one second late."""
import json

import common as C
import srctie

US = 10**6
MIN = 60 * US
ZONES = ["Europe/Berlin", "America/New_York", "Asia/Kolkata", "Asia/Kathmandu", "Australia/Lord_Howe",
         "America/St_Johns", "Africa/Casablanca", "Pacific/Chatham"]
META = dict(
    id="C14",
    design_ref="DESIGN.md section 4, C14",
    technique="Coq proof (lia over Z microseconds; Flocq for the one float step) + differential correspondence with get_task_delay",
    level_text="Theorems C14_past / C14_far / C14_near (exhaustive, exclusive cases) over the Gallina transcription `delay` of the "
               "time branch of get_task_delay hold for every (T, now) in Z microseconds; C14_float_trunc covers the binary64 "
               "total_seconds() step for every reachable delay. The model is tied to /repo on every run by evaluating it in Coq "
               "(vm_compute) against the real get_task_delay on boundary-biased (now, T, zone spelling) cases; the Boolean form "
               "of the statement (proved equivalent to it) is also evaluated on every implementation observation.",
    level_note="Trusted: Coq kernel + vm_compute; Reals axioms for C14_float_trunc only (sig_forall_dec, sig_not_dec, "
               "functional_extensionality_dep, classic); the harness' conversion of naive/aware datetimes to integer instants; "
               "CPython datetime arithmetic and pytz conversions (exercised, not modelled).",
    rule="case = (now, T, zone spelling of T); generated boundary-biased (T = now +- few us, whole seconds +- 1us, horizon +- 3us, "
         "minute roll-over) plus uniform +-2 days, plus 15% around UTC-offset transitions of IANA zones (repeated/skipped hour); "
         "42% of the cases run on a HOST whose system time zone is not the harness' UTC (POSIX TZ strings east/west, whole-hour / "
         "30 / 45 / 20 / 1 minute offsets, with and without DST; IANA names; a fifth of them an IANA host at one of its own "
         "transitions; a third with T re-aimed at now / the horizon shifted by the host's offset) - installed with "
         "time.tzset() in the driver, the controlled clock answering now() without tz with the host's local wall clock; "
         "neither the oracle nor the model sees the host zone; non-trivial iff |T-now| <= 62 s or T within 3 us of now / of the horizon; "
         "distinct by (now, T, spelling, host zone)",
    trusted_base=["model: coq/theories/SchedDelay.v (hand-written transcription of get_task_delay's time branch)",
                  "datetime<->integer instant conversion in harness/drivers/sched_delay.py"],
    assumptions=["asyncio.sleep(d) not waking early is outside this property (C15)"],
)


def oracle(now, T, obs):
    """literal transcription of the property statement"""
    nb = now // MIN * MIN + MIN
    if T <= now:
        return obs == 0
    if T > nb + US:
        return obs is None
    return isinstance(obs, int) and not isinstance(obs, bool) and T <= now + obs * US < T + US


def gen_spell(r):
    k = r.random()
    if k < .25:
        return {"kind": "naive"}
    if k < .35:
        return {"kind": "utc"}
    if k < .4:
        return {"kind": "pytzutc"}
    if k < .65:
        return {"kind": "fixed", "minutes": r.randint(-12, 14) * 60 + r.choice([0, 0, 30, 45])}
    if k < .9:
        return {"kind": "pytz", "zone": r.choice(ZONES)}
    return {"kind": "zoneinfo", "zone": r.choice(ZONES)}


_TRANS = {}


def transitions(zone):
    """UTC transition instants (us) of `zone` between 2015 and 2035, from pytz's own tables"""
    if zone not in _TRANS:
        import datetime as dt

        import pytz
        tz = pytz.timezone(zone)
        ep = dt.datetime(1970, 1, 1)
        _TRANS[zone] = [int((t - ep).total_seconds()) * US for t in getattr(tz, "_utc_transition_times", [])
                        if 2015 <= t.year < 2035]
    return _TRANS[zone]


def gen_dst_case(r):
    """now and T around a UTC-offset transition of an IANA zone (repeated / skipped local hour)"""
    zone = r.choice(ZONES)
    tr = r.choice(transitions(zone) or [1_700_000_000 * US])
    k = r.random()
    if k < .4:      # straddle the transition within the look-ahead window
        now = tr - r.randrange(0, 61 * US)
        T = tr + r.randrange(0, 61 * US)
    elif k < .7:    # both within two hours around it, any order
        now = tr + r.randrange(-7200 * US, 7200 * US)
        T = now + r.choice([1, -1]) * r.randrange(0, 7200 * US)
    else:           # same local wall-clock reading, one hour (or the zone's shift) apart
        now = tr + r.randrange(-3600 * US, 3600 * US)
        T = now + r.choice([-1, 1]) * r.choice([1800, 3600, 2700]) * US + r.randrange(-70, 70) * US
    return dict(type="time", now=now, T=T, spell={"kind": r.choice(["zoneinfo", "zoneinfo", "pytz"]), "zone": zone})


# The time zone of the HOST the scheduler runs on (TZ / /etc/localtime): an input the statement does not mention - the
# verdict must not depend on it.  POSIX TZ strings (no zone database needed; (string, standard offset, DST offset) in
# minutes east of UTC) and IANA names resolved by the C library (offsets read from pytz at generation time, only to AIM
# the case - neither the oracle nor the model ever sees the host zone).
HOSTS_POSIX = [("UTC0", 0, 0), ("MSK-3", 180, 180), ("EST5EDT", -300, -240), ("EST5", -300, -300), ("IST-5:30", 330, 330),
               ("NPT-5:45", 345, 345), ("NZST-12NZDT", 720, 780), ("<+14>-14", 840, 840), ("<-12>12", -720, -720),
               ("NST3:30NDT", -210, -150), ("AEST-10AEDT,M10.1.0,M4.1.0/3", 600, 660), ("CET-1CEST", 60, 120),
               ("GMT0BST", 0, 60), ("PST8PDT", -480, -420), ("<+0020>-0:20", 20, 20), ("<-0001>0:01", -1, -1)]
HOSTS_IANA = ZONES + ["Asia/Tokyo", "America/Los_Angeles", "Pacific/Kiritimati", "Etc/GMT+12", "Europe/London",
                      "America/Sao_Paulo", "Asia/Tehran"]


def host_offsets(host, now):
    """the UTC offsets (us) the host zone may show around `now` - used only to aim T"""
    for h, a, b in HOSTS_POSIX:
        if h == host:
            return [a * MIN, b * MIN]
    import datetime as dt

    import pytz
    t = dt.datetime(1970, 1, 1) + dt.timedelta(microseconds=now)
    tz = pytz.timezone(host.lstrip(":"))
    return [int(tz.utcoffset(t + dt.timedelta(days=d), is_dst=False).total_seconds()) * US for d in (0, 182)]


def gen_host(r, c):
    """give the case a host zone other than the harness default; a third of them re-aim T at the instants a
    local-wall-clock confusion moves the decision to (now / the horizon shifted by the host's UTC offset)"""
    k = r.random()
    if k < .2:      # IANA host zone with `now` (and so T) around one of ITS OWN offset transitions: the naive local
        zone = r.choice(ZONES)   # wall clock repeats / skips an hour while the scheduler is deciding
        tr = r.choice(transitions(zone) or [1_700_000_000 * US])
        d = c["T"] - c["now"]
        c["now"] = tr + (r.randrange(-61 * US, 61 * US) if r.random() < .5 else r.randrange(-7200 * US, 7200 * US))
        c["T"] = c["now"] + d
        c["host"] = zone
        c["hostkind"] = "iana-at-own-transition"
        return c
    if k < .65:
        c["host"] = r.choice(HOSTS_POSIX)[0]
        c["hostkind"] = "posix"
    else:
        c["host"] = (":" if r.random() < .1 else "") + r.choice(HOSTS_IANA)   # ":name" = glibc's explicit file form
        c["hostkind"] = "iana"
    if r.random() < .35:
        off = r.choice(host_offsets(c["host"], c["now"])) * r.choice([1, 1, -1])
        hor = (c["now"] + MIN) // MIN * MIN + US
        c["T"] = r.choice([c["now"], hor, hor, c["now"] // MIN * MIN + MIN]) + off + r.choice(
            [0, 1, -1, US, -US, r.randrange(-3, 4), r.randrange(-62 * US, 62 * US)])
        c["hostkind"] += ":T-at-local-reading"
    if r.random() < .1:   # T written in the host's own local zone (datetime.astimezone() without argument)
        c["spell"] = {"kind": "hostlocal"}
    return c


def gen_case(r):
    c = gen_dst_case(r) if r.random() < .15 else gen_plain(r)
    if r.random() < .42:
        c = gen_host(r, c)
    return c


def gen_plain(r):
    base = r.choice([1_420_070_400, 1_700_000_000, 1_790_000_000, 2_040_000_000])
    now = (base + r.randrange(0, 86400 * 400)) * US + r.choice([0, 0, 1, 999_999, r.randrange(US)])
    k = r.random()
    if k < .15:   # pin the second of the minute
        now = now // MIN * MIN + r.choice([0, 1, 59, 58, 30]) * US + r.choice([0, 1, 999_999, r.randrange(US)])
    hor = (now + MIN) // MIN * MIN + US
    k = r.random()
    if k < .35:
        T = now + r.choice([-1, 0, 1, US, US - 1, US + 1, 2 * US, 59 * US, 60 * US, 61 * US, -US]) + r.randrange(-3, 4)
    elif k < .6:
        T = hor + r.randrange(-3, 4)
    elif k < .8:
        T = now + r.randrange(0, 62) * US + r.choice([0, 0, 1, -1, r.randrange(US)])
    elif k < .9:
        T = now // MIN * MIN + MIN + r.randrange(-2, 3)
    else:
        T = now + r.randrange(-2 * 86400 * US, 2 * 86400 * US)
    return dict(type="time", now=now, T=T, spell=gen_spell(r))


def nontrivial(c):
    hor = (c["now"] + MIN) // MIN * MIN + US
    return abs(c["T"] - c["now"]) <= 62 * US or abs(c["T"] - hor) <= 3


COQ_HEADER = """From Coq Require Import ZArith List. Import ListNotations.
From TQ Require Import SchedDelay.
Open Scope Z_scope."""
COQ_BODY = """Fixpoint bad (i : nat) (l : list (Z * Z * option Z)) : list nat :=
  match l with [] => [] | (now, T, o) :: t =>
    if andb (oeqb (delay T now) o) (C14_check T now o) then bad (S i) t else i :: bad (S i) t end.
Eval vm_compute in bad 0%nat cases."""


def explore(ctx, rep, cases, label):
    obs = C.run_driver(ctx, "sched_delay", cases)
    lits, keep = [], []
    for c, o in zip(cases, obs):
        rep.case(c, nontrivial(c))
        rep.count("spell:" + c["spell"]["kind"])
        rep.count("host-zone:" + (c.get("hostkind") or "UTC (harness default)"))
        if c.get("host"):
            rep.count("host-zone-string:" + c["host"])
            if "host_off_us" in o:
                ho = o["host_off_us"]
                rep.count("host-offset:" + ("zero" if ho == 0 else ("east" if ho > 0 else "west") +
                                            (" whole hours" if ho % (3600 * US) == 0 else " with minutes")))
        if "_crash" in o:
            rep.fail("get_task_delay raised", c, observed=o["_crash"])
            continue
        d = o["delay"]
        rep.count("outcome:" + ("none" if d is None else "zero" if d == 0 else "delay"))
        if o.get("badtype") or not oracle(c["now"], c["T"], d):
            rep.fail("one-shot delay violates the statement (early, >1 s late, or wrong case)", c, observed=d,
                     expected="T<=now: 0; T>next minute boundary+1s: None; else d with T <= now+d < T+1s")
            if o.get("badtype"):
                continue
        lits.append(C.cpair(C.cz(c["now"]), C.cz(c["T"]), C.copt(d, C.cz)))
        keep.append(c)
    bad, fails, _ = C.coq_eval(ctx, label, COQ_HEADER, lits, COQ_BODY)
    rep.corr(label, len(lits), bad, fails, lambda i: keep[i])
    rep.traces += len(lits) - len(bad)
    return bad or fails


def float_exhaustive(ctx, rep):
    """thorough tier: int(n / 10**6) == n // 10**6 for every reachable delay n (0 .. 62 s), exhaustively"""
    import multiprocessing as mp
    lim = 62 * US
    step = lim // 16 + 1
    with mp.Pool(16) as pool:
        res = pool.map(_float_range, [(a, min(a + step, lim)) for a in range(0, lim, step)])
    badn = [b for r in res for b in r]
    rep.extra["float_truncation_exhaustive_upto_us"] = lim
    rep.obligations.append(dict(name="cpython:int(n/10**6)==n//10**6 exhaustively for n<62e6", ok=not badn, axioms=[],
                                detail="all equal" if not badn else "differs at %r" % badn[:3]))
    for b in badn[:1]:
        rep.fail("binary64 truncation of total_seconds() differs from the integer quotient", dict(n=b))


def _float_range(ab):
    a, b = ab
    return [n for n in range(a, b) if int(n / 10**6) != n // 10**6][:3]


def run(ctx):
    rep = C.Report(ctx, META)
    rep.add_obligations(C.proof_obligations("C14"))
    # source tie: get_task_delay / to_tz_aware are re-translated from the repository's source text and the
    # committed proofs (generated = model; C14 over the generated definition) are re-checked against them
    src_obs, src_info = srctie.obligations(ctx, "sched_run", "C14")
    rep.add_obligations(src_obs)
    rep.extra["source_tie"] = src_info
    corpus = [c for _, c in C.load_corpus("C14")]
    if corpus:
        explore(ctx, rep, corpus, "corpus")
    r = ctx.sub_rng("gen")
    cases = [gen_case(r) for _ in range(ctx.n(3400, 200000))]
    broken = explore(ctx, rep, cases, "main")
    if not ctx.quick:
        float_exhaustive(ctx, rep)
    if (broken or any(not o["ok"] for o in rep.obligations)) and not rep.failures:
        r2 = ctx.sub_rng("search")
        explore(ctx, rep, [gen_case(r2) for _ in range(ctx.n(30000, 400000))], "search")
    return rep.finish()


def replay(ctx, path):
    rec = json.load(open(path))
    c = rec["case"]
    obs = C.run_driver(ctx, "sched_delay", [c], nproc=1)[0]
    print("case:", json.dumps(c))
    print("implementation:", obs)
    print("host time zone of the scheduler process (TZ): %s%s" % (c.get("host") or "UTC (harness default)", "" if not c.get(
        "host") else "; its naive local wall clock now() reads %s, UTC offset %s us - the statement does not depend on it" % (
        obs.get("local_now"), obs.get("host_off_us"))))
    nb = c["now"] // MIN * MIN + MIN
    print("statement: T<=now -> 0; T > %d -> None; else T <= now + d*1e6 < T + 1e6" % (nb + US))
    ok = "_crash" not in obs and oracle(c["now"], c["T"], obs["delay"])
    print("holds" if ok else "VIOLATED")
    return 0 if ok else 1
