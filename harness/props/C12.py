"""C12 - dependencies are torn down exactly once, before the result becomes visible."""
import json

import common as C
import srctie
from props import deps_lib as L

META = dict(
    id="C12",
    design_ref="DESIGN.md section 4, C12 (and section 5, D6)",
    technique="Coq proof over a Gallina model of the resolver's context tree / teardown and of the effects of one "
              "Receiver.callback around it (induction over context trees, list surgery, interleaving projection) + "
              "correspondence on real concurrent executions with the context tree read from the live resolver objects",
    level_text="For every context tree (hence also every partially opened one), every configuration and every way "
               "resolution / the body can end, theorems over the model coq/theories/Deps.v show: the closed dependencies "
               "are a permutation of the opened ones (C12_exactly_once*), every teardown comes after the task function "
               "or the failing dependency finished and before set_result / the when_executed or when_saved ack "
               "(C12_before_visible), the exception is seen by a dependency iff propagate_exceptions and an exception "
               "was found, for all four styles (C12_propagation*), all of it also for every interleaving of any number "
               "of executions (C12_*_concurrent). Reverse order of opening is REFUTED on the faithful model "
               "(C12_reverse_refuted, witness [Sub [Own V]; Own U] = known finding D6 in taskiq_dependencies 1.5.7) and "
               "proved for trees without sub-contexts (C12_reverse_partial). The model is tied to /repo and to the "
               "installed resolver on every run: the real Receiver.callback runs 1..6 concurrent messages over "
               "generated dependency graphs on a virtual-time loop, the model's effect sequence (computed in Coq from "
               "the observed context tree) must equal the observed one, and the Boolean form of the statement "
               "(C12_check, proved to hold on the model) is evaluated on every observed execution.",
    level_note="The reverse-order clause holds only where no use_cache=False dependency is involved (known finding, third "
               "party, not repaired); every other reverse-order violation is still reported. Teardown code that itself "
               "raises, and finalisation of a dependency whose *opening* raised, are outside the statement. A skipped "
               "save (NoResultError) has no observable event; its position is not checked. Moving close() after the "
               "construction of the TaskiqResult object but before on_error is not observable and not reported.",
    rule="case = dependency graph (<=7 nodes, depth <=3, six styles, cached / use_cache=False edges) x 1-2 tasks x 1-6 "
         "concurrent messages (outcome return/raise/BaseException/NoResultError/timeout/scripted dependency failure, "
         "staggered awaits) x propagate x ack type x how the Receiver comes to exist (built directly / worker command line / "
         "run_receiver_task / an InMemoryBroker fresh, started or restarted after shutdown, deliveries sent through its "
         "kick() or the task's kicker / the run_receiver_task coroutine running for the whole case over a scripted "
         "listen() that fails 0-2 times, deliveries executed by the first, second or third Receiver it builds) x the object a "
         "failing task function / failing dependency raises (ordinary; a ninth of the cases: falsy by __bool__ or __len__, "
         "unhashable, equal by value, BaseException that is no Exception, exception groups, a falsy NoResultError subclass, "
         "one object raised by several executions) x the kind of callable a task is registered with (ordinary async def / def; a "
         "twelfth of the cases: functools.wraps decorators whose wrapper is async around sync or sync around async, "
         "functools.partial objects, instances with a sync or async __call__, a plain def returning a coroutine / an object "
         "with __await__ / a Future, an async def returning an un-awaited coroutine - the body behind a returned awaitable reports whether its dependencies were already "
         "finalised when it ran) x a worker that stops while executions are in flight (a fifteenth of the cases: the real "
         "Receiver.listen() over a scripted broker.listen(), stopped by its max_tasks_to_execute budget / the end of the "
         "broker's listen() / the finish event, wait_tasks_timeout of 0.5-60 ms (or none) expiring while task functions, sync "
         "functions in the thread pool with a virtual duration, awaiting dependency teardowns, set_result are under way, "
         "Receiver configured directly or through the worker command line, the loop running on until every execution and "
         "the pool have settled); non-trivial iff some execution opened >= 2 yielding dependencies, or a "
         "dependency failed while opening, or the body timed out; distinct by case content",
    trusted_base=["model: coq/theories/Deps.v (hand-written from taskiq/receiver/receiver.py run_task/callback and "
                  "taskiq_dependencies/ctx.py close/resolver)",
                  "observation shims in harness/drivers/deps_driver.py: logging list subclasses for opened_dependencies / "
                  "sub_contexts, pass-through wrappers of traverse_deps and async_ctx, ContextVar execution tag"],
    assumptions=["dependency teardown code does not raise; a dependency that raises while opening needs no finalisation",
                 "asyncio task-step atomicity (one execution's effects are totally ordered)"],
)

COQ_HEADER = """From Coq Require Import List Bool Arith. Import ListNotations.
From TQ Require Import Deps."""
COQ_BODY = """Definition ok (x : cfg * rctx * resolution * list eff) : bool :=
  let '(cf, c, r, obs) := x in
  effs_eqb (callback_effs cf c r) obs && C12_check cf c r obs && eqb_list (open_order c) (opened_ids obs).
Fixpoint bad (i : nat) (l : list (cfg * rctx * resolution * list eff)) : list nat :=
  match l with [] => [] | x :: t => if ok x then bad (S i) t else i :: bad (S i) t end.
Eval vm_compute in bad 0%nat cases."""


# --------------------------------------------------------------------------- the kind of callable a task is registered with
FN_INLINE = ("async_wraps_sync", "async_wraps_async", "partial_async", "partial_sync", "callable_sync")
FN_AWAITABLE = ("sync_wraps_async", "ret_coro", "ret_awaitable", "ret_future", "callable_async", "async_ret_coro")
FN_ON_LOOP = ("async_wraps_sync", "async_wraps_async", "partial_async", "async_ret_coro")
FN_POOL = ("sync_wraps_async", "sync_wraps_async", "sync_wraps_async", "ret_coro", "ret_awaitable", "ret_future",
           "callable_async", "callable_async", "async_ret_coro", "async_wraps_sync", "async_wraps_async", "partial_async", "partial_sync",
           "callable_sync", "callable_sync")
FN_DESCR = {
    "async_wraps_sync": "plain function under a decorator whose wrapper is async",
    "async_wraps_async": "coroutine function under a decorator whose wrapper is async",
    "partial_async": "functools.partial over a coroutine function",
    "partial_sync": "functools.partial over a plain function",
    "callable_sync": "instance with a plain __call__",
    "sync_wraps_async": "coroutine function under a decorator that is not async-aware (plain wrapper)",
    "ret_coro": "plain function returning a coroutine",
    "ret_awaitable": "plain function returning an object with __await__",
    "ret_future": "plain function returning a Future",
    "callable_async": "instance with an async __call__",
    "async_ret_coro": "coroutine function whose result is an un-awaited coroutine",
}


def add_callables(case, p=.085):
    """the kind of callable a task is registered with (`fn` of a task spec, see deps_driver): about a twelfth of the
    cases.  Picked and filled by a generator of its own seeded by the case content, so every other case of a seed is
    exactly what it was before this kind of input existed."""
    rr = L.case_rng(case, "fn")
    if rr.random() >= p:
        return case
    path = case.get("path") or {}
    # an InMemoryBroker that went through shutdown() has no thread pool any more (see add_path)
    pool = [k for k in FN_POOL if k in FN_ON_LOOP] if (path.get("kind") == "inmemory" and "shutdown" in (path.get("life") or [])) \
        else list(FN_POOL)
    tasks = case["tasks"]
    used = sorted({m["task"] for m in case["msgs"]})
    chosen = [t for t in used if rr.random() < .75] or [rr.choice(used)]
    for t in chosen:
        tasks[t]["fn"] = rr.choice(pool)
    for m in case["msgs"]:
        fn = tasks[m["task"]].get("fn")
        if fn in FN_AWAITABLE and not m.get("dur") and rr.random() < .6:
            # the body behind the returned awaitable has awaits of its own (if anybody runs it)
            m["dur"] = [rr.choice([0, 1000, 5000, 12000]) for _ in range(rr.choice([1, 1, 2]))]
    return case


# --------------------------------------------------------------------------- a worker that stops while executions are in flight
WTT = (0.001, 0.003, 0.006, 0.01, 0.015, 0.02, 0.03, 0.04, 0.06, 0.09)
SYNC_DUR = (1000, 5000, 12000, 30000, 60000)


def _scale(case, f):
    """every delay of the plan f times as long (what takes 50 ms takes f * 50 ms)"""
    for m in case["msgs"]:
        for key in ("start", "timeout", "save_pause", "tpause"):
            if m.get(key):
                m[key] = m[key] * f
        m["pauses"] = [None if x is None else x * f for x in m.get("pauses") or [None]]
        m["dur"] = [x * f for x in m.get("dur") or []]


def add_stops(case, p=.09):
    """A worker that STOPS while executions are in flight (`path` of kind `listen`, see deps_driver): the real
    Receiver.listen() runs, is told to stop (its max_tasks_to_execute budget is used up by the last delivery / the
    broker's listen() ends after it / the finish event is set), waits `wait_tasks_timeout` for what is in flight and
    returns while the loop runs on.  p of the cases that have no `path` yet (about a fifteenth of the stream); picked and
    filled by a generator of its own seeded by the case content, so every other case of a seed is what it was before.
    The delays are such that the wait expires in every phase of an execution: sync task functions get a (virtual)
    duration in the thread pool, teardowns of async generators / async context managers really await."""
    rr = L.case_rng(case, "stop")
    if rr.random() >= p or case.get("path"):
        return case
    msgs, tasks, nodes = case["msgs"], case["tasks"], case["nodes"]
    n = len(msgs)
    prop, validate, ack = bool(case.get("propagate", True)), bool(case.get("validate", True)), case.get("ack", "when_saved")
    how = rr.choice(["budget", "budget", "exhausted", "event"])
    # sync task functions that are still running in the pool when the wait expires
    for t, spec in enumerate(tasks):
        mine = [m for m in msgs if m["task"] == t]
        plain = spec.get("fn") is None and not any(mu["op"] == "requeue" for m in mine for mu in m.get("muts") or [])
        if plain and not spec.get("sync") and rr.random() < .4:
            spec["sync"] = True
        if spec.get("sync") or spec.get("fn") in ("partial_sync", "callable_sync"):
            for m in mine:
                # a time limit on a sync function is outside what taskiq supports (it says so in its log)
                m.pop("timeout", None)
                if rr.random() < .85:
                    m["dur"] = [rr.choice(SYNC_DUR) for _ in range(rr.choice([1, 1, 2]))]
    # teardowns that really await
    if rr.random() < .6:
        for m in msgs:
            m["pauses"] = [x if x else rr.choice([2000, 5000, 9000, 14000]) for x in m.get("pauses") or [None]]
    slow = rr.random() < .5
    if slow or rr.random() < .5:
        for nd in nodes:
            if nd["style"] in ("gen", "cm") and rr.random() < .5:
                nd["style"] = {"gen": "agen", "cm": "acm"}[nd["style"]]
    if slow:
        # a teardown that takes a while (flushing, committing): every awaiting teardown step of the execution
        for m in msgs:
            m["tpause"] = rr.choice([15000, 30000, 60000])
    x = rr.random()
    wtt = None if x < .05 else 0.0 if x < .09 else rr.choice(WTT[:6] if how == "event" else WTT if slow else WTT[:8])
    stop = {"how": how}
    if how == "event":
        # the prefetcher looks at the finish event every 0.3 s: the executions are made that slow
        f = rr.choice([15, 30])
        _scale(case, f)
        stop["after"] = rr.choice([0, 0, 100000, 350000, 700000])
        wtt = wtt and round(wtt * f, 6)
    kw = {"wait_tasks_timeout": wtt}
    # (max_async_tasks = 1: the runner does not look at its queue before the only execution has ended - nothing is ever in
    # flight when it learns that it is to stop)
    a = rr.choice([2, 3, 10, 100, 0, None, 1])
    if a is not None:
        kw["max_async_tasks"] = a
    kw["max_prefetch"] = rr.choice([0, 0, 1, 3])
    if how == "budget":
        kw["max_tasks_to_execute"] = n
    path = {"kind": "listen", "kwargs": kw, "stop": stop, "pool": rr.choice([1, 2, 2, 4])}
    if rr.random() < .3:
        # the same configuration given on the worker command line (the real argument parser and start_listen compute the
        # Receiver's keyword arguments; `argv` wins over `kwargs`, which stay for the shrinker)
        o = {"no_parse": not validate, "no_propagate": not prop, "P": kw["max_prefetch"], "wtt": wtt,
             "N": n if how == "budget" else None}
        if ack != "when_saved" or rr.random() < .5:
            o["ack_type"] = ack if rr.random() < .7 else ack.upper()
        if a is not None:
            o["A"] = a
        path["argv"] = L.cli_argv(o)
    case["path"] = path
    return case


def phase_at(case, d, mark):
    """what execution d was doing when the worker's listen() returned (log position `mark`)"""
    before = [e for g, e in d.ev if g < mark]
    kinds = [e[0] for e in before]
    if "cb_start" not in kinds:
        return None
    if "cb_done" in kinds:
        return "over"
    spec = case["tasks"][d.msg["task"]]
    closes = [e for e in before if e[0] == "close"]
    done = [e for e in before if e[0] == "closed"]
    opened = kinds.count("own")
    if closes and len(done) < opened:
        st = case["nodes"][closes[-1][2]]["style"]
        waiting = len(closes) > len(done) and st in ("agen", "acm")
        return "in dependency teardown, %s" % ("inside an awaiting teardown step" if waiting else "between two steps")
    if "task_start" in kinds and "task_end" not in kinds:
        pool = spec.get("sync") or spec.get("fn") in ("partial_sync", "callable_sync")
        return "in a sync task function (thread pool)" if pool else "in the task function"
    if "task_end" in kinds or "fail" in kinds:
        if opened and not closes:
            return "between the task function and the teardown"
        return "after the teardown (on_error / set_result / ack)"
    if "begin" in kinds:
        return "resolving dependencies / waiting for a thread"
    return "before dependency resolution (parsing / pre_execute)"


def stop_profile(case, obs, ex):
    """evidence keys: how the worker stopped and what was in flight when its listen() returned"""
    path = case.get("path") or {}
    if path.get("kind") != "listen":
        return ["worker stop: none (no listening worker in the case)"]
    st = obs.get("stop") or {}
    wtt = st.get("wait_tasks_timeout")
    keys = ["worker stop: %s%s, wait_tasks_timeout %s" % (
        {"budget": "max_tasks_to_execute used up", "exhausted": "the broker's listen() ended",
         "event": "finish event"}.get(st.get("how"), st.get("how")),
        " (did not come about: finish event after everything had settled)" if st.get("fallback") else "",
        "none" if wtt is None else "0" if not wtt else "set")]
    if st.get("mark") is None or st.get("fallback"):
        return keys
    phases = [phase_at(case, d, st["mark"]) for d in ex]
    flying = [p for p in phases if p not in (None, "over")]
    keys.append("worker stop (%s): listen() returned with %s executions in flight" % (
        st.get("how"), len(flying) if len(flying) < 3 else "3+"))
    keys += ["worker stop: listen() returned while an execution was %s" % p for p in flying]
    for d, p in zip(ex, phases):
        if p not in (None, "over") and d.closes:
            keys.append("worker stop: execution in flight at the stop had open dependencies (%s)" % (
                "thread pool" if "sync" in p else "teardown" if "teardown" in p else "other phases"))
    return keys


def stop_grid():
    """thorough tier: every way the worker stops x what is in flight when its wait expires (an awaiting teardown of an async
    generator / async context manager over two more dependencies, a sync function in the pool, an async task function) x how
    the task function ends x propagate x ack type; two overlapping deliveries plus one that is over before the stop"""
    out = []
    for how in ("budget", "exhausted", "event"):
        for flying in ("agen", "acm", "sync", "body"):
            for oc in ("return", "raise"):
                for prop in (True, False):
                    for ack in ("when_executed", "when_saved"):
                        st = flying if flying in ("agen", "acm") else "gen"
                        nodes = [{"style": "gen", "ctx": False, "subs": [], "swallow": False},
                                 {"style": st, "ctx": True, "subs": [[0, True]], "swallow": False},
                                 {"style": "cm", "ctx": False, "subs": [], "swallow": False}]
                        msgs = [{"task": 0, "start": 0 if i < 2 else 3000, "pauses": [1000], "tpause": 30000,
                                 "dur": [1000] if flying in ("agen", "acm") or i == 0 else [40000],
                                 "ackable": "sync" if i % 2 else "async", "kw": True, "outcome": oc} for i in range(3)]
                        msgs[0]["tpause"] = 1000
                        kw = {"wait_tasks_timeout": 0.012, "max_async_tasks": 10, "max_prefetch": 0}
                        if how == "budget":
                            kw["max_tasks_to_execute"] = 3
                        case = {"nodes": nodes, "tasks": [{"deps": [[1, True], [2, True]], "ctx": True, "sync": flying == "sync"}],
                                "msgs": msgs, "propagate": prop, "ack": ack, "middleware": True, "via_inmemory": False,
                                "path": {"kind": "listen", "kwargs": kw, "stop": {"how": how}, "pool": 2}}
                        if how == "event":
                            _scale(case, 30)
                            case["path"]["stop"]["after"] = 0
                            kw["wait_tasks_timeout"] = 0.12
                        out.append(case)
    return out


def gen_case(r):
    return add_stops(add_callables(L.gen_case(r)))


def fn_grid():
    """thorough tier: every callable kind x teardown style x how the task's own code ends x propagate x ack type, two
    overlapping deliveries"""
    out = []
    for fn in FN_INLINE + FN_AWAITABLE:
        for st in L.YIELDING:
            for oc in ("return", "raise", "base", "noresult"):
                for prop in (True, False):
                    for ack in ("when_executed", "when_saved"):
                        msgs = [{"task": 0, "start": 3000 * i, "pauses": [10000, None, 4000], "dur": [2000],
                                 "ackable": "sync" if i == 0 else "async", "kw": True, "outcome": oc} for i in range(2)]
                        out.append({"nodes": [{"style": st, "ctx": True, "subs": [], "swallow": False},
                                              {"style": "coro", "ctx": False, "subs": [[0, True]], "swallow": False}],
                                    "tasks": [{"deps": [[1, True]], "ctx": True, "sync": False, "fn": fn}], "msgs": msgs,
                                    "propagate": prop, "ack": ack, "middleware": True, "via_inmemory": False})
    return out


def fold_inner(obs):
    """When the framework itself runs the awaitable a registered callable handed back BEFORE it finalises any dependency
    of that execution (i.e. as part of executing the task), that run is the end of the task function: the observation is
    read as `task_start ... task_end <how the awaited body ended>`.  Anything of it that runs after the first teardown
    stays what it is (`inner_*`) and is judged by `oracle`.  Indices of the log are kept."""
    log = obs.get("log") or []
    owner, first_close, inner = {}, {}, {}
    for g, e in enumerate(log):
        if e[0] == "enter":
            owner[e[3]] = e[1]
        elif e[0] == "close" and e[3] in owner:
            first_close.setdefault(owner[e[3]], g)
        elif e[0] in ("inner_start", "inner_end", "inner_raised", "future_awaited", "future_raised"):
            inner.setdefault(e[1], []).append(g)
    fold = {i for i, gs in inner.items() if any(log[g][0] in ("inner_end", "future_awaited") for g in gs)
            and all(g < first_close.get(i, len(log)) for g in gs)}
    if not fold:
        return obs
    new = [list(e) for e in log]
    for g, e in enumerate(log):
        if len(e) < 2 or e[1] not in fold:
            continue
        if e[0] == "task_end" and g < inner[e[1]][0]:
            new[g] = ["handed_back", e[1]] + e[2:]
        elif e[0] in ("inner_end", "future_awaited"):
            new[g] = ["task_end", e[1], e[2]]
        elif e[0] in ("inner_raised", "future_raised"):
            new[g] = ["raised", e[1], e[2], "task"]
        elif e[0] == "inner_start":
            new[g] = ["awaited_by_framework", e[1]] + e[2:]
    return dict(obs, log=new)


def derive(c, o):
    return L.derive(c, fold_inner(o))


def inner_events(d):
    """what ran of the body behind an awaitable the registered callable handed back"""
    return [(g, e) for g, e in d.ev if e[0] in ("inner_start", "inner_end", "inner_raised")]


def fn_profile(case, ex):
    """evidence keys: which kinds of task callables were executed, and what became of a returned awaitable"""
    keys = []
    if not any(t.get("fn") for t in case["tasks"]):
        return ["task callables: async def / def only"]
    prop = bool(case.get("propagate", True))
    for d in ex:
        fn = case["tasks"][d.msg["task"]].get("fn")
        if fn is None or d.body is None:
            continue
        keys.append("task callable: " + FN_DESCR[fn])
        ret = [e for _, e in d.ev if e[0] == "returns_awaitable"]
        if ret:
            how = ("its body was run after a teardown" if inner_events(d) else
                   "awaited by the framework before any teardown" if any(e[0] == "handed_back" for _, e in d.ev) else
                   "its outcome was taken out after a teardown" if any(e[0] == "future_awaited" for _, e in d.ev) else
                   "nothing of it was run")
            keys.append("returned awaitable (%s): %s" % (ret[0][3], how))
            if d.closes:
                keys.append("returned awaitable over open dependencies: body would end with %s, propagate=%s" % (
                    d.msg.get("outcome", "return"), prop))
        elif d.closes:
            keys.append("task callable of another kind over open dependencies: %s, propagate=%s" % (d.outcome, prop))
    return keys


def oracle(case, d):
    """C12 over one execution: the clauses of deps_lib.oracle_c12 plus the two that need the events of task code running
    outside the call of the registered callable and the stored result.
      * everything the execution runs of the task's code has finished before the first dependency is finalised;
      * the exception that ends up as the stored error of the execution is the one thrown into the dependencies when
        propagation is enabled (a stored error with propagation disabled / no stored error: the clauses of oracle_c12)."""
    out = list(L.oracle_c12(case, d))
    if d.outcome == "cancelled":
        # the task function was cancelled at one of its awaits.  deps_lib takes that for the time limit of the message
        # (TimeoutError); when somebody else cancelled the execution, the exception found IS the CancelledError, and a
        # dependency that saw it saw the execution's exception
        out = [f for f in out if not (f[0] == "a different exception than the execution's was thrown into the dependency"
                                      and f[1].get("saw") == "CancelledError")]
    if isinstance(d.cb_done, str) and d.cb_done.startswith("CancelledError"):
        # callback() ended with the CancelledError of whoever cancelled its task: that is what a cancelled coroutine does,
        # not a failure of callback().  What the statement says about the dependencies of such an execution - each
        # finalised exactly once, completely, nothing made visible before - is judged by the other clauses.
        out = [f for f in out if f[3].get("kind") != "crash"]
    prop = bool(case.get("propagate", True))
    teardown = [g for g, _, _ in d.closes] + [g for g, _ in d.closed]
    if teardown:
        first = min(teardown)
        late = [(g, e) for g, e in inner_events(d) if g > first]
        if late:
            started = [e for _, e in late if e[0] == "inner_start"]
            out.append(("code of the task was still running after a dependency of the execution had been finalised",
                        dict(first_teardown_at=first, task_code_after_it=[[g, e[0]] + e[2:3] for g, e in late],
                             dependencies_already_finalised_when_it_started=(started[0][3] if started else None)),
                        "everything the execution runs of the task's code happens before the first teardown",
                        {"kind": "late_body"}))
    want0 = d.expected_err if (prop and d.error_found) else None
    for _, _, summary in d.saves[:1]:
        if not (prop and summary.get("is_err") and summary.get("err")):
            continue
        for g, inst, saw in d.closes:
            if (saw is None) != (want0 is None) or (saw is not None and saw != want0):
                continue                 # already reported by oracle_c12
            if saw != summary["err"]:
                out.append(("the exception stored as the error of the execution was not thrown into the dependency although "
                            "propagate_exceptions=True",
                            dict(instance=inst, node=d.inst_node[inst], style=case["nodes"][d.inst_node[inst]]["style"],
                                 saw=saw, stored_error=summary["err"]), summary["err"], {"kind": "propagation"}))
    return out


_lib_reductions = L.reductions


def reductions(case):
    """deps_lib's one-step simplifications plus those of the callable kind"""
    out = []
    for t, spec in enumerate(case["tasks"]):
        if spec.get("fn"):
            c = json.loads(json.dumps({k: v for k, v in case.items() if k != "_comment"}))
            del c["tasks"][t]["fn"]
            out.append(c)
            simple = "sync_wraps_async" if spec["fn"] in FN_AWAITABLE else "async_wraps_sync"
            if spec["fn"] != simple:
                c = json.loads(json.dumps({k: v for k, v in case.items() if k != "_comment"}))
                c["tasks"][t]["fn"] = simple
                out.append(c)
    path = case.get("path") or {}
    if path.get("kind") == "listen":
        def variant(fn):
            c = json.loads(json.dumps({k: v for k, v in case.items() if k != "_comment"}))
            if fn(c) is not False and c != case:
                out.append(c)
        if path.get("argv") is not None:
            variant(lambda c: c["path"].pop("argv"))
        for key in ("max_async_tasks", "max_prefetch"):
            if (path.get("kwargs") or {}).get(key) is not None and path.get("argv") is None:
                variant(lambda c, key=key: c["path"]["kwargs"].pop(key))
        if path.get("pool") != 2:
            variant(lambda c: c["path"].update(pool=2))
        if (path.get("stop") or {}).get("how") == "exhausted" and path.get("argv") is None:
            variant(lambda c: (c["path"]["stop"].update(how="budget"),
                               c["path"]["kwargs"].update(max_tasks_to_execute=len(c["msgs"]))) and None)
        if (path.get("stop") or {}).get("after"):
            variant(lambda c: c["path"]["stop"].update(after=0))
    return out + [_fix_budget(c) for c in _lib_reductions(case)]


def _fix_budget(c):
    """a worker that stops because its budget is used up: the budget follows the number of deliveries"""
    path = c.get("path") or {}
    if path.get("kind") == "listen" and (path.get("stop") or {}).get("how") == "budget":
        n = len(c["msgs"])
        if (path.get("kwargs") or {}).get("max_tasks_to_execute"):
            path["kwargs"]["max_tasks_to_execute"] = n
        argv = path.get("argv") or []
        for k, tok in enumerate(argv[:-1]):
            if tok == "--max-tasks-per-child":
                argv[k + 1] = str(n)
    return c


L.reductions = reductions        # shrink_failures looks it up in its own module


def nontrivial(case, ex):
    for d in ex:
        if len(d.opens) >= 2 or d.fail or d.outcome == "cancelled":
            return True
    return False


def explore(ctx, rep, cases, label):
    obs = C.run_driver(ctx, "deps_driver", cases)
    lits, keep = [], []
    for c, o in zip(cases, obs):
        if "_crash" in o:
            rep.case(c, False)
            rep.fail("driver crashed (an observation shim or the real code raised outside any execution)", c,
                     observed=o["_crash"])
            continue
        ex, errs = derive(c, o)
        rep.case(c, nontrivial(c, ex))
        for e in errs:
            rep.fail("harness consistency: " + e, c, observed=e)
        if o.get("late"):
            rep.count("finalised only at loop shutdown", len([e for e in o["late"] if e[0] == "close"]))
        rep.count("executions", len(ex))
        rep.count("concurrent:%d" % len(ex))
        rep.count("propagate:%s" % c.get("propagate", True))
        rep.count("ack:%s" % c.get("ack", "when_saved"))
        for key in L.path_profile(c) + L.live_profile(c, o, ex):
            rep.count(key)
        for key in L.sharing_profile(c, ex) + fn_profile(c, ex) + stop_profile(c, o, ex):
            rep.count(key)
        for d in ex:
            for what, observed, expected, sig in oracle(c, d):
                rep.fail(what, c, observed=dict(execution=d.i, **observed), expected=expected, sig=sig)
                rep.count("oracle:" + sig["kind"] + (":known" if L.sig_subcontext_teardown_order(dict(sig=sig)) else ""))
            for e in d.effs:
                rep.count("eff:" + e.split()[0] + (":" + e.split()[1] if e.startswith("FAck") else ""))
            rep.count("resolution:%s" % ("dep-fail" if d.fail else d.outcome))
            rep.count("tree:%s" % ("sub-contexts" if L.has_sub(d.tree) else "flat" if d.opens else "empty"))
            rep.count("opened:%s" % min(len(d.opens), 5))
            for g, inst, saw in d.closes:
                rep.count("close:%s:%s" % (c["nodes"][d.inst_node[inst]]["style"], "exc" if saw else "plain"))
            if d.resolution is None:
                # neither a scripted failure nor a body: the statement has nothing to say beyond exactly-once; the
                # model has no such resolution, so only the oracle (above) looks at this execution
                rep.count("resolution:unmodelled")
                continue
            lits.append(C.cpair(L.coq_cfg(c, d), L.coq_tree(c, d), d.resolution, C.clist(d.effs)))
            keep.append(dict(case=c, execution=d.i, observed_effects=d.effs, tree=L.coq_tree(c, d)))
    bad, fails, _ = C.coq_eval(ctx, label, COQ_HEADER, lits, COQ_BODY, shard=300)
    rep.corr(label, len(lits), bad, fails, lambda i: keep[i])
    rep.traces += len(lits) - len(bad)
    return bad or fails


def fails_of(c, o):
    ex, errs = derive(c, o)
    return [(what, dict(execution=d.i, **observed), expected, sig)
            for d in ex for what, observed, expected, sig in oracle(c, d)]


def corpus_known(ctx, rep):
    """replay the known finding's corpus entry: does it still reproduce on this tree?"""
    res = {}
    for name, c in C.load_corpus("C12"):
        obs = C.run_driver(ctx, "deps_driver", [c], nproc=1)[0]
        if "_crash" in obs:
            continue
        ex, _ = L.derive(c, obs)
        for d in ex:
            for what, observed, expected, sig in L.oracle_c12(c, d):
                if L.sig_subcontext_teardown_order(dict(sig=sig)):
                    res["subcontext_teardown_order"] = True
    return res


def run(ctx):
    rep = C.Report(ctx, META)
    rep.add_obligations(C.proof_obligations("C12"))
    # source tie: Receiver.run_task re-translated from the source text (read over Deps.v's alphabet);
    # srcproofs/Src_run_task_C12.v re-checked against it
    src_obs, src_info = srctie.obligations(ctx, "run_task_deps", "C12")
    rep.add_obligations(src_obs)
    rep.extra["source_tie"] = src_info
    corpus = [c for _, c in C.load_corpus("C12")]
    if corpus:
        explore(ctx, rep, corpus, "corpus")
    known = corpus_known(ctx, rep)
    r = ctx.sub_rng("gen")
    cases = [gen_case(r) for _ in range(ctx.n(1200, 40000))]
    broken = explore(ctx, rep, cases, "main")
    if not ctx.quick:
        grid = L.grid_cases() + fn_grid() + stop_grid()
        rep.extra["systematic_grid_cases"] = len(grid)
        broken = explore(ctx, rep, grid, "grid") or broken
    sigs = {"subcontext_teardown_order": L.sig_subcontext_teardown_order}
    unexplained = [f for f in rep.failures if not L.sig_subcontext_teardown_order(f)]
    if (broken or any(not o["ok"] for o in rep.obligations)) and not unexplained:
        r2 = ctx.sub_rng("search")
        explore(ctx, rep, [gen_case(r2) for _ in range(ctx.n(3000, 30000))], "search")
    L.shrink_failures(ctx, rep, fails_of, L.sig_subcontext_teardown_order)
    rep.extra["known_finding_reproduced_by_corpus"] = bool(known.get("subcontext_teardown_order"))
    return rep.finish(sigs, known)


def replay(ctx, path):
    rec = json.load(open(path))
    c = rec["case"] if "case" in rec and "nodes" not in rec else rec
    obs = C.run_driver(ctx, "deps_driver", [c], nproc=1)[0]
    print("case:", json.dumps(c))
    if "_crash" in obs:
        print("implementation: driver crashed\n" + obs["_crash"])
        return 1
    ex, errs = derive(c, obs)
    rc = 0
    lits = []
    if obs.get("live"):
        print("run_receiver_task ran for real:", json.dumps(obs["live"]))
    if obs.get("stop"):
        print("the worker stopped:", json.dumps(obs["stop"]))
        for d in ex:
            if obs["stop"].get("mark") is not None:
                print("  execution %d when listen() returned: %s" % (d.i, phase_at(c, d, obs["stop"]["mark"])))
    for d in ex:
        print("execution %d: opens %s closes %s tree %s" % (
            d.i, [(x, d.inst_node[x]) for x in d.opens], [(x[1], d.inst_node[x[1]], x[2]) for x in d.closes],
            L.coq_tree(c, d)))
        print("  observed effects:", "; ".join(d.effs))
        if inner_events(d):
            print("  code of the task run outside the call of the registered callable:",
                  "; ".join("%s@%d %s" % (e[0], g, e[2:]) for g, e in inner_events(d)),
                  "(first teardown @%s)" % min([x[0] for x in d.closes] or [None], key=lambda v: (v is None, v)))
        for what, observed, expected, sig in oracle(c, d):
            known = L.sig_subcontext_teardown_order(dict(sig=sig))
            print("  %s: %s  observed=%s expected=%s" % ("KNOWN-FINDING" if known else "VIOLATED", what, observed, expected))
            if not known:
                rc = 1
        if d.resolution is not None:
            lits.append(C.cpair(L.coq_cfg(c, d), L.coq_tree(c, d), d.resolution, C.clist(d.effs)))
    body = ("Eval vm_compute in map (fun x => let '(cf, c, r, obs) := x in (callback_effs cf c r, "
            "effs_eqb (callback_effs cf c r) obs, C12_check cf c r obs)) cases.")
    rcq, out = C.coq_eval_raw(ctx, "replay", COQ_HEADER + "\nDefinition cases := " + C.clist(lits) + ".\n" + body)
    print("model (effects, equal to observed, C12_check):", out.strip()[-3000:])
    for e in errs:
        print("harness consistency:", e)
        rc = 1
    print("holds (up to known findings)" if rc == 0 else "VIOLATED")
    return rc
