"""C12 - dependencies are torn down exactly once, before the result becomes visible."""
import json

import common as C
from props import deps_lib as L

META = dict(
    id="C12",
    design_ref="DESIGN.md section 4, C12 (and section 5, D6)",
    technique="Coq proof over a Gallina model of the resolver's context tree / teardown and of the effects of one "
              "Receiver.callback around it (induction over context trees, list surgery, interleaving projection) + "
              "correspondence on real concurrent executions with the context tree read from the live resolver objects",
    level_text="For every context tree (hence also every partially opened one), every configuration and every way "
               "resolution / the body can end, theorems over the model coq/theories/Deps.v show: the closed dependencies "
               "are a permutation of the opened ones (C12_exactly_once*), every teardown comes after the task function "
               "or the failing dependency finished and before set_result / the when_executed or when_saved ack "
               "(C12_before_visible), the exception is seen by a dependency iff propagate_exceptions and an exception "
               "was found, for all four styles (C12_propagation*), all of it also for every interleaving of any number "
               "of executions (C12_*_concurrent). Reverse order of opening is REFUTED on the faithful model "
               "(C12_reverse_refuted, witness [Sub [Own V]; Own U] = known finding D6 in taskiq_dependencies 1.5.7) and "
               "proved for trees without sub-contexts (C12_reverse_partial). The model is tied to /repo and to the "
               "installed resolver on every run: the real Receiver.callback runs 1..6 concurrent messages over "
               "generated dependency graphs on a virtual-time loop, the model's effect sequence (computed in Coq from "
               "the observed context tree) must equal the observed one, and the Boolean form of the statement "
               "(C12_check, proved to hold on the model) is evaluated on every observed execution.",
    level_note="The reverse-order clause holds only where no use_cache=False dependency is involved (known finding, third "
               "party, not repaired); every other reverse-order violation is still reported. Teardown code that itself "
               "raises, and finalisation of a dependency whose *opening* raised, are outside the statement. A skipped "
               "save (NoResultError) has no observable event; its position is not checked. Moving close() after the "
               "construction of the TaskiqResult object but before on_error is not observable and not reported.",
    rule="case = dependency graph (<=7 nodes, depth <=3, six styles, cached / use_cache=False edges) x 1-2 tasks x 1-6 "
         "concurrent messages (outcome return/raise/BaseException/NoResultError/timeout/scripted dependency failure, "
         "staggered awaits) x propagate x ack type x how the Receiver comes to exist (built directly / worker command line / "
         "run_receiver_task / an InMemoryBroker fresh, started or restarted after shutdown, deliveries sent through its "
         "kick() or the task's kicker / the run_receiver_task coroutine running for the whole case over a scripted "
         "listen() that fails 0-2 times, deliveries executed by the first, second or third Receiver it builds) x the object a "
         "failing task function / failing dependency raises (ordinary; a ninth of the cases: falsy by __bool__ or __len__, "
         "unhashable, equal by value, BaseException that is no Exception, exception groups, a falsy NoResultError subclass, "
         "one object raised by several executions); non-trivial iff some execution opened >= 2 yielding dependencies, or a "
         "dependency failed while opening, or the body timed out; distinct by case content",
    trusted_base=["model: coq/theories/Deps.v (hand-written from taskiq/receiver/receiver.py run_task/callback and "
                  "taskiq_dependencies/ctx.py close/resolver)",
                  "observation shims in harness/drivers/deps_driver.py: logging list subclasses for opened_dependencies / "
                  "sub_contexts, pass-through wrappers of traverse_deps and async_ctx, ContextVar execution tag"],
    assumptions=["dependency teardown code does not raise; a dependency that raises while opening needs no finalisation",
                 "asyncio task-step atomicity (one execution's effects are totally ordered)"],
)

COQ_HEADER = """From Coq Require Import List Bool Arith. Import ListNotations.
From TQ Require Import Deps."""
COQ_BODY = """Definition ok (x : cfg * rctx * resolution * list eff) : bool :=
  let '(cf, c, r, obs) := x in
  effs_eqb (callback_effs cf c r) obs && C12_check cf c r obs && eqb_list (open_order c) (opened_ids obs).
Fixpoint bad (i : nat) (l : list (cfg * rctx * resolution * list eff)) : list nat :=
  match l with [] => [] | x :: t => if ok x then bad (S i) t else i :: bad (S i) t end.
Eval vm_compute in bad 0%nat cases."""


def nontrivial(case, ex):
    for d in ex:
        if len(d.opens) >= 2 or d.fail or d.outcome == "cancelled":
            return True
    return False


def explore(ctx, rep, cases, label):
    obs = C.run_driver(ctx, "deps_driver", cases)
    lits, keep = [], []
    for c, o in zip(cases, obs):
        if "_crash" in o:
            rep.case(c, False)
            rep.fail("driver crashed (an observation shim or the real code raised outside any execution)", c,
                     observed=o["_crash"])
            continue
        ex, errs = L.derive(c, o)
        rep.case(c, nontrivial(c, ex))
        for e in errs:
            rep.fail("harness consistency: " + e, c, observed=e)
        if o.get("late"):
            rep.count("finalised only at loop shutdown", len([e for e in o["late"] if e[0] == "close"]))
        rep.count("executions", len(ex))
        rep.count("concurrent:%d" % len(ex))
        rep.count("propagate:%s" % c.get("propagate", True))
        rep.count("ack:%s" % c.get("ack", "when_saved"))
        for key in L.path_profile(c) + L.live_profile(c, o, ex):
            rep.count(key)
        for key in L.sharing_profile(c, ex):
            rep.count(key)
        for d in ex:
            for what, observed, expected, sig in L.oracle_c12(c, d):
                rep.fail(what, c, observed=dict(execution=d.i, **observed), expected=expected, sig=sig)
                rep.count("oracle:" + sig["kind"] + (":known" if L.sig_subcontext_teardown_order(dict(sig=sig)) else ""))
            for e in d.effs:
                rep.count("eff:" + e.split()[0] + (":" + e.split()[1] if e.startswith("FAck") else ""))
            rep.count("resolution:%s" % ("dep-fail" if d.fail else d.outcome))
            rep.count("tree:%s" % ("sub-contexts" if L.has_sub(d.tree) else "flat" if d.opens else "empty"))
            rep.count("opened:%s" % min(len(d.opens), 5))
            for g, inst, saw in d.closes:
                rep.count("close:%s:%s" % (c["nodes"][d.inst_node[inst]]["style"], "exc" if saw else "plain"))
            if d.resolution is None:
                # neither a scripted failure nor a body: the statement has nothing to say beyond exactly-once; the
                # model has no such resolution, so only the oracle (above) looks at this execution
                rep.count("resolution:unmodelled")
                continue
            lits.append(C.cpair(L.coq_cfg(c, d), L.coq_tree(c, d), d.resolution, C.clist(d.effs)))
            keep.append(dict(case=c, execution=d.i, observed_effects=d.effs, tree=L.coq_tree(c, d)))
    bad, fails, _ = C.coq_eval(ctx, label, COQ_HEADER, lits, COQ_BODY, shard=300)
    rep.corr(label, len(lits), bad, fails, lambda i: keep[i])
    rep.traces += len(lits) - len(bad)
    return bad or fails


def fails_of(c, o):
    ex, errs = L.derive(c, o)
    return [(what, dict(execution=d.i, **observed), expected, sig)
            for d in ex for what, observed, expected, sig in L.oracle_c12(c, d)]


def corpus_known(ctx, rep):
    """replay the known finding's corpus entry: does it still reproduce on this tree?"""
    res = {}
    for name, c in C.load_corpus("C12"):
        obs = C.run_driver(ctx, "deps_driver", [c], nproc=1)[0]
        if "_crash" in obs:
            continue
        ex, _ = L.derive(c, obs)
        for d in ex:
            for what, observed, expected, sig in L.oracle_c12(c, d):
                if L.sig_subcontext_teardown_order(dict(sig=sig)):
                    res["subcontext_teardown_order"] = True
    return res


def run(ctx):
    rep = C.Report(ctx, META)
    rep.add_obligations(C.proof_obligations("C12"))
    corpus = [c for _, c in C.load_corpus("C12")]
    if corpus:
        explore(ctx, rep, corpus, "corpus")
    known = corpus_known(ctx, rep)
    r = ctx.sub_rng("gen")
    cases = [L.gen_case(r) for _ in range(ctx.n(1200, 40000))]
    broken = explore(ctx, rep, cases, "main")
    if not ctx.quick:
        grid = L.grid_cases()
        rep.extra["systematic_grid_cases"] = len(grid)
        broken = explore(ctx, rep, grid, "grid") or broken
    sigs = {"subcontext_teardown_order": L.sig_subcontext_teardown_order}
    unexplained = [f for f in rep.failures if not L.sig_subcontext_teardown_order(f)]
    if (broken or any(not o["ok"] for o in rep.obligations)) and not unexplained:
        r2 = ctx.sub_rng("search")
        explore(ctx, rep, [L.gen_case(r2) for _ in range(ctx.n(3000, 30000))], "search")
    L.shrink_failures(ctx, rep, fails_of, L.sig_subcontext_teardown_order)
    rep.extra["known_finding_reproduced_by_corpus"] = bool(known.get("subcontext_teardown_order"))
    return rep.finish(sigs, known)


def replay(ctx, path):
    rec = json.load(open(path))
    c = rec["case"] if "case" in rec and "nodes" not in rec else rec
    obs = C.run_driver(ctx, "deps_driver", [c], nproc=1)[0]
    print("case:", json.dumps(c))
    if "_crash" in obs:
        print("implementation: driver crashed\n" + obs["_crash"])
        return 1
    ex, errs = L.derive(c, obs)
    rc = 0
    lits = []
    if obs.get("live"):
        print("run_receiver_task ran for real:", json.dumps(obs["live"]))
    for d in ex:
        print("execution %d: opens %s closes %s tree %s" % (
            d.i, [(x, d.inst_node[x]) for x in d.opens], [(x[1], d.inst_node[x[1]], x[2]) for x in d.closes],
            L.coq_tree(c, d)))
        print("  observed effects:", "; ".join(d.effs))
        for what, observed, expected, sig in L.oracle_c12(c, d):
            known = L.sig_subcontext_teardown_order(dict(sig=sig))
            print("  %s: %s  observed=%s expected=%s" % ("KNOWN-FINDING" if known else "VIOLATED", what, observed, expected))
            if not known:
                rc = 1
        if d.resolution is not None:
            lits.append(C.cpair(L.coq_cfg(c, d), L.coq_tree(c, d), d.resolution, C.clist(d.effs)))
    body = ("Eval vm_compute in map (fun x => let '(cf, c, r, obs) := x in (callback_effs cf c r, "
            "effs_eqb (callback_effs cf c r) obs, C12_check cf c r obs)) cases.")
    rcq, out = C.coq_eval_raw(ctx, "replay", COQ_HEADER + "\nDefinition cases := " + C.clist(lits) + ".\n" + body)
    print("model (effects, equal to observed, C12_check):", out.strip()[-3000:])
    for e in errs:
        print("harness consistency:", e)
        rc = 1
    print("holds (up to known findings)" if rc == 0 else "VIOLATED")
    return rc
