"""C09 - labels keep value and type end to end; per-call customisation never leaks."""
import json
import struct

import common as C
import srctie

INTERNAL = {"_retries": 0, "max_retries": 1, "retry_on_error": 2, "X-Taskiq-requeue": 3, "timeout": 4}
COUNTERS = ("_retries", "X-Taskiq-requeue")
CANON_NAN = "7ff8000000000000"
OTHER_KINDS = ["none", "list", "intenum", "tuple", "obj", "bytearray"]
META = dict(
    id="C09",
    design_ref="DESIGN.md section 4, C09",
    technique="Coq proof (codec round trips incl. a proved base64 and the stdlib decimal round trip over unbounded Z; induction over "
              "re-sends; invariant over kicker histories on a heap of dicts) + differential correspondence through the real "
              "task/kicker -> formatter -> serializer -> Receiver.callback -> retry middleware / Context.requeue path",
    level_text="C09_codec (parse_label (prepare_label v) = v for int/str/float/bool/bytes, all values), C09_b64 (b64decode (b64encode "
               "bs) = bs for all byte lists), C09_int (int(str(z)) = z for all z : Z), C09_wire (parse_labels (prepare_labels d) = d), "
               "C09_delivery (labels seen at the first delivery and after any list of retries / requeues equal the labels set, "
               "induction on the list) and C09_no_leak (for every history of kicker operations on any number of tasks the declared "
               "label dicts are unchanged and every send carries declared + that kicker's own with_labels / with_task_id / "
               "with_broker only) hold on the Gallina model coq/theories/Labels.v + Base64.v for all inputs. The model is tied to "
               "/repo on every run: generated scenarios run on the real code and the model is evaluated inside coqc (vm_compute) on the "
               "same scenario; wire form, labels seen in a recording middleware, in Context and in the stored result, task.labels "
               "after the history and the (task, id, broker) of every send must all be equal.",
    level_note="float clause partial by design: CPython's float(str(f)) == f is a Section hypothesis of C09_codec/C09_delivery "
               "(sampled by the correspondence only: the real str()/float() supply the table the model uses). Floats are compared "
               "by binary64 pattern with all NaNs identified (str(nan) is 'nan' for every payload; Python has one observable nan). "
               "Reading taken where the statement is silent: the two counters taskiq itself maintains in the labels (_retries, "
               "X-Taskiq-requeue) are not 'labels set by the user' and are excluded from the equality on re-deliveries; a kicker "
               "object that is reused keeps its own accumulated with_labels (the statement's 'that one send' = that kicker). "
               "Serializers: JSONSerializer and PickleSerializer (the other bundled ones are not importable here). Ints whose "
               "str() CPython itself refuses (> 4300 digits) are excluded.",
    rule="case = (serializer, tasks with declared typed labels, history of kicker()/with_labels/with_task_id/with_broker/kiq, per send a "
         "plan of 0-3 retries/requeues and a final outcome); non-trivial iff some label is not a str, or one task is sent >= 2 times "
         "with different kicker labels, or a plan has >= 1 retry/requeue; distinct by canonical JSON of the case",
    trusted_base=["model: coq/theories/Labels.v, Base64.v (hand-written transcription of labels.py, message.parse_labels, "
                  "kicker.with_*/_prepare_message, decor/shared_broker kicker(), context.requeue, retry re-send)",
                  "CPython str(float)/float(str) round trip (Section hypothesis float_roundtrip)",
                  "serializer round trip on dicts of str->str / str->int (observed on every case: the decoded wire is compared)",
                  "harness/drivers/labels_driver.py: recording broker / middleware / result backend, typed-value canonicaliser"],
    assumptions=["label keys are distinct within a dict (Python dict); counters _retries / X-Taskiq-requeue, if set by the user, hold "
                 "int, bool or [+-]digits str values (C09_delivery hypothesis counters_ok; other values make int() raise, which the "
                 "model reports as the end of the chain and the correspondence checks)"],
)


# ------------------------------------------------------------------ typed values (see drivers/labels_driver.py)
def K(s):
    return [ord(c) for c in s]


def kstr(k):
    return "".join(map(chr, k))


def fbits(x):
    return CANON_NAN if x != x else struct.pack(">d", x).hex()


def ffrom(h):
    return struct.unpack(">d", bytes.fromhex(h))[0]


def vkey(v):
    """hashable canonical form of a typed value"""
    if v["t"] == "other":
        return ("other", tuple(v.get("s", ())), v.get("k"))
    x = v["v"]
    return (v["t"], tuple(x) if isinstance(x, list) else x)


def is_other(v):
    return v["t"] == "other"


def as_map(pairs):
    return {kstr(k): v for k, v in pairs}


def canon_map(m, drop=()):
    return {k: vkey(v) for k, v in m.items() if k not in drop}


# ------------------------------------------------------------------ generator
BIG = [False, .05]  # [thorough tier: ints up to CPython's 4300-digit str() limit, probability of a long int]


def gen_int(r):
    k = r.random()
    if k < .3:
        return r.choice([0, 1, -1, 2, 10, -10, 255, 2**31, -2**31, 2**63, 2**64, -2**63 - 1, 10**18, 7, 42])
    if k < .7:
        return r.randrange(-10**6, 10**6)
    if k < 1 - BIG[1]:
        n = r.randrange(10**r.randrange(1, 60))
        return -n if r.random() < .4 else n
    d = r.choice([100, 640, 1000]) if not BIG[0] else r.choice([1000, 2500, 4000, 4299, 4300])
    n = r.randrange(10**(d - 1), 10**d)
    return -n if r.random() < .3 else n


SPECIAL_F = ["7ff0000000000000", "fff0000000000000", CANON_NAN, "8000000000000000", "0000000000000000", "0000000000000001",
             "000fffffffffffff", "0010000000000000", "7fefffffffffffff", "3ff0000000000000", "3fb999999999999a", "bff8000000000000",
             "4341c37937e08000", "3e7ad7f29abcaf48", "44b52d02c7e14af6", "8000000000000001", "3fd5555555555555", "4059000000000000"]


def gen_float(r):
    if r.random() < .55:
        return r.choice(SPECIAL_F)
    h = "%016x" % r.getrandbits(64)
    x = ffrom(h)
    return CANON_NAN if x != x else h


def gen_str(r):
    k = r.random()
    if k < .25:
        return r.choice(["", "True", "true", "False", "123", "-5", "1.5", "nan", "inf", "None", "QUJD", "a b", "x=1", " ", "\x00",
                         "\"quoted\"", "back\\slash", "line\nbreak", "tab\t", "\x7f", "é", "null"])
    n = r.choice([1, 1, 2, 3, 5, 8, 20])
    out = []
    for _ in range(n):
        c = r.random()
        if c < .4:
            out.append(r.randrange(32, 127))
        elif c < .55:
            out.append(r.randrange(0, 32))
        elif c < .7:
            out.append(r.randrange(128, 0x800))
        elif c < .8:
            out.append(r.randrange(0x800, 0xD800))
        elif c < .88:
            s = r.randrange(0xD800, 0xE000)                # lone surrogate
            if out and 0xD800 <= out[-1] < 0xDC00 and s >= 0xDC00:
                s = r.randrange(0xD800, 0xDC00)            # never high+low adjacent: JSON reads that pair as one code point
            out.append(s)
        elif c < .95:
            out.append(r.randrange(0x10000, 0x110000))
        else:
            out.append(r.choice([0xFFFE, 0xFFFF, 0x2028, 0x2029, 0xFEFF, 0x10FFFF, 0xE000]))
    return "".join(map(chr, out))


def gen_bytes(r):
    k = r.random()
    if k < .15:
        return []
    if k < .3:
        return r.choice([[0], [255], [255, 0], [0xC3, 0x28], [0xFF, 0xFE, 0xFD], [0x80], [65, 66, 67], [0xED, 0xA0, 0x80], [0, 0, 0, 0]])
    return [r.randrange(256) for _ in range(r.choice([1, 2, 3, 4, 5, 6, 7, 10, 16, 31]))]


def gen_value(r, allow_other=True):
    k = r.random()
    if k < .24:
        return {"t": "int", "v": str(gen_int(r))}
    if k < .44:
        return {"t": "float", "v": gen_float(r)}
    if k < .56:
        return {"t": "bool", "v": r.random() < .5}
    if k < .76:
        return {"t": "str", "v": K(gen_str(r))}
    if k < .95 or not allow_other:
        return {"t": "bytes", "v": gen_bytes(r)}
    return {"t": "other", "k": r.choice(OTHER_KINDS)}


USER_KEYS = ["a", "b", "c", "d", "key-1", "k e y", "ключ", "labels", "task_id", "x", "queue", "é", "",
             "schedule_id", "9"]


def gen_counter_value(r):
    k = r.random()
    if k < .5:
        return {"t": "int", "v": str(r.choice([0, 1, 2, 5, -3, 40]))}
    if k < .75:
        return {"t": "str", "v": K(r.choice(["0", "1", "3", "007", "-2", "+4"]))}
    if k < .85:
        return {"t": "bool", "v": r.random() < .5}
    return {"t": "str", "v": K(r.choice(["abc", "", "1.5", "--1", "x1"]))}     # int() raises


def gen_labels(r, nmax, collide=.12):
    out, seen = [], set()
    for _ in range(r.randrange(0, nmax + 1)):
        if r.random() < collide:
            k = r.choice(["_retries", "X-Taskiq-requeue", "timeout"])
            if k == "timeout":
                v = r.choice([{"t": "int", "v": "100000"}, {"t": "str", "v": K("100000")}, {"t": "float", "v": "40f86a0000000000"}])
            else:
                v = gen_counter_value(r)
        else:
            k = r.choice(USER_KEYS)
            v = gen_value(r)
        if k in seen:
            continue
        seen.add(k)
        out.append([K(k), v])
    return out


def gen_plan(r):
    k = r.choice([0, 0, 0, 1, 1, 1, 2, 2, 3])
    return [r.choice(["fail", "requeue"]) for _ in range(k)] + [r.choice(["ok", "ok", "ok", "noresult"])]


def gen_case(r):
    ntasks = r.choice([1, 1, 2, 2, 3])
    tasks = [dict(labels=gen_labels(r, 4), shared=r.random() < .2) for _ in range(ntasks)]
    ops, nk, nkiq = [], 0, 0
    for _ in range(r.randrange(2, 11)):
        k = r.random()
        if k < .1:
            ops.append(dict(op="task_kiq", t=r.randrange(ntasks), plan=gen_plan(r)))
            nkiq += 1
        elif nk == 0 or k < .3:
            ops.append(dict(op="kicker", t=r.randrange(ntasks)))
            nk += 1
        elif k < .55:
            ops.append(dict(op="with_labels", k=r.randrange(nk), labels=gen_labels(r, 3, collide=.06)))
        elif k < .64:
            ops.append(dict(op="with_task_id", k=r.randrange(nk), id="c%d" % r.randrange(4)))
        elif k < .72:
            ops.append(dict(op="with_broker", k=r.randrange(nk), b=r.randrange(3)))
        else:
            ops.append(dict(op="kiq", k=r.randrange(nk), plan=gen_plan(r)))
            nkiq += 1
    if nkiq == 0:
        if nk == 0:
            ops.append(dict(op="kicker", t=0))
            nk = 1
        ops.append(dict(op="kiq", k=r.randrange(nk), plan=gen_plan(r)))
    return dict(ser=r.choice(["json", "pickle"]), mw=dict(nror=r.random() < .6, count=100, label=True), tasks=tasks, ops=ops)


# ------------------------------------------------------------------ labels the retry middleware itself reads
# max_retries / retry_on_error are *user* labels (set on the task or on a kicker) that SimpleRetryMiddleware reads on every
# failing attempt; like every other label they must arrive with the value and the type they were set with, on every delivery.
# They also decide whether a failing attempt is re-sent, so a scenario that sets them needs a plan that agrees with the
# documented decision (C11's statement: re-send while retry is enabled and executions so far < max_retries); the plan is
# normalised from the labels *set* (never from observations): it ends at the first failing attempt that is not re-sent.
RC_KEYS = ("max_retries", "retry_on_error")
RQ = "X-Taskiq-requeue"


def pyval(v):
    """typed case value -> the Python value that was set (what the worker must see)"""
    t = v["t"]
    if t == "int":
        return int(v["v"])
    if t == "float":
        return ffrom(v["v"])
    if t == "bool":
        return bool(v["v"])
    if t == "str":
        return kstr(v["v"])
    if t == "bytes":
        return bytes(v["v"])
    return {"none": "None", "list": "[1, 'a']", "intenum": "1", "tuple": "(1, 2)", "obj": "weird!", "bytearray": "bytearray(b'ab')"}[v["k"]]


def tv(x):
    """Python value of one of the five types -> typed case value"""
    if type(x) is bool:
        return {"t": "bool", "v": x}
    if type(x) is int:
        return {"t": "int", "v": str(x)}
    if type(x) is float:
        return {"t": "float", "v": fbits(x)}
    if type(x) is str:
        return {"t": "str", "v": K(x)}
    return {"t": "bytes", "v": list(x)}


def retry_enabled(lab, mw):
    if not mw.get("enabled", True):
        return False
    if "retry_on_error" not in lab:
        return bool(mw.get("label", True))
    x = pyval(lab["retry_on_error"])
    return x.lower() == "true" if isinstance(x, str) else bool(x)


def int_of(v):
    """int(value) of the language itself; None = it raises"""
    try:
        return int(pyval(v))
    except (ValueError, OverflowError, TypeError):
        return None


def effective_plan(labels, plan, mw):
    """(plan', crash): plan' = the plan cut after the first failing attempt that is not re-sent (retry disabled for this message,
    or executions so far >= max_retries); crash = a failing attempt makes int() raise on a counter inside on_error (the chain ends
    there without post_execute; plan left as it is)"""
    if plan[-1] in ("fail", "requeue"):
        plan = list(plan) + ["ok"]          # what the driver's task body does once its plan is used up
    retries = None
    out = []
    rq_ok = RQ not in labels or py_int_ok(labels[RQ])
    for act in plan[:-1]:
        out.append(act)
        if act == "requeue" and rq_ok:
            continue
        if not retry_enabled(labels, mw):
            return out, False
        if retries is None:
            if "_retries" in labels and not py_int_ok(labels["_retries"]):
                return list(plan), True
            retries = int(pyval(labels["_retries"])) if "_retries" in labels else 0
        retries += 1
        mr = int_of(labels["max_retries"]) if "max_retries" in labels else int(mw.get("count", 100))
        if mr is None:
            return list(plan), True
        if not retries < mr:
            return out, False
    return out + [plan[-1]], False


def normalise(case):
    """make every send's plan agree with the retry decision its labels ask for; returns the number of plans cut"""
    cut = 0
    for e in expected_sends(case):
        if "plan" not in e["op"]:
            continue
        p, _ = effective_plan(e["labels"], e["op"]["plan"], case.get("mw", {}))
        if p != e["op"]["plan"]:
            e["op"]["plan"] = p
            cut += 1
    return cut


def gen_max_retries(r):
    n = r.choice([0, 1, 2, 3, 3, 4, 4, 5, 6, 9, 40])
    k = r.random()
    if k < .15:
        return tv(n)
    if k < .42:
        return tv(r.choice(["%d", "%d", "+%d", "0%d", "00%d"]) % n)
    if k < .68:
        return tv(float(n) + r.choice([0, 0, 0, .5, .999]))
    if k < .78:
        return tv(r.random() < .6)                       # int(True) = 1: one execution only
    if k < .9:
        return tv(str(n).encode())                       # int(b"4") = 4
    return tv(r.choice([-1, -2**40, 2**70, 10**30]))


def gen_retry_on_error(r):
    nan = ffrom(CANON_NAN)
    return tv(r.choice([True, True, True, False,
                        "True", "true", "TRUE", "tRuE", "false", "False", "yes", "1", "",
                        1, 2, -1, 0, 1.0, .5, nan, 0.0, -0.0, b"x", b"\x00", b"false", b""]))


def set_label(r, pairs, key, v):
    for p in pairs:
        if kstr(p[0]) == key:
            p[1] = v
            return
    pairs.insert(r.randrange(len(pairs) + 1), [K(key), v])


def gen_rc_plan(r):
    n = r.choice([1, 1, 2, 2, 3])
    acts = [r.choice(["fail", "fail", "fail", "requeue"]) for _ in range(n)]
    acts[r.randrange(n)] = "fail"
    return acts + [r.choice(["ok", "ok", "ok", "noresult"])]


def rc_sends(case):
    """sends whose labels carry a retry-control label and that are re-sent by the retry middleware at least once"""
    return [e for e in expected_sends(case) if any(k in e["labels"] for k in RC_KEYS) and "fail" in e["plan"][:-1]]


def gen_case_rc(r):
    """a scenario where max_retries / retry_on_error are set by the user (task declaration, kicker, or a kicker overriding the
    declaration with another type) with values of all five types, the middleware defaults vary, and at least one such send fails and
    is re-sent; the other sends of the scenario keep their random plans"""
    for attempt in range(40):
        case = gen_case(r)
        case["mw"] = dict(nror=r.random() < .6, count=r.choice([100, 100, 100, 100, 1, 2, 3, 4, 6]), label=r.random() < .8)
        sends = [(i, o) for i, o in enumerate(case["ops"]) if o["op"] in ("kiq", "task_kiq")]
        i, op = r.choice(sends)
        forced = attempt >= 30
        which = r.choice([("max_retries",), ("max_retries",), ("retry_on_error",), RC_KEYS, RC_KEYS])
        vals = {k: (gen_max_retries(r) if k == "max_retries" else gen_retry_on_error(r)) for k in which}
        if forced:
            vals = {"max_retries": tv(r.choice(["7", 7.5, b"7"])), "retry_on_error": tv(r.choice(["True", 1, 1.0, b"y"]))}
        where = "declared" if op["op"] == "task_kiq" else r.choice(["declared", "kicker", "kicker", "both"])
        t = op["t"] if op["op"] == "task_kiq" else [o for o in case["ops"] if o["op"] == "kicker"][op["k"]]["t"]
        if where in ("declared", "both"):
            for k, v in vals.items():
                set_label(r, case["tasks"][t]["labels"], k, v)
        if where in ("kicker", "both"):
            if where == "both":     # the kicker overrides the declaration, with a value of another type where it can
                vals = {k: (gen_max_retries(r) if k == "max_retries" else gen_retry_on_error(r)) for k in vals}
            mine = [o for o in case["ops"][:i] if o["op"] == "with_labels" and o["k"] == op["k"]]
            if mine and r.random() < .5:
                wl = mine[-1]
            else:
                wl = dict(op="with_labels", k=op["k"], labels=[])
                case["ops"].insert(i, wl)
            for k, v in vals.items():
                set_label(r, wl["labels"], k, v)
        op["plan"] = gen_rc_plan(r)
        normalise(case)
        if rc_sends(case):
            return case
    return dict(ser=r.choice(["json", "pickle"]), mw=dict(nror=True, count=100, label=True),
                tasks=[dict(labels=[[K("max_retries"), tv("7")]], shared=False)],
                ops=[dict(op="kicker", t=0), dict(op="kiq", k=0, plan=["fail", "ok"])])


# ------------------------------------------------------------------ middlewares that hand the message on
# The worker-side and send-side middleware stacks were constants (one recorder that returns the object it was given + the retry
# middleware).  A middleware may hand on any TaskiqMessage with the same content: the same object, a (deep) copy, a freshly
# built message, an instance of its own subclass, sync / async / a non-coroutine awaitable, before or after the other
# middlewares.  None of these touches a label, so the labels seen by the later middlewares, by Context, in the stored result
# and on every re-delivery must still be the labels that were set (value and type).
PASS_MODES = ["same", "copy", "deep", "update", "rebuild", "sub", "construct", "validate", "notypes"]
SEND_MODES = [m for m in PASS_MODES if m != "notypes"]      # on the send side the types are still needed by the worker
STYLES = ["sync", "sync", "async", "async", "future", "awaitable"]
# values that survive, change under, or break a second decoding / a re-typing of a label
TRICKY = {
    "bytes": [b"abcd", b"QUJD", b"QUJDRA==", b"UVVKRA==", b"\xff\x00\xfe", b"=", b"a", b"ab==", b"abc", b"True", b"12", b"1.5",
              b"\x00", b"////", b"+/+/", b"a\nb", b" "],
    "str": ["QUJD", "YWJjZA==", "UVVKRA==", "True", "false", "12", "-0", "1.5", "nan", "1e3", "b'ab'", "", "="],
    "int": [0, 1, -1, 12, 2**64, -10**30],
    "float": [1.0, -0.0, 12.0, 1e22, float("inf"), float("nan"), .1],
    "bool": [True, False],
}


def gen_tricky(r, t):
    if r.random() < .35:
        while True:
            v = gen_value(r, allow_other=False)
            if v["t"] == t:
                return v
    return tv(r.choice(TRICKY[t]))


def gen_xmw(r):
    """1-3 middlewares; at least one hands on another object than it was given in three of four stacks"""
    out = []
    for _ in range(r.choice([1, 1, 2, 2, 3])):
        k = r.random()
        pre = r.choice(PASS_MODES) if k < .8 else None
        send = r.choice(SEND_MODES) if k >= .8 or r.random() < .3 else None
        out.append(dict(pos=r.choice(["first", "mid", "mid", "last"]), pre=pre, send=send, style=r.choice(STYLES),
                        inherit=r.random() < .2))
    if r.random() < .75 and all(m["pre"] in (None, "same") for m in out):
        out[r.randrange(len(out))]["pre"] = r.choice(PASS_MODES[1:])
    return out


def gen_case_mw(r, base=None):
    """a random scenario run with a stack of middlewares that hand the message on in different ways, in which one send
    carries labels of all five types (set on the declaration, on the kicker, or split over both), its bytes / str / number
    values drawn from the ones a second decoding or a re-typing would change"""
    case = base if base is not None else (gen_case_rc(r) if r.random() < .15 else gen_case(r))
    case["xmw"] = gen_xmw(r)
    sends = [(i, o) for i, o in enumerate(case["ops"]) if o["op"] in ("kiq", "task_kiq")]
    i, op = r.choice(sends)
    t = op["t"] if op["op"] == "task_kiq" else [o for o in case["ops"] if o["op"] == "kicker"][op["k"]]["t"]
    types = ["bytes", "str", "int", "float", "bool"] if r.random() < .7 else ["bytes"] + r.sample(["str", "int", "float", "bool"], 2)
    wl = None
    for ty in types:
        name = r.choice(["l_" + ty, "l_" + ty, r.choice(USER_KEYS[:6])])
        v = gen_tricky(r, ty)
        if op["op"] == "task_kiq" or r.random() < .5:
            set_label(r, case["tasks"][t]["labels"], name, v)
        else:
            if wl is None:
                wl = dict(op="with_labels", k=op["k"], labels=[])
                case["ops"].insert(i, wl)
            set_label(r, wl["labels"], name, v)
    if r.random() < .5:
        op["plan"] = gen_plan(r)
    normalise(case)
    return case


def retype(r, v):
    """the same value written in another of the five types, where the language converts it (else a fresh value)"""
    if v["t"] == "other":
        return gen_value(r, allow_other=False)
    x = pyval(v)
    cands = []
    if isinstance(x, (bool, int, float)):
        cands += [str(x), str(x).encode()]
        if x == x and abs(x) < 2**60:
            cands += [int(x), float(x), bool(x)]
    elif isinstance(x, bytes):
        cands += [x.decode("latin-1")]
    else:
        for f in (int, float):
            try:
                cands.append(f(x))
            except (ValueError, OverflowError):
                pass
        try:
            cands.append(x.encode())
        except UnicodeEncodeError:
            pass
    cands = [c for c in cands if type(c) is not type(x) and not (type(c) is int and len(str(c)) > 4000)]
    return tv(r.choice(cands)) if cands else gen_value(r, allow_other=False)


def variant(r, case):
    """a neighbour of a scenario on which model and implementation differed: same shape, 1-3 small changes (a label re-typed,
    renamed to / from a name the retry middleware reads, copied between declaration and kicker, a longer plan, other
    serializer / middleware defaults).  'timeout' is left alone (a small value would time the task out)."""
    c = json.loads(json.dumps(case))
    dicts = [t["labels"] for t in c["tasks"]] + [o["labels"] for o in c["ops"] if o["op"] == "with_labels"]
    sends = [o for o in c["ops"] if o["op"] in ("kiq", "task_kiq")]
    for _ in range(r.choice([1, 2, 2, 3])):
        k = r.random()
        d = r.choice(dicts)
        free = [p for p in d if kstr(p[0]) != "timeout"]
        if k < .3 and free:
            p = r.choice(free)
            p[1] = retype(r, p[1])
        elif k < .5 and free:
            p = r.choice(free)
            name = r.choice(["max_retries", "retry_on_error", "_retries", RQ] + USER_KEYS[:4])
            if name not in {kstr(q[0]) for q in d}:
                p[0] = K(name)
        elif k < .62 and free:
            p = r.choice(free)
            d2 = r.choice(dicts)
            if kstr(p[0]) not in {kstr(q[0]) for q in d2}:
                d2.append([p[0], retype(r, p[1]) if r.random() < .5 else p[1]])
        elif k < .9 and sends:
            r.choice(sends)["plan"] = gen_rc_plan(r)
        elif k < .95:
            c["ser"] = "pickle" if c.get("ser") == "json" else "json"
        else:
            c["mw"] = dict(nror=r.random() < .5, count=r.choice([100, 2, 3, 5]), label=r.random() < .8)
    # a max_retries value on which int() raises makes on_error raise on the unchanged code too: nothing to see, keep it convertible
    for d in dicts:
        for p in d:
            if kstr(p[0]) == "max_retries" and int_of(p[1]) is None:
                p[1] = gen_max_retries(r)
            if kstr(p[0]) in COUNTERS and p[1]["t"] not in ("int", "str", "bool"):
                p[1] = gen_counter_value(r)          # int(float) / int(bytes) of a counter: outside the model (notes, scope)
    normalise(c)
    return c


def model_index(case):
    """explicit kicker j (index into the list of kicker() results) -> index of that kicker in the model, where
    task.kiq() is kicker() + kiq() and therefore creates a kicker of its own"""
    m, n = [], 0
    for op in case["ops"]:
        if op["op"] == "kicker":
            m.append(n)
            n += 1
        elif op["op"] == "task_kiq":
            n += 1
    return m


def nontrivial(case):
    vals = [v for t in case["tasks"] for _, v in t["labels"]] + \
           [v for o in case["ops"] if o["op"] == "with_labels" for _, v in o["labels"]]
    if any(v["t"] != "str" for v in vals):
        return True
    if any(len(o.get("plan", [])) > 1 for o in case["ops"]):
        return True
    return sum(1 for o in case["ops"] if o["op"] in ("kiq", "task_kiq")) >= 2 and any(
        o["op"] == "with_labels" and o["labels"] for o in case["ops"])


# ------------------------------------------------------------------ expectation from the history alone (oracle side)
def expected_sends(case):
    """per kiq in order: (task, expected typed labels (dict key->value), custom id or None, broker)"""
    home = [1 if t.get("shared") else t.get("broker", 0) for t in case["tasks"]]
    ks, out = [], []
    for op in case["ops"]:
        o = op["op"]
        if o == "kicker":
            ks.append(dict(t=op["t"], own=[], tid=None, b=home[op["t"]]))
        elif o == "task_kiq":
            out.append((dict(t=op["t"], own=[], tid=None, b=home[op["t"]]), op))
        elif o == "with_labels":
            ks[op["k"]]["own"].append(op["labels"])
        elif o == "with_task_id":
            ks[op["k"]]["tid"] = op["id"]
        elif o == "with_broker":
            ks[op["k"]]["b"] = op["b"]
        elif o == "kiq":
            out.append((dict(ks[op["k"]], own=list(ks[op["k"]]["own"])), op))
    res = []
    for k, op in out:
        lab = as_map(case["tasks"][k["t"]]["labels"])
        for l in k["own"]:
            lab.update(as_map(l))
        res.append(dict(t=k["t"], labels=lab, tid=k["tid"], b=k["b"], plan=op.get("plan", ["ok"]), op=op))
    return res


def py_int_ok(v):
    """would int(value) succeed for the received value (oracle side; uses the language itself)"""
    if v["t"] == "int" or v["t"] == "bool":
        return True
    if v["t"] == "str":
        try:
            int(kstr(v["v"]))
            return True
        except ValueError:
            return False
    return False


def oracle(case, obs, fail):
    """literal transcription of the statement over the implementation's observations"""
    decl = [as_map(t["labels"]) for t in case["tasks"]]
    # --- per-call customisation never alters the declared labels
    for snap in obs["snaps"]:
        if len(snap) > 2:
            fail("a kicker operation raised", dict(op=snap[0], error=snap[2]), None, "leak")
        for t, pairs in enumerate(snap[1]):
            got = as_map(pairs)
            others = {k for k, v in decl[t].items() if is_other(v)}      # objects: only their presence is compared
            gotc = canon_map({k: v for k, v in got.items() if k not in others})
            wantc = canon_map({k: v for k, v in decl[t].items() if k not in others})
            if gotc != wantc or set(got) != set(decl[t]):
                fail("task.labels differ from the declared labels after a kicker operation (op index %d, task %d)" % (snap[0], t),
                     dict(after_op=snap[0], task=t, labels={k: got[k] for k in sorted(got)}),
                     {k: decl[t][k] for k in sorted(decl[t])}, "leak")
                return
    exp = expected_sends(case)
    if len(exp) != len(obs["sent"]):
        fail("number of sends differs from the number of kiq calls", len(obs["sent"]), len(exp), "send")
        return
    gen_ids = []
    for e, s in zip(exp, obs["sent"]):
        if s["err"] or s["n"] != 1:
            fail("kiq did not hand exactly one message to the broker", dict(err=s["err"], n=s["n"]), 1, "send")
            continue
        if e["tid"] is not None:
            if s["task_id"] != e["tid"]:
                fail("custom task id of this kicker not used", s["task_id"], e["tid"], "leak")
        else:
            if not s["task_id"].startswith("g") or s["task_id"] in gen_ids:
                fail("send without with_task_id on its kicker did not get a fresh generated id", s["task_id"], "fresh id", "leak")
            gen_ids.append(s["task_id"])
        if s["broker"] != e["b"]:
            fail("message kicked on another broker than this kicker's", s["broker"], e["b"], "leak")
        if s["task_name"] != obs["names"][e["t"]] or s["handle_id"] != s["task_id"]:
            fail("task name / returned handle id wrong", [s["task_name"], s["handle_id"]], [obs["names"][e["t"]], s["task_id"]], "send")
        prim = {k: v for k, v in e["labels"].items() if not is_other(v)}
        others = {k for k, v in e["labels"].items() if is_other(v)}
        want = canon_map(prim, drop=COUNTERS)
        want_full = canon_map(prim)
        # int() raising on a counter label the user set to a non-number: the chain ends there (on_error raises) / requeue()
        # raises ValueError instead of NoResultError - nothing is demanded about the number of deliveries then
        crashy = any(k in e["labels"] and not py_int_ok(e["labels"][k]) for k in COUNTERS) \
            or effective_plan(e["labels"], e["plan"], case.get("mw", {}))[1]
        chain = s["chain"]
        if not chain:
            fail("sent message was never delivered", None, None, "delivery")
            continue
        # the plan ends at the first failing attempt the labels / middleware defaults say is not re-sent (normalise): a
        # *missing* re-delivery is this property's business ("on every retry or requeue"), how many times the middleware
        # retries beyond that is C11's
        short = len(chain) < len(e["plan"]) or (len(chain) != len(e["plan"]) and e["plan"][-1] not in ("fail", "requeue"))
        if not crashy and short:
            fail("a retry / requeue did not lead to exactly one re-delivery", dict(deliveries=len(chain), plan=e["plan"]),
                 len(e["plan"]), "requeue" if "requeue" in e["plan"] else "delivery")
        for j, at in enumerate(chain):
            views = [("middleware(pre_execute)", at["pre"]), ("Context", at["ctx"]), ("middleware(post_execute)", at["post"]),
                     ("stored result", at["res"])]
            required = ["middleware(pre_execute)", "Context"]
            if case.get("xmw") is not None:          # a second recorder after all other middlewares
                views[1:1] = [("later middleware(pre_execute)", at.get("pre2"))]
                views[-1:-1] = [("later middleware(post_execute)", at.get("post2"))]
                required.append("later middleware(pre_execute)")
            for name, pairs in views:
                if pairs is None:
                    if name in required:
                        fail("delivery %d: message not seen in %s (undecodable or not executed)" % (j, name),
                             dict(callback_raised=at["callback_raised"]), None, "requeue" if 0 < j <= len(e["plan"]) and e["plan"][j - 1] == "requeue" else "delivery")
                    continue
                got = as_map(pairs)
                exact = j == 0 and not name.endswith("(post_execute)")
                gotc = canon_map({k: v for k, v in got.items() if k not in others}, drop=() if exact else COUNTERS)
                w = want_full if exact else want
                if gotc != w:
                    diff = sorted(k for k in set(gotc) | set(w) if gotc.get(k) != w.get(k))
                    fail("labels seen by the worker differ in value or type from the labels set (%s, %s)" % (
                        "first delivery" if j == 0 else "re-delivery", name),
                        dict(delivery=j, where=name, keys=diff, got={k: got.get(k) for k in diff}),
                        {k: e["labels"].get(k) for k in diff},
                        "requeue" if 0 < j <= len(e["plan"]) and e["plan"][j - 1] == "requeue" else "delivery")
                    break
            if at["task_id"] != s["task_id"] or (at["pre"] is not None and at.get("pre_tid") != s["task_id"]):
                fail("re-delivery under another task id", at["task_id"], s["task_id"], "delivery")
            if at.get("act") == "requeue" and at.get("raised") != "NoResultError" and not crashy:
                fail("Context.requeue() raised instead of re-sending", at.get("raised"), "NoResultError", "requeue")


SIGNATURES = {
    "with_labels_leak": lambda f: f["sig"].get("kind") == "leak",
    "requeue_labels": lambda f: f["sig"].get("kind") == "requeue",
}


# ------------------------------------------------------------------ Coq literals
class Lit:
    def __init__(self, case, obs):
        self.case, self.obs = case, obs
        names = set()
        for t in case["tasks"]:
            names |= {kstr(k) for k, _ in t["labels"]}
        for o in case["ops"]:
            if o["op"] == "with_labels":
                names |= {kstr(k) for k, _ in o["labels"]}
        self.kid = dict(INTERNAL)
        for i, n in enumerate(sorted(names - set(INTERNAL))):
            self.kid[n] = 10 + i
        self.floats = set()
        self.unknown_key = False

    def key(self, k):
        s = kstr(k)
        if s not in self.kid:
            self.unknown_key = True
            self.kid[s] = 1000 + len(self.kid)
        return "%d%%N" % self.kid[s]

    def pstr(self, cps):
        return "[" + ";".join("%d%%N" % c for c in cps) + "]"

    def val(self, v):
        t = v["t"]
        if t == "int":
            n = int(v["v"])
            if abs(n) < 10**25:
                return "(LInt %s)" % C.cz(n)
            return "(LInt (%s0x%x)%%Z)" % ("-" if n < 0 else "", abs(n))    # long decimal literals parse quadratically
        if t == "float":
            self.floats.add(v["v"])
            return "(LFloat %d%%Z)" % int(v["v"], 16)
        if t == "bool":
            return "(LBool %s)" % C.cb(v["v"])
        if t == "str":
            return "(LStr %s)" % self.pstr(v["v"])
        if t == "bytes":
            return "(LBytes (bytes_of_Ns %s))" % self.pstr(v["v"])
        if "k" in v:
            return "(LOther %s)" % self.pstr(self.obs["other_str"][v["k"]])
        return "(LOther %s)" % self.pstr(v["s"])     # an observed non-primitive value: never equal to a model value unless LOther

    def ldict(self, pairs):
        return "[" + "; ".join("(%s, %s)" % (self.key(k), self.val(v)) for k, v in pairs) + "]"

    def sdict(self, pairs):
        """wire labels: values must be str on the wire"""
        items = []
        for k, v in pairs:
            if v["t"] != "str":
                return None
            items.append("(%s, %s)" % (self.key(k), self.pstr(v["v"])))
        return "[" + "; ".join(items) + "]"

    def tdict(self, pairs):
        if pairs is None:
            return "None"
        return "(Some [" + "; ".join("(%s, %d%%N)" % (self.key(k), t) for k, t in pairs) + "])"

    def tables(self):
        sof, fos = [], []
        for h in sorted(self.floats):
            s = str(ffrom(h))
            back = fbits(float(s))
            sof.append("(%d%%Z, %s)" % (int(h, 16), self.pstr(K(s))))
            fos.append("(%s, Some %d%%Z)" % (self.pstr(K(s)), int(back, 16)))
        return "[" + "; ".join(sof) + "]", "[" + "; ".join(fos) + "]"


def kops_literal(lit, case):
    mi = model_index(case)
    out, n = [], 0
    for op in case["ops"]:
        o = op["op"]
        if o == "kicker":
            out.append("OKicker %d" % op["t"])
            n += 1
        elif o == "task_kiq":
            out.append("OKicker %d" % op["t"])
            out.append("OKiq %d" % n)
            n += 1
        elif o == "with_labels":
            out.append("OWithLabels %d %s" % (mi[op["k"]], lit.ldict(op["labels"])))
        elif o == "with_task_id":
            out.append("OWithTaskId %d %d%%N" % (mi[op["k"]], int(op["id"][1:])))
        elif o == "with_broker":
            out.append("OWithBroker %d %d%%N" % (mi[op["k"]], op["b"]))
        elif o == "kiq":
            out.append("OKiq %d" % mi[op["k"]])
    return "[" + "; ".join(out) + "]"


def case_literal(case, obs):
    """None if the observation cannot even be written as a model-typed literal (then it is a mismatch by itself)"""
    lit = Lit(case, obs)
    decl = "[" + "; ".join(lit.ldict(t["labels"]) for t in case["tasks"]) + "]"
    tb = "[" + "; ".join("%d%%N" % (1 if t.get("shared") else t.get("broker", 0)) for t in case["tasks"]) + "]"
    ops = kops_literal(lit, case)
    after = "[" + "; ".join(lit.ldict(x) for x in obs["final"]) + "]"
    sends = []
    for s in obs["sent"]:
        if s["n"] != 1 or "undecodable" in s["wire"]:
            return None
        wl = lit.sdict(s["wire"]["labels"])
        bl = lit.sdict(s["bm_labels"])
        if wl is None or bl is None:
            return None
        tid = "None" if s["task_id"].startswith("g") else "(Some %d%%N)" % int(s["task_id"][1:])
        acts = "[" + "; ".join("ARetry" if a == "fail" else "ARequeue" for a in s["plan"][:-1]) + "]"
        atts = []
        for at in s["chain"]:
            if at["pre"] is None or at["ctx"] is None or len(at["resent"]) > 1:
                return None
            rw = "None"
            for m in at["resent"]:
                if "undecodable" in m["wire"]:
                    return None
                x = lit.sdict(m["wire"]["labels"])
                if x is None:
                    return None
                rw = "(Some (mkWire %s %s))" % (x, lit.tdict(m["wire"]["types"]))
            atts.append("(%s, %s, %s, %s, %s)" % (lit.ldict(at["pre"]), lit.ldict(at["ctx"]),
                                                  "None" if at["post"] is None else "(Some %s)" % lit.ldict(at["post"]),
                                                  "None" if at["res"] is None else "(Some %s)" % lit.ldict(at["res"]), rw))
        sends.append("((%d%%nat, %s, %d%%N), (mkWire %s %s), %s, %s, [%s])" % (
            next(i for i, n in enumerate(obs["names"]) if n == s["task_name"]), tid, s["broker"], wl, lit.tdict(s["wire"]["types"]),
            bl, acts, "; ".join(atts)))
    sof, fos = lit.tables()
    if lit.unknown_key:
        return None
    return "((%s, %s, %s, %s, %s, %s, [%s]) : case_t)" % (sof, fos, decl, tb, ops, after, ";\n   ".join(sends))


COQ_HEADER = """From Coq Require Import ZArith NArith List Bool. Import ListNotations.
From TQ Require Import Base64 Labels.
Open Scope N_scope.
Definition att := (dict lval * dict lval * option (dict lval) * option (dict lval) * option wire)%type.
Definition send_obs := ((nat * option N * N) * wire * dict pstr * list action * list att)%type.
Definition case_t := (list (Z * pstr) * list (pstr * option Z) * list (dict lval) * list N * list kop * list (dict lval)
                      * list send_obs)%type.
Definition deq := dict_eqb lval_eqb.
Fixpoint atts_ok (tr : list (dict lval * option (dict lval) * option wire)) (obs : list att) : bool :=
  match tr, obs with
  | [], [] => true
  | (seen, post, w) :: tr', (p, c, po, res, ow) :: obs' =>
      deq p seen && deq c seen && opt_eqb deq po post && match res with None => true | Some x => deq x seen end
      && opt_eqb wire_eqb ow w && atts_ok tr' obs'
  | _, _ => false
  end.
Definition send_ok (sof : Z -> pstr) (fos : pstr -> option Z) (m : sent) (o : send_obs) : bool :=
  let '(hdr, w, bml, acts, atts) := o in
  let '(t, tid, b) := hdr in
  let mw := prepare_labels sof (s_labels m) in
  (t =? s_task m)%nat && opt_eqb N.eqb tid (s_tid m) && (b =? s_broker m)
  && wire_eqb w mw
  && dict_eqb pstr_eqb bml (w_labels mw)
  && match parse_labels fos w with
     | None => match atts with [] => true | _ => false end
     | Some L => atts_ok (chain_trace sof fos L acts) atts
                 && C09_check_delivery (s_labels m) (map (fun a => fst (fst (fst (fst a)))) atts)
     end.
Fixpoint sends_ok sof fos (ms : list sent) (os : list send_obs) : bool :=
  match ms, os with
  | [], [] => true
  | m :: ms', o :: os' => send_ok sof fos m o && sends_ok sof fos ms' os'
  | _, _ => false
  end.
Definition case_ok (c : case_t) : bool :=
  let '(st, ft, decl, tb, ops, after, sends) := c in
  let sof := tab_sof st in let fos := tab_fos ft in
  match run_history decl tb ops with
  | None => false
  | Some s =>
      list_eqb deq (firstn (List.length decl) (heap s)) after
      && C09_check_noleak decl after
      && list_eqb sent_eqb (rev (out s)) (spec_sent decl tb [] ops)
      && sends_ok sof fos (rev (out s)) sends
  end."""
COQ_BODY = """Fixpoint bad (i : nat) (l : list case_t) : list nat :=
  match l with [] => [] | c :: t => if case_ok c then bad (S i) t else i :: bad (S i) t end.
Eval vm_compute in bad 0%nat cases."""


# ------------------------------------------------------------------ direct codec family
B64 = "ABCDEFGHIJKLMNOPQRSTUVWXYZabcdefghijklmnopqrstuvwxyz0123456789+/"
INT_CH = "0123456789+-abxe.,/#"      # ASCII only, no whitespace / underscore (CPython's int() accepts those: outside the model)


def gen_codec_item(r):
    k = r.random()
    if k < .3:
        return {"prep": gen_value(r)}
    if k < .5:      # INT
        e = r.random()
        if e < .5:
            n = gen_int(r)
            # CPython refuses int() of a str with more than 4300 digit characters (leading zeros count): language limit
            s = r.choice(["%d", "%d", "+%d", "0%d", "000%d"] if abs(n) < 10**4200 else ["%d", "+%d"]) % abs(n)
            s = ("-" + s.lstrip("+")) if n < 0 else s
        elif e < .7:
            s = r.choice(["", "-", "+", "--1", "1-", "-0", "+0", "00", "12a", "0x10", "1.0", "1e3", "1,0", "-+1", "+-1", "9" * 30])
        else:
            s = "".join(r.choice(INT_CH) for _ in range(r.randrange(1, 6)))
        return {"parse": [K(s), 2]}
    if k < .62:     # BOOL
        e = r.random()
        if e < .6:
            s = "".join(c.upper() if r.random() < .5 else c for c in r.choice(["true", "false", "true", "tru", "truee"]))
        else:
            s = gen_str(r)
        return {"parse": [K(s), 5]}
    if k < .85:     # BYTES: canonical shape, any trailing bits; or a length that is no multiple of 4
        groups = ["".join(r.choice(B64) for _ in range(4)) for _ in range(r.randrange(0, 5))]
        e = r.random()
        if e < .3:
            groups.append("".join(r.choice(B64) for _ in range(2)) + "==")
        elif e < .6:
            groups.append("".join(r.choice(B64) for _ in range(3)) + "=")
        elif e < .7:
            groups.append("".join(r.choice(B64) for _ in range(r.choice([1, 2, 3]))))     # bad length: binascii.Error
        return {"parse": [K("".join(groups)), 6]}
    if k < .93:
        return {"parse": [K(gen_str(r)), r.choice([3, 1])]}
    if k < .97:
        return {"parse": [K(str(ffrom(gen_float(r)))), 4]}
    return {"parse": [K(gen_str(r)), r.choice([0, 7, 8, 100])]}


def explore_codec(ctx, rep, r, n, label):
    cases = [dict(codec=[gen_codec_item(r) for _ in range(25)]) for _ in range(n)]
    obs = C.run_driver(ctx, "labels_driver", cases)
    lits, keep = [], []
    for c, o in zip(cases, obs):
        rep.case(c, True)
        if "_crash" in o:
            rep.fail("driver crashed", c, observed=o["_crash"], sig=dict(kind="crash"))
            continue
        lit = Lit(dict(tasks=[], ops=[]), o)
        items = []
        for it, ob in zip(c["codec"], o["codec"]):
            if "prep" in it:
                rep.count("codec:prepare:" + it["prep"]["t"])
                v = it["prep"]
                # oracle: the statement's round trip, on the implementation alone
                if v["t"] != "other" and not ob["is_str"]:
                    rep.fail("prepare_label returned a non-str", c, observed=ob, sig=dict(kind="codec"))
                items.append("(inl (%s, (%s, %d%%N)))" % (lit.val(v), lit.pstr(ob["s"]), ob["t"]))
            else:
                cps, t = it["parse"]
                rep.count("codec:parse:type%d:%s" % (t, "raise" if "raise" in ob else "value"))
                if t == 4:
                    try:
                        fb = "(Some %d%%Z)" % int(fbits(float(kstr(cps))), 16)
                    except ValueError:
                        fb = "None"
                    lit.extra_fos = getattr(lit, "extra_fos", []) + ["(%s, %s)" % (lit.pstr(cps), fb)]
                items.append("(inr (%s, %d%%N, %s))" % (lit.pstr(cps), t, "None" if "raise" in ob else "(Some %s)" % lit.val(ob["v"])))
        sof, fos = lit.tables()
        fos = "(" + fos + " ++ [" + "; ".join(getattr(lit, "extra_fos", [])) + "])%list"
        lits.append("((%s, %s, [%s]) : ccase_t)" % (sof, fos, ";\n  ".join(items)))
        keep.append(c)
    bad, fails, _ = C.coq_eval(ctx, label, CODEC_HEADER, lits, CODEC_BODY, shard=40)
    rep.corr(label, len(lits), bad, fails, lambda i: keep[i])
    rep.traces += len(lits) - len(bad)
    return bool(bad or fails)


CODEC_HEADER = """From Coq Require Import ZArith NArith List Bool. Import ListNotations.
From TQ Require Import Base64 Labels.
Open Scope N_scope.
Definition item := ((lval * (pstr * N)) + (pstr * N * option lval))%type.
Definition ccase_t := (list (Z * pstr) * list (pstr * option Z) * list item)%type.
Definition item_ok (sof : Z -> pstr) (fos : pstr -> option Z) (it : item) : bool :=
  match it with
  | inl (v, (s, t)) => let p := prepare_label sof v in pstr_eqb (fst p) s && (snd p =? t)
                       && match v with LOther _ => true | _ => opt_eqb lval_eqb (parse_label fos s t) (Some v) end
  | inr (s, t, r) => opt_eqb lval_eqb (parse_label fos s t) r
  end.
Definition ccase_ok (c : ccase_t) : bool := let '(st, ft, its) := c in forallb (item_ok (tab_sof st) (tab_fos ft)) its."""
CODEC_BODY = """Fixpoint bad (i : nat) (l : list ccase_t) : list nat :=
  match l with [] => [] | c :: t => if ccase_ok c then bad (S i) t else i :: bad (S i) t end.
Eval vm_compute in bad 0%nat cases."""


def lower_table_obligation(rep):
    """str(x).lower() == "true" is modelled as an ASCII case fold; that is CPython's full-Unicode lower() exactly when no
    non-ASCII code point lowercases into one of t, r, u, e - checked over the whole code space on every run"""
    bad = [c for c in range(128, 0x110000) if any(ch in "true" for ch in chr(c).lower())]
    rep.obligations.append(dict(name="cpython:no non-ASCII code point lowercases into t/r/u/e (exhaustive over 0x110000 code points)",
                                ok=not bad, axioms=[], detail="none" if not bad else "code points %r" % bad[:5]))
    rep.extra["lower_table_code_points_checked"] = 0x110000 - 128


# ------------------------------------------------------------------ run
def explore(ctx, rep, cases, label, shard=60):
    obs = C.run_driver(ctx, "labels_driver", cases)
    lits, keep, unlit = [], [], []
    for c, o in zip(cases, obs):
        rep.case(c, nontrivial(c))
        rep.count("serializer:" + c["ser"])
        if "_crash" in o:
            rep.fail("driver crashed", c, observed=o["_crash"], sig=dict(kind="crash"))
            continue
        nfail = len(rep.failures)

        def fail(what, observed, expected, kind, c=c):
            if len(rep.failures) - nfail < 3:
                rep.fail(what, c, observed=observed, expected=expected, sig=dict(kind=kind))

        oracle(c, o, fail)
        for t in c["tasks"]:
            for _, v in t["labels"]:
                rep.count("declared-label:" + v["t"])
        for op in c["ops"]:
            rep.count("op:" + op["op"])
            if op["op"] == "with_labels":
                for _, v in op["labels"]:
                    rep.count("kicker-label:" + v["t"])
            for a in op.get("plan", [])[:-1]:
                rep.count("resend:" + a)
        exp = expected_sends(c)
        if len(exp) == len(o["sent"]):
            for e, s in zip(exp, o["sent"]):
                retried = sum(1 for a in e["plan"][:-1] if a == "fail")
                for k in RC_KEYS:
                    if k in e["labels"]:
                        rep.count("retry-control:%s set as %s:%s" % (k, e["labels"][k]["t"], "re-sent by the retry middleware" if retried
                                                                     and len(s.get("chain", ())) > 1 else "no retry"))
                if any(k in e["labels"] for k in RC_KEYS):
                    rep.count("retry-control:deliveries of a send with max_retries / retry_on_error set:%d" % len(s.get("chain", ())))
                    if e["plan"][-1] in ("fail", "requeue"):
                        rep.count("retry-control:chain ended by the labels (budget exhausted / retry disabled)")
        if c.get("xmw") is not None:
            count_pass(rep, c, o, exp)
        mwc = c.get("mw", {})
        if mwc.get("count", 100) != 100 or not mwc.get("label", True):
            rep.count("middleware-defaults:count=%s,label=%s" % (mwc.get("count", 100), mwc.get("label", True)))
        for s in o["sent"]:
            for j, at in enumerate(s["chain"]):
                rep.count("delivery:%s" % ("first" if j == 0 else "re-delivery"))
                rep.count("stored-result:%s" % ("yes" if at["res"] is not None else "no"))
            if len(s["chain"]) < len(s["plan"]):
                rep.count("model-branch:chain cut by int() raising on a counter label")
        lit = case_literal(c, o)
        if lit is None:
            unlit.append(c)
            continue
        lits.append(lit)
        keep.append(c)
    bad, fails, _ = C.coq_eval(ctx, label, COQ_HEADER, lits, COQ_BODY, shard=shard)
    if unlit:
        fails = fails + ["%d observations not expressible in the model's types (non-str wire value, undecodable message, "
                         "execution without Context)" % len(unlit)]
        for c in unlit[:3]:
            rep.mismatches.append(dict(name=label, index=None, case=c))
    rep.corr(label, len(lits) + len(unlit), bad, fails, lambda i: keep[i])
    rep.traces += len(lits) - len(bad)
    return bool(bad or fails)


def count_pass(rep, c, o, exp):
    """evidence distribution of the hand-on middlewares: which hooks really ran, in which way, with which label types"""
    rep.count("mw-pass:scenarios with a stack of hand-on middlewares")
    for m in c["xmw"]:
        rep.count("mw-pass:position in the stack:%s:%s" % (m["pos"], "+".join(h for h in ("pre", "send") if m[h]) ))
        if m.get("inherit"):
            rep.count("mw-pass:hooks inherited from a base class")
    replaced = any(m["pre"] not in (None, "same") for m in c["xmw"])
    for s in o["sent"]:
        for ev in s.get("passed", ()):
            rep.count("mw-pass:ran:pre_send(first send):%s:%s" % (ev[1], ev[2]))
        for j, at in enumerate(s["chain"]):
            for ev in at.get("passed", ()):
                rep.count("mw-pass:ran:%s:%s:%s" % ("pre_execute" if ev[0] == "xpre" else "pre_send(re-send)", ev[1], ev[2]))
            if replaced and at["ctx"] is not None:
                rep.count("mw-pass:delivery executed on a replaced message object:%s" % ("first" if j == 0 else "re-delivery"))
    if len(exp) == len(o["sent"]):
        for e, s in zip(exp, o["sent"]):
            if replaced and s["chain"]:
                for t in sorted({v["t"] for v in e["labels"].values()}):
                    rep.count("mw-pass:label type carried through a replaced message:" + t)


def corpus_cases():
    return [(n, c["case"] if "case" in c and "ops" not in c else c) for n, c in C.load_corpus("C09")]


def run(ctx):
    rep = C.Report(ctx, META)
    rep.add_obligations(C.proof_obligations("C09"))
    # source tie: LabelType / _LABEL_PARSERS / prepare_label / parse_label / TaskiqMessage.parse_labels re-translated from
    # the source text; srcproofs/Src_labels_C09.v re-checked
    src_obs, src_info = srctie.obligations(ctx, "labels", "C09")
    rep.add_obligations(src_obs)
    rep.extra["source_tie"] = src_info
    # source tie, send side: Context.requeue and the label loop of AsyncKicker._prepare_message; srcproofs/Src_labels_send_C09.v
    snd_obs, snd_info = srctie.obligations(ctx, "labels_send", "C09")
    rep.add_obligations(snd_obs)
    rep.extra["source_tie_send"] = snd_info
    cc = corpus_cases()
    if cc:
        explore(ctx, rep, [c for _, c in cc], "corpus")
    r = ctx.sub_rng("gen")
    BIG[:] = [False, .05] if ctx.quick else [True, .004]     # each scenario re-encodes a long int ~10 times inside Coq
    cases = [gen_case(r) for _ in range(ctx.n(420, 6000))]
    rc = ctx.sub_rng("gen-rc")       # own stream: the scenarios above stay what they were
    cases += [gen_case_rc(rc) for _ in range(ctx.n(50, 850))]
    mwr = ctx.sub_rng("gen-mw")      # own stream again
    cases += [gen_case_mw(mwr) for _ in range(ctx.n(50, 850))]
    rep.extra["plans_cut_by_normalise"] = sum(normalise(c) for c in cases)
    broken = explore(ctx, rep, cases, "main")
    BIG[:] = [not ctx.quick, .05]
    broken = explore_codec(ctx, rep, ctx.sub_rng("codec"), ctx.n(80, 800), "codec") or broken
    BIG[:] = [False, .05]
    lower_table_obligation(rep)
    if (broken or any(not o["ok"] for o in rep.obligations)) and not rep.failures:
        r2 = ctx.sub_rng("search")
        # first the neighbourhood of the scenarios on which model and implementation differ (the failing input is usually one
        # or two changes away: another type for the same label, the label set on the kicker instead of the task, one more
        # retry), then fresh scenarios, one in four with user-set retry-control labels
        near = [m["case"] for m in rep.mismatches if isinstance(m.get("case"), dict) and "ops" in m["case"]][:15]
        extra = [variant(r2, c) for c in near for _ in range(ctx.n(20, 60))]
        extra += [gen_case_rc(r2) if i % 4 == 3 else gen_case_mw(r2) if i % 8 == 5 else gen_case(r2) for i in range(ctx.n(700, 6000))]
        for c in extra:
            normalise(c)
        rep.count("search:neighbours of differing scenarios", len(near) * ctx.n(20, 60))
        explore(ctx, rep, extra, "search")
    return rep.finish(SIGNATURES)


def replay(ctx, path):
    rec = json.load(open(path))
    c = rec["case"] if "case" in rec and "ops" not in rec else rec
    o = C.run_driver(ctx, "labels_driver", [c], nproc=1)[0]
    print("case:", json.dumps(c)[:3000])
    if "_crash" in o:
        print("driver crashed:", o["_crash"])
        return 1
    fails = []
    oracle(c, o, lambda what, observed, expected, kind: fails.append((what, observed, expected)))
    print("implementation: task.labels snapshots:", json.dumps(o["snaps"])[:1500])
    for s in o["sent"]:
        print(" send op=%s id=%s broker=%s err=%s deliveries=%d plan=%s" % (
            s["op"], s.get("task_id"), s.get("broker"), s["err"], len(s["chain"]), s["plan"]))
        for j, at in enumerate(s["chain"]):
            print("   delivery %d: ctx=%s stored=%s" % (j, json.dumps(at["ctx"])[:600], at["res"] is not None))
    lit = case_literal(c, o)
    if lit is not None:
        bad, sf, _ = C.coq_eval(ctx, "replay", COQ_HEADER, [lit], COQ_BODY)
        print("model (Labels.v, evaluated in Coq):", "agrees with the implementation" if not bad and not sf else "DIFFERS " + str(sf)[:300])
    else:
        print("model: observation not expressible in the model's types (non-str wire value / undecodable / not executed)")
    for f in fails:
        print("VIOLATED:", f[0], "| observed:", json.dumps(f[1], default=str)[:600], "| expected:", json.dumps(f[2], default=str)[:600])
    print("holds" if not fails else "VIOLATED")
    return 0 if not fails else 1
