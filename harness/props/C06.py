"""C06 - concurrent executions are isolated; results are bound to their own task id."""
import json

import common as C
from props import deps_lib as L

META = dict(
    id="C06",
    design_ref="DESIGN.md section 4, C06 (and section 5, D2)",
    technique="Coq proof (invariant over a transition system with a heap of dicts, induction over arbitrary action "
              "sequences) + trace correspondence: the model must run the action sequence observed on the real concurrent "
              "executions and produce the observed values",
    level_text="C06_isolated: in the model coq/theories/Deps.v of run_task's dictionary handling (shared "
               "custom_dependency_context updated in place, per-execution copy handed to the resolver, one more copy per "
               "resolver context when its traversal starts, sub-contexts sharing the parent's initial_cache object) every "
               "action sequence the model can run - every interleaving of any number of executions with any number of "
               "resolver contexts - only produces own values: a Context read by a dependency or the task function of "
               "execution i, through any resolver context and at whatever moment, is i's; the body gets i's arguments; "
               "set_result is called with i's task id and the value i's body produced. C06_enabled shows the model never "
               "blocks a well-formed execution (so the runs include all interleavings). C06_isolated_refuted keeps the "
               "repaired defect D2 (dict handed by reference: 2 executions, 5 steps). The model is tied to /repo on every "
               "run: the real Receiver.callback processes 2..6 concurrent messages over generated dependency graphs "
               "(cached / use_cache=False / nested / sync / async / generator / context-manager nodes echoing "
               "ctx.message) on a virtual-time loop; the model has to accept the observed global action sequence and "
               "predict every observed value, and the Boolean form C06_check is evaluated on the observations.",
    level_note="Result and argument binding go through locals of run_task / callback; the model states exactly that, the "
               "evidence for it is the correspondence run. Isolation of objects other than Context reached through the "
               "broker (broker.state, user entries of custom_dependency_context) is by design shared and not claimed.",
    rule="case = dependency graph x tasks (optionally with a validated parameter whose annotation builds a mutable object "
         "from the raw value; validate_params on / off) x 1-6 concurrent messages with staggered awaits (see C12), some "
         "writing to what they were given (labels, args, kwargs, the validated argument), many carrying equal raw "
         "values, some written on the wire by hand with task ids / task names / label keys / string arguments of unusual "
         "shapes (differing only by surrounding or inner whitespace, case, Unicode form, a long common prefix; empty); "
         "some asking for their Context / message / broker in another way than the cached Context (Context with "
         "use_cache=False, TaskiqMessage / AsyncBroker from the resolver, nested providers of every style taking the "
         "Context cached or un-cached) behind an awaiting dependency; "
         "some kicked with argument objects the PRODUCER keeps (one dict / list rewritten in place between the kicks of a "
         "fan-out, one object kicked several times, used again by the producer right after the kick) and sent through the "
         "real sending side - the task's kicker or TaskiqMessage + the broker's own formatter (InMemoryBroker default / "
         "await_inplace, Proxy / JSON formatter, JSON / pickle serializer) -, the executions writing into nested "
         "containers of what they received; "
         "some holding ONE object at several positions (the same str / list / dict - tuple / dataclass instance on the "
         "sending side - twice inside an argument at depth 1-2, a label value or key that is the string argument, the "
         "task id repeated as label and argument; built from one variable, interned, or equal but separate as control), "
         "2-5 messages of one layout with different strings through one broker / formatter / serializer object (pickle, "
         "a JSONSerializer set by hand, the default; set before or after the Receiver is built); "
         "non-trivial iff >= 2 "
         "messages and some resolver sub-context (use_cache=False or nested dependency) of an execution starts its "
         "traversal after another execution wrote its Context into the broker's dict; distinct by case content",
    trusted_base=["model: coq/theories/Deps.v part 3 (hand-written from taskiq/receiver/receiver.py run_task and "
                  "taskiq_dependencies/ctx.py traverse_deps / resolver)",
                  "observation shims in harness/drivers/deps_driver.py (ContextVar execution tag, pass-through wrappers of "
                  "traverse_deps / async_ctx / BaseResolveContext.__init__)"],
    assumptions=["asyncio task-step atomicity: no other execution runs between broker_ctx.update and async_ctx(copy)",
                 "dict.copy() / copy.copy(dict) produce independent top-level dicts (CPython)"],
)

COQ_HEADER = """From Coq Require Import List Bool Arith. Import ListNotations.
From TQ Require Import Deps."""
COQ_BODY = """Definition ok (x : list (action * value)) : bool :=
  let acts := map fst x in let obs := map snd x in
  C06_accepts acts obs && C06_check acts obs.
Fixpoint bad (i : nat) (l : list (list (action * value))) : list nat :=
  match l with [] => [] | x :: t => if ok x then bad (S i) t else i :: bad (S i) t end.
Eval vm_compute in bad 0%nat cases."""


def nontrivial(case, ex, log):
    if len(ex) < 2:
        return False
    begins = sorted(d.begin_at for d in ex if d.begin_at is not None)
    for d in ex:
        if d.begin_at is None:
            continue
        for g, e in d.ev:
            if e[0] == "traverse" and d.ctxnum.get(e[2], 0) > 0 and any(d.begin_at < b < g for b in begins):
                return True
    return False


def explore(ctx, rep, cases, label):
    obs = C.run_driver(ctx, "deps_driver", cases)
    lits, keep = [], []
    for c, o in zip(cases, obs):
        if "_crash" in o:
            rep.case(c, False)
            rep.fail("driver crashed (an observation shim or the real code raised outside any execution)", c,
                     observed=o["_crash"])
            continue
        ex, errs = L.derive(c, o)
        nt = nontrivial(c, ex, o["log"])
        rep.case(c, nt)
        for e in errs:
            rep.fail("harness consistency: " + e, c, observed=e)
        rep.count("concurrent:%d" % len(ex))
        rep.count("late sub-context traversal" if nt else "no late traversal")
        rep.count("user entry registered" if c.get("user_ctx") is not None else "no user entry")
        if c.get("overrides"):
            for t in sorted({m["task"] for m in c["msgs"]}):
                rep.count("overrides: un-cached sub-graphs prepared=%s resolved=%s%s" % (
                    L.has_uncached(c, t, False), L.has_uncached(c, t, True), ", late traversal" if nt else ""))
        else:
            rep.count("overrides: none")
        for key in L.sharing_profile(c, ex):
            rep.count(key)
        for d in ex:
            for what, observed, expected, sig in L.oracle_c06(c, d, ex):
                rep.fail(what, c, observed=observed, expected=expected, sig=sig)
            rep.count("contexts per execution:%d" % min(len(d.ctxs), 6))
            rep.count("user entry reads", len(d.user_reads))
            for g, cn, echo, what in d.reads:
                rep.count("read:%s:%s" % ("task" if what == "task" else "dependency", "top" if cn == 0 else "sub"))
            rep.count("saved" if d.saves else "not saved")
        acts = L.c06_actions(c, ex, o["log"])
        for a, _ in acts:
            rep.count("action:" + a.split()[0])
        lits.append(C.clist([C.cpair(a, v) for a, v in acts]))
        keep.append(dict(case=c, actions=acts))
    bad, fails, _ = C.coq_eval(ctx, label, COQ_HEADER, lits, COQ_BODY, shard=200)
    rep.corr(label, len(lits), bad, fails, lambda i: keep[i])
    rep.traces += len(lits) - len(bad)
    return bad or fails


def fails_of(c, o):
    ex, errs = L.derive(c, o)
    return [x for d in ex for x in L.oracle_c06(c, d, ex)]


def run(ctx):
    rep = C.Report(ctx, META)
    rep.add_obligations(C.proof_obligations("C06"))
    corpus = [c for _, c in C.load_corpus("C06")]
    if corpus:
        explore(ctx, rep, corpus, "corpus")
    r = ctx.sub_rng("gen")
    cases = [L.gen_case_c06(r) for _ in range(ctx.n(1200, 40000))]
    broken = explore(ctx, rep, cases, "main")
    if not ctx.quick:
        grid = L.grid_cases()
        rep.extra["systematic_grid_cases"] = len(grid)
        broken = explore(ctx, rep, grid, "grid") or broken
    if (broken or any(not o["ok"] for o in rep.obligations)) and not rep.failures:
        r2 = ctx.sub_rng("search")
        explore(ctx, rep, [L.gen_case_c06(r2) for _ in range(ctx.n(3000, 30000))], "search")
    L.shrink_failures(ctx, rep, fails_of)
    return rep.finish()


def replay(ctx, path):
    rec = json.load(open(path))
    c = rec["case"] if "case" in rec and "nodes" not in rec else rec
    obs = C.run_driver(ctx, "deps_driver", [c], nproc=1)[0]
    print("case:", json.dumps(c))
    if "_crash" in obs:
        print("implementation: driver crashed\n" + obs["_crash"])
        return 1
    ex, errs = L.derive(c, obs)
    rc = 0
    for d in ex:
        print("execution %d: Context reads %s saves %s" % (
            d.i, [(what, "ctx%s" % cn, echo) for g, cn, echo, what in d.reads], [(tid, s) for g, tid, s in d.saves]))
        for what, observed, expected, sig in L.oracle_c06(c, d, ex):
            print("  VIOLATED: %s  observed=%s expected=%s" % (what, observed, expected))
            rc = 1
    acts = L.c06_actions(c, ex, obs["log"])
    print("observed actions / values:", "; ".join("%s -> %s" % av for av in acts))
    body = ("Eval vm_compute in (run begin_copy init (map fst cases), C06_accepts (map fst cases) (map snd cases), "
            "C06_check (map fst cases) (map snd cases)).")
    rcq, out = C.coq_eval_raw(ctx, "replay", COQ_HEADER + "\nDefinition cases := " +
                              C.clist([C.cpair(a, v) for a, v in acts]) + ".\n" + body)
    print("model (values, accepts observed, C06_check on observed):", out.strip()[-3000:])
    for e in errs:
        print("harness consistency:", e)
        rc = 1
    print("holds" if rc == 0 else "VIOLATED")
    return rc
