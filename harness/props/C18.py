"""C18 - failure budget, reload and shutdown semantics of the process manager."""
import pm_shared as P

META = dict(
    id="C18",
    design_ref="DESIGN.md section 4, C17 / C18; section 5 D8",
    technique="Coq proof (invariants + induction over the drain loop and over event histories of an executable model of "
              "ProcessManager.start()) + differential correspondence: per-tick effect trace, return value, final worker "
              "states and final queue of the real start() run against process/OS fakes must equal the model folded over "
              "the same scripted history",
    level_text="Over ProcMan.tick / ProcMan.run (see C17), for EVERY worker count, every max_fails : Z, every first pid >= 1 and "
               "every history of any length with events at all three delivery points: C18_fail_exit_iff (the run returns -1 "
               "iff max_fails >= 1 and the number of ReloadOne(is_reload_all=False) actions taken from the queue equals "
               "max_fails; while it has not returned -1, max_fails < 1 or that number is < max_fails), C18_reload_all_once "
               "(a tick that takes >= 1 ReloadAll starts every slot exactly once, at most once if it exits), "
               "C18_reload_all_budget_free (the budget counter moves exactly by the failure reloads taken, never by "
               "reload-all restarts), C18_shutdown_clean (after taking Shutdown: only Kill effects then return None; the "
               "signalled slots are duplicate-free, each holds a current worker that is not reaped, every worker still "
               "live at return was signalled), C18_pids_distinct, C18_total (no ProcessLookupError escapes, the loop fuel "
               "suffices). The defective pre-fix shutdown branch (D8) is kept in coq/findings/FindingsProcMan.v with "
               "C18_shutdown_clean_refuted; its witness is corpus/C18/d8_sigint_between_drain_and_scan.json. All closed "
               "under the global context.",
    level_note="'the number of unexpected worker exits it has handled' = the number of ReloadOne(is_reload_all=False) actions "
               "taken from the queue (counted before the per-tick de-duplication, as the code does); a failure reload "
               "was never seen de-duplicated in any generated history (evidence counter branch:failure-reload-deduplicated "
               "is absent: failure reloads are queued by the scan, i.e. before any reload-all expansion of the next drain), "
               "so the count coincides with the failure restarts performed plus the one that exits - the oracle uses the "
               "count of taken actions, the reading under which the code's own accounting is exact. 'signals every live worker ... and no process other than its own current "
               "workers': a Kill is accepted iff its pid belongs to a current worker whose fake process is live or a "
               "not-yet-reaped zombie at that moment (the reading that demands less; a reaped pid is not the manager's "
               "any more), every worker live at return must have been signalled exactly once. 'on SIGINT/SIGTERM ...' names no deadline: "
               "a signal that reached the manager's handler counts as not honoured only if the manager completed two further whole "
               "ticks and is still running (the code needs at most one). Trusted: as C17.",
    rule="as C17 (including the varied configuration: reload / observer / reload extra / from_cli); at least 30 % of the random histories reach an exit (None or -1) and at least 30 % carry mid-tick events. "
         "Thorough: exhaustive single mid-tick injections into all reduced-alphabet histories (workers 1,2: depth 3; 3: depth 2; "
         "max_fails in {-1,0,1,2,3}), sleep-event histories (depth 3,3,2), startup exits / signals inside prepare_workers under three "
         "configurations (workers 1: depth 2, 2: depth 1) and 50000 random long histories.",
    trusted_base=["model: coq/theories/ProcMan.v (hand-written transcription of taskiq/cli/worker/process_manager.py)",
                  "process / queue / os.kill / signal / sleep fakes in harness/drivers/pm_driver.py (multiprocessing.Process "
                  "life cycle new/live/zombie/reaped, POSIX kill on a reaped pid, synchronous FIFO queue with multiprocessing.Queue's "
                  "maxsize semantics, current_process/parent_process/active_children; any other multiprocessing name held by "
                  "the module is a stub that fails closed)",
                  "stand-ins for the third-party packages watchdog (event classes) and gitignore-parser (parse_gitignore), which are "
                  "not installed here, so that the real taskiq.cli.watcher.FileWatcher can be scheduled and dispatched to; a "
                  "recording stand-in for watchdog's Observer"],
    assumptions=["join() returns (the worker dies on SIGTERM)",
                 "queue.put() is visible to the next empty()/get() (no feeder-thread latency)",
                 "asynchronous events (signals, watchdog callback, worker deaths) happen at the fakes' delivery points: "
                 "inside sleep(), inside action_queue.empty(), inside is_alive() called by start(), and inside the startup "
                 "windows of prepare_workers / ReloadOneAction.handle (Process.start(), the is_alive() and the Event.wait() of "
                 "_wait_for_worker_startup)"],
)


def run(ctx):
    return P.run(ctx, "C18", META)


def replay(ctx, path):
    return P.replay(ctx, "C18", path)
