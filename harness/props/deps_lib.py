"""Shared by C06.py and C12.py: case generator for harness/drivers/deps_driver.py, derivation of per-execution
facts from the driver's event log, the two direct oracles (literal transcriptions of the property statements over
implementation observations - they never look at the Coq model) and the Coq literal printers."""
import json
import random

import common as C
from cli_args import cli_argv

YIELDING = ("gen", "agen", "cm", "acm")
ASYNC_STYLES = ("coro", "agen", "acm")
STYLES = ("plain", "coro", "gen", "agen", "cm", "acm")
COQ_STYLE = {"gen": "SGen", "agen": "SAGen", "cm": "SCm", "acm": "SACm"}
COQ_OUT = {"return": "OReturn", "raise": "ORaise", "base": "OBase", "cancelled": "OTimeout", "noresult": "ONoResult"}
COQ_ACK = {"when_received": "AReceived", "when_executed": "AExecuted", "when_saved": "ASaved"}
ERR_OF = {"raise": "ValueError", "base": "BodyBase", "cancelled": "TimeoutError", "noresult": "NoResultError"}


# the OBJECT a failing execution raises (deps_driver.EXC_KINDS): kind -> (class name, outcome of the task function it
# stands for, is it falsy).  Absent = ValueError / BodyBase / NoResultError / DepFail as ERR_OF has them.
EXC_KINDS = {
    "falsy_bool": ("FalsyBoolError", "raise", True),
    "falsy_len": ("FalsyLenError", "raise", True),
    "unhashable": ("UnhashableError", "raise", False),
    "equal": ("EqualError", "raise", False),
    "group": ("ExceptionGroup", "raise", False),
    "falsy_group": ("FalsyGroup", "raise", True),
    "falsy_depfail": ("FalsyDepFail", "raise", True),
    "plain_base": ("BodyBase", "base", False),
    "falsy_base": ("FalsyBase", "base", True),
    "base_group": ("BaseExceptionGroup", "base", False),
    "falsy_noresult": ("FalsyNoResult", "noresult", True),
}
EXC_DESCR = {
    "falsy_bool": "falsy (__bool__ False)", "falsy_len": "falsy (__len__ 0)", "unhashable": "unhashable, value-based __eq__",
    "equal": "equal to every instance of its class", "group": "ExceptionGroup", "falsy_group": "falsy ExceptionGroup subclass",
    "falsy_depfail": "falsy (__len__ 0) subclass of the dependency's failure", "plain_base": "BaseException that is no Exception",
    "falsy_base": "falsy BaseException that is no Exception", "base_group": "BaseExceptionGroup",
    "falsy_noresult": "falsy NoResultError subclass",
}
# weights: the falsy ones first (the repaired defect), the rest thinner
TASK_EXC_POOL = ("falsy_bool", "falsy_bool", "falsy_len", "falsy_len", "falsy_group", "falsy_base", "falsy_base",
                 "falsy_noresult", "unhashable", "equal", "group", "base_group", "plain_base")
DEP_EXC_POOL = ("falsy_bool", "falsy_len", "falsy_depfail", "falsy_depfail", "falsy_base", "falsy_group", "unhashable",
                "equal", "group", "base_group", "plain_base")


def case_rng(case, tag):
    """a generator of its own for an input kind added later, seeded by the case it is applied to: every case that does
    not get the new kind is exactly what it was before the kind existed"""
    import zlib
    return random.Random(zlib.crc32((tag + json.dumps(case, sort_keys=True)).encode("utf-8")))


def add_excs(case, p=.11):
    """the object a failing execution raises: about a ninth of the cases get exception objects of unusual kinds (falsy,
    unhashable, equal by value, BaseExceptions that are no Exceptions, exception groups, a falsy no-result signal) raised
    by the task function and by the scripted failing dependency; a case without a failing execution gets one (the
    statement's `if and only if` is about failing executions with open dependencies).  A fifth of them raise one and
    the same exception object in every execution that raises that kind."""
    rr = case_rng(case, "exc")
    if rr.random() >= p:
        return case
    msgs = case["msgs"]

    def free(m):
        # the task function decides how it ends: no timeout that cuts it short, no Context.requeue() (which raises itself)
        return m.get("timeout") is None and not any(mu["op"] == "requeue" for mu in m.get("muts") or [])

    failing = [m for m in msgs if m.get("fail") is not None or (m.get("outcome", "return") != "return" and free(m))]
    if not failing:
        cands = [m for m in msgs if free(m)] or msgs
        m = rr.choice(cands)
        m.pop("timeout", None)
        if m.get("dur"):
            m["dur"] = [min(x, 30000) for x in m["dur"]]
        if any(mu["op"] == "requeue" for mu in m.get("muts") or []):
            m["muts"] = [mu for mu in m["muts"] if mu["op"] != "requeue"]
        m["outcome"] = "raise"
        failing = [m]
    shared = rr.random() < .2
    hot_t, hot_d = rr.choice(TASK_EXC_POOL), rr.choice(DEP_EXC_POOL)
    some = False
    for k, m in enumerate(failing):
        if some and rr.random() < .25:
            continue                    # an ordinary exception next to the unusual ones
        some = True
        if m.get("fail") is not None:
            m["fail"]["exc"] = hot_d if rr.random() < .6 else rr.choice(DEP_EXC_POOL)
            if shared:
                m["fail"]["exc_shared"] = True
            if rr.random() < .7:
                continue                # the body is never reached: its kind would not matter
        if m.get("outcome", "return") != "return" and free(m):
            kind = hot_t if rr.random() < .6 else rr.choice(TASK_EXC_POOL)
            m["exc"] = kind
            m["outcome"] = EXC_KINDS[kind][1]
            if shared:
                m["exc_shared"] = True
    return case


def exc_profile(case, ex):
    """evidence keys: which unusual exception objects were raised, by whom, and whether open dependencies were there
    to see them"""
    keys = []
    prop = bool(case.get("propagate", True))
    for d in ex:
        f = d.msg.get("fail") or {}
        kind = f.get("exc") if d.fail else (d.msg.get("exc") if d.raised is not None else None)
        if kind is None or d.raised is None or d.raised[0] != EXC_KINDS[kind][0]:
            continue
        by = "a failing dependency" if d.fail else "the task function"
        keys.append("raised object: %s, by %s" % (EXC_DESCR[kind], by))
        shared = bool(f.get("exc_shared")) if d.fail else bool(d.msg.get("exc_shared"))
        if shared:
            keys.append("raised object: the same object in several executions")
        if d.closes:
            saw = sum(1 for x in d.closes if x[2] is not None)
            keys.append("raised object: %s, %d open dependencies, propagate=%s: %s" % (
                "falsy" if EXC_KINDS[kind][2] else "truthy but unusual", min(len(d.closes), 3), prop,
                "all saw it" if saw == len(d.closes) else "none saw it" if saw == 0 else "some saw it"))
            for x in d.closes:
                keys.append("raised object: %s -> %s teardown, propagate=%s" % (
                    "falsy" if EXC_KINDS[kind][2] else "truthy but unusual", case["nodes"][d.inst_node[x[1]]]["style"], prop))
    if not keys:
        keys.append("raised object: ordinary exceptions only")
    return keys


# --------------------------------------------------------------------------- generator
def depth_of(nodes, k, memo):
    if k not in memo:
        memo[k] = 1 + max([depth_of(nodes, c, memo) for c, _ in nodes[k]["subs"]] or [0])
    return memo[k]


def gen_graph(r, nn):
    nodes, memo = [], {}
    for k in range(nn):
        subs = []
        if k and r.random() < .65:
            for _ in range(r.choice([1, 1, 2, 2, 3])):
                c = r.randrange(k)
                if depth_of(nodes, c, memo) <= 2:
                    subs.append([c, r.random() < .62])
        nodes.append({"style": r.choice(STYLES + YIELDING), "ctx": r.random() < .75, "subs": subs,
                      "swallow": r.random() < .15, "user": r.random() < .2})
    return nodes


def gen_overrides(r, nodes, tasks):
    """broker.dependency_overrides as [original, replacement] pairs.  A replacement never reaches an overridden node
    (the graph builder would substitute for ever)."""
    roots = [d for t in tasks for d, _ in t["deps"]]
    reach = reachable(nodes, roots)
    out, keys = [], set()
    for _ in range(r.choice([1, 1, 2])):
        a = r.choice(reach)
        cands = [b for b in range(len(nodes)) if b != a and b not in keys]
        r.shuffle(cands)
        for b in cands:
            if not (set(reachable(nodes, [b])) & (keys | {a})) and all(
                    a not in reachable(nodes, [b2]) for _, b2 in out) and a not in keys:
                out.append([a, b])
                keys.add(a)
                break
    return out


def gen_override_case(r):
    """aimed at overrides that change which dependencies are un-cached: the prepared graph of the task and the graph
    the resolver builds per execution differ in having use_cache=False dependencies (all four combinations), with a
    suspension in an async dependency before the un-cached one is resolved and another message received meanwhile"""
    orig_unc, repl_unc = r.random() < .35, r.random() < .75
    st = lambda: r.choice(STYLES + YIELDING)   # noqa: E731
    nodes = [
        {"style": st(), "ctx": True, "subs": [], "swallow": False, "user": r.random() < .3},                      # reader
        {"style": r.choice(ASYNC_STYLES), "ctx": r.random() < .5, "subs": [], "swallow": False, "user": False},   # gate
        {"style": st(), "ctx": True, "subs": [[1, True], [0, not orig_unc]], "swallow": False, "user": False},   # original
        {"style": st(), "ctx": True, "subs": [[1, True], [0, not repl_unc]], "swallow": r.random() < .1,
         "user": r.random() < .3},                                                                                # replacement
    ]
    if r.random() < .3:
        nodes[3]["subs"].reverse()
    tasks = [{"deps": [[2, True]] + ([[1, True]] if r.random() < .3 else []), "ctx": r.random() < .7, "sync": False}]
    k = r.choice([2, 2, 3, 4])
    msgs = []
    for i in range(k):
        m = {"task": 0, "start": i * r.choice([1000, 3000, 5000]), "pauses": [r.choice([10000, 20000, 40000])],
             "dur": [r.choice([0, 2000])], "ackable": r.choice(["sync", "async", "none"]), "kw": r.random() < .8,
             "outcome": r.choice(["return", "return", "raise"])}
        msgs.append(m)
    return {"nodes": nodes, "tasks": tasks, "msgs": msgs, "propagate": r.random() < .5,
            "ack": r.choice(["when_received", "when_executed", "when_saved"]), "middleware": r.random() < .5,
            "via_inmemory": r.random() < .5, "overrides": [[2, 3]] if r.random() < .9 else [],
            "user_ctx": r.choice([None, 7, 7])}


def reachable(nodes, roots):
    seen, todo = set(), list(roots)
    while todo:
        k = todo.pop()
        if k not in seen:
            seen.add(k)
            todo += [c for c, _ in nodes[k]["subs"]]
    return sorted(seen)


def has_uncached(case, t, overridden):
    """does the top-level graph of task t have use_cache=False sub-graphs - as prepared (overridden=False) or as the
    resolver builds it per execution from broker.dependency_overrides (overridden=True)"""
    ov = dict(map(tuple, case.get("overrides") or [])) if overridden else {}
    seen, todo = set(), list(case["tasks"][t]["deps"])
    while todo:
        k, cached = todo.pop()
        if not cached:
            return True
        k = ov.get(k, k)
        if k not in seen:
            seen.add(k)
            todo += case["nodes"][k]["subs"]
    return False


PAUSES = [None, None, 0, 3000, 7000, 10000, 15000, 20000, 40000]


def ctx_nodes(case, t):
    """nodes reachable from task t (through the overrides too) that take the Context"""
    roots = [d for d, _ in case["tasks"][t]["deps"]] + [b for _, b in case.get("overrides") or []]
    return [k for k in reachable(case["nodes"], roots) if case["nodes"][k].get("ctx")
            and (case["nodes"][k].get("src") or {}).get("kind") != "brk"]


def gen_muts(r, case, m, n=None, focus=False):
    """scripted writes of one execution to what it was given: a label set in place by a dependency (while opening /
    in its teardown) or by the task function (at its start / after its awaits), the built-in Context.requeue(), the
    args list, the kwargs dict, ctx.message re-assigned to a private copy, and - when the message carries a value for
    a validated parameter - the execution's own mark written into the object it received for it (`val`: for good,
    `valtmp`: for the time the task function runs), by the task function through its parameter or by a dependency
    through Context.message.  Writes that would change the own call (args / kwargs before the task function is
    called) are not generated."""
    t = case["tasks"][m["task"]]
    opts = []
    w = 0
    if t.get("val") and m.get("raw") is not None:
        w = 6 if focus else 2
        opts += [("start", None, "val")] * w + [("end", None, "val")] * (w // 2) + [("start", None, "valtmp")] * w
    if t.get("ctx"):
        opts += [("start", None, "label")] * 3 + [("end", None, "label")] * 3
        opts += [("start", None, "arg"), ("end", None, "arg"), ("start", None, "kwarg"), ("end", None, "kwarg"),
                 ("start", None, "setmsg"), ("end", None, "setmsg")]
        if not t.get("sync"):
            opts += [("end", None, "requeue")] * 4
    for k in ctx_nodes(case, m["task"]):
        opts += [("node", k, "label")] * 2 + [("node", k, "setmsg")] + [("node", k, "val")] * (w // 2)
        if case["nodes"][k]["style"] in YIELDING:
            opts += [("close", k, "label")] * 2 + [("close", k, "val")] * (w // 2)
    if not opts:
        return
    muts = []
    for _ in range(n or r.choice([1, 1, 2, 3])):
        at, node, op = r.choice(opts)
        mu = {"at": at, "op": op}
        if node is not None:
            mu["node"] = node
        if mu not in muts:
            muts.append(mu)
    if any(mu["op"] == "requeue" for mu in muts):
        m["outcome"] = "noresult"       # Context.requeue() raises NoResultError
        m.pop("timeout", None)
        if m.get("dur"):
            m["dur"] = [min(x, 30000) for x in m["dur"]]
    m["muts"] = muts


def alias_tids(r, msgs):
    """two or three deliveries carry one task id (redelivery / duplicate kick); every message gets an explicit id, so
    that dropping messages while shrinking does not change who shares an id"""
    ids = list(range(len(msgs)))
    a = r.randrange(len(msgs))
    same = []
    for b in r.sample([x for x in ids if x != a], min(len(msgs) - 1, r.choice([1, 1, 2]))):
        ids[b] = a
        # a true redelivery: the very same bytes once more (same task, same content, same labels / kwargs)
        if r.random() < .4 and msgs[b].get("timeout") is None and msgs[a].get("timeout") is None:
            same.append(b)
    for k, (m, t) in enumerate(zip(msgs, ids)):
        m["tid"] = t
        m["content"] = t if k in same else k
        if k in same:
            m["task"] = msgs[a]["task"]
            for key in ("nolabels", "kw", "raw", "by"):
                if key in msgs[a]:
                    m[key] = msgs[a][key]
                else:
                    m.pop(key, None)


def gen_mutation_case(r):
    """aimed at what executions share by accident: 2-5 deliveries to one or two tasks (declared with or without
    labels), some without any labels, some with one task id, concurrent or one after another, part of them writing to
    the message they were given"""
    nn = r.choice([1, 1, 2, 2, 3, 4])
    nodes = gen_graph(r, nn)
    for n in nodes:
        n["ctx"] = n["ctx"] or r.random() < .7
    tasks = []
    for t in range(r.choice([1, 2])):
        deps = [[r.randrange(nn), r.random() < .7] for _ in range(r.choice([0, 1, 1, 2]))]
        spec = {"deps": deps, "ctx": r.random() < .9, "sync": r.random() < .15}
        if r.random() < .4:
            spec["labels"] = {"decl": 50 + t}
        tasks.append(spec)
    case = {"nodes": nodes, "tasks": tasks, "msgs": [], "propagate": r.random() < .5,
            "ack": r.choice(["when_received", "when_executed", "when_saved", "when_saved"]),
            "middleware": r.random() < .6, "via_inmemory": r.random() < .3, "user_ctx": r.choice([None, 7])}
    k = r.choice([2, 2, 3, 3, 4, 5])
    bare = r.choice(["all", "all", "mixed", "mixed", "none"])
    spacing = r.choice(["concurrent", "concurrent", "sequential", "mixed"])
    main_task = r.randrange(len(tasks))
    for i in range(k):
        t = main_task if r.random() < .7 else r.randrange(len(tasks))
        seq = spacing == "sequential" or (spacing == "mixed" and r.random() < .5)
        m = {"task": t, "start": i * 400000 if seq else r.choice([0, 0, 2000, 5000, 10000]),
             "pauses": [r.choice(PAUSES) for _ in range(r.choice([1, 2, 3]))],
             "dur": [] if tasks[t]["sync"] else [r.choice([0, 1000, 5000, 12000, 30000]) for _ in range(r.choice([0, 1, 1, 2]))],
             "ackable": r.choice(["sync", "sync", "async", "none"]), "kw": r.random() < .7,
             "outcome": r.choice(["return", "return", "return", "raise", "noresult"])}
        if bare == "all" or (bare == "mixed" and r.random() < .5):
            m["nolabels"] = True
        if r.random() < .3:
            m["save_pause"] = r.choice([0, 5000, 15000])
        case["msgs"].append(m)
        if r.random() < .6:
            gen_muts(r, case, m)
    if r.random() < .3:
        alias_tids(r, case["msgs"])
    return case


# csv / ilist / pdc: the raw value may be a str / int (hashable) while the converted one is a mutable object
# str: the string itself must arrive (leading / trailing / inner whitespace, case, empty) - nothing to write to
VAL_KINDS = ("csv", "csv", "csv", "ilist", "ilist", "pdc", "pdc", "jl", "jd", "list", "set", "dict", "dc", "str")


def raw_pool(kind, salt):
    """raw values a message may carry for a parameter of that annotation kind, JSON-able; every one contains the
    case's salt, so that nothing a process-wide cache of the implementation kept from an earlier case of the same
    driver process can be hit (a failing case then fails on its own, in a fresh process).  No negative numbers and no
    "x<i>" names: those are the executions' write marks."""
    if kind == "jl":
        return ["[%d, 1]" % salt, "[%d, 2, 3]" % salt, "[%d]" % salt, "oops%d" % salt]
    if kind == "jd":
        return ['{"a": %d}' % salt, '{"a": 1, "b": %d}' % salt, '{"s%d": 0}' % salt, "{oops%d" % salt]
    if kind == "csv":
        return ["red,s%d" % salt, "blue,green,s%d" % salt, salt * 10 + 1, salt * 10 + 2,
                {"tags": ["red", "s%d" % salt]}]
    if kind in ("list", "set"):
        return [[salt, 1], [salt, 2, 2], [salt]]
    if kind == "ilist":
        return ["%d,1" % salt, "%d,2,3" % salt, [salt, 1], "%d" % salt]
    if kind == "pdc":
        return ["%d;1" % salt, "%d;2;3" % salt, {"n": salt, "items": [1]}, "%d" % salt]
    if kind == "dict":
        return [{"a": salt}, {"b": salt, "c": 1}]
    if kind == "dc":
        return [{"n": salt, "items": [1]}, {"n": salt, "items": []}]
    if kind == "str":
        return [" s%d " % salt, "s%d\n" % salt, "s%d" % salt, "\ts%d" % salt, "S%d" % salt, "s %d" % salt,
                "s%d\u00a0" % salt, ""]
    raise ValueError(kind)


def add_vals(r, case, p_task=1.0):
    """validated parameters: tasks get a parameter whose annotation makes pydantic build a fresh mutable object out
    of the raw value, messages get raw values for it - mostly EQUAL ones (the first of the pool), on messages of one
    task and of different tasks (same or different annotation)"""
    salt = r.randrange(1, 10 ** 6)
    case["salt"] = salt
    k0 = r.choice(VAL_KINDS)
    for t in case["tasks"]:
        if r.random() < p_task:
            t["val"] = k0 if r.random() < .75 else r.choice(VAL_KINDS)
    p_hot = r.choice([.5, .7, .7, .9, 1.0])
    by0 = r.choice(["pos", "pos", "kw"])
    hot = 0 if r.random() < .55 else r.randrange(8)     # which raw form most messages of the case carry (str / int / list / dict)
    for m in case["msgs"]:
        kind = case["tasks"][m["task"]].get("val")
        if kind is None or r.random() < .08:
            continue
        pool = raw_pool(kind, salt)
        if kind in ("jl", "jd"):
            pool, junk = pool[:-1], pool[-1]
            if r.random() < .04:
                pool = [junk]       # does not validate: the parameter keeps the raw value
        x = r.random()
        m["raw"] = pool[hot % len(pool)] if x < p_hot else r.choice(pool)
        m["by"] = by0 if r.random() < .7 else r.choice(["pos", "kw"])
    if r.random() < .15:
        case["validate"] = False
    return case


def gen_value_case(r):
    """aimed at what validation of the parameters could make executions share: 2-5 deliveries to one or two tasks
    with a validated mutable parameter, mostly carrying equal raw values, concurrent or one after another, most of
    them writing their mark into the object they received (task function: through the parameter; dependencies:
    through Context.message) - every read (Context echo of every dependency when it opens and in its teardown, of the
    task function, the parameter itself at the start and after the awaits, the stored result) must show the own
    message's value with nothing but the own marks"""
    nn = r.choice([1, 1, 2, 2, 3])
    nodes = gen_graph(r, nn)
    for n in nodes:
        n["ctx"] = n["ctx"] or r.random() < .8
    tasks = []
    for t in range(r.choice([1, 1, 2])):
        deps = [[r.randrange(nn), r.random() < .6] for _ in range(r.choice([0, 1, 1, 2]))]
        tasks.append({"deps": deps, "ctx": r.random() < .85, "sync": r.random() < .12})
    case = {"nodes": nodes, "tasks": tasks, "msgs": [], "propagate": r.random() < .5,
            "ack": r.choice(["when_received", "when_executed", "when_saved", "when_saved"]),
            "middleware": r.random() < .5, "via_inmemory": r.random() < .4, "user_ctx": r.choice([None, None, 7])}
    k = r.choice([2, 2, 3, 3, 4, 5])
    spacing = r.choice(["concurrent", "concurrent", "concurrent", "sequential", "mixed"])
    main_task = r.randrange(len(tasks))
    for i in range(k):
        t = main_task if r.random() < .7 else r.randrange(len(tasks))
        seq = spacing == "sequential" or (spacing == "mixed" and r.random() < .5)
        m = {"task": t, "start": i * 400000 if seq else r.choice([0, 0, 2000, 5000, 10000]),
             "pauses": [r.choice(PAUSES) for _ in range(r.choice([1, 2, 3]))],
             "dur": [] if tasks[t]["sync"] else [r.choice([1000, 5000, 12000, 30000]) for _ in range(r.choice([1, 1, 2]))],
             "ackable": r.choice(["sync", "sync", "async", "none"]), "kw": r.random() < .7,
             "outcome": r.choice(["return", "return", "return", "raise", "noresult"])}
        if r.random() < .15:
            m["nolabels"] = True
        if r.random() < .2:
            m["save_pause"] = r.choice([0, 5000, 15000])
        case["msgs"].append(m)
    add_vals(r, case)
    for m in case["msgs"]:
        if r.random() < .7:
            gen_muts(r, case, m, focus=True)
    if r.random() < .15:
        alias_tids(r, case["msgs"])
    return case


def sprinkle(r, case):
    """the same dimensions, thinly, over the ordinary cases"""
    msgs = case["msgs"]
    x = r.random()
    if .23 <= x < .27:
        add_vals(r, case, .8)
        for m in msgs:
            if r.random() < .5:
                gen_muts(r, case, m, 1, focus=True)
    if x < .08 and len(msgs) >= 2:
        alias_tids(r, msgs)
    elif x < .14:
        for m in msgs:
            if m.get("timeout") is None and r.random() < .6:
                m["nolabels"] = True
    elif x < .20:
        for m in msgs:
            if r.random() < .5:
                gen_muts(r, case, m, 1)
    elif x < .23:
        for t in case["tasks"]:
            t["labels"] = {"decl": 50}
    elif .27 <= x < .32:
        add_wire(r, case, thin=True)
    return case


# --------------------------------------------------------------------------- strings of unusual but legal shapes
def _inner(b, ins):
    k = max(1, len(b) // 2)
    return b[:k] + ins + b[k:]


_FULLWIDTH = {ord(c): ord(c) + 0xFEE0 for c in "0123456789"}
# (class, name, function of the base string): variants a canonicalising implementation might fold onto the base
STR_VARIANTS = [
    ("ws", "trailing newline", lambda b: b + "\n"),
    ("ws", "trailing CRLF", lambda b: b + "\r\n"),
    ("ws", "leading space", lambda b: " " + b),
    ("ws", "trailing space", lambda b: b + " "),
    ("ws", "spaces on both sides", lambda b: "  " + b + "  "),
    ("ws", "leading tab", lambda b: "\t" + b),
    ("ws", "leading newline", lambda b: "\n" + b),
    ("uws", "trailing no-break space", lambda b: b + "\u00a0"),
    ("uws", "leading ideographic space", lambda b: "\u3000" + b),
    ("uws", "trailing zero-width space", lambda b: b + "\u200b"),
    ("case", "upper case", lambda b: b.upper()),
    ("case", "lower case", lambda b: b.lower()),
    ("case", "swapped case", lambda b: b.swapcase()),
    ("inner", "inner space", lambda b: _inner(b, " ")),
    ("inner", "inner double space", lambda b: _inner(b, "  ")),
    ("inner", "inner newline", lambda b: _inner(b, "\n")),
    ("inner", "dash for underscore", lambda b: b.replace("_", "-") if "_" in b else _inner(b, "-")),
    ("uni", "decomposed form", lambda b: __import__("unicodedata").normalize("NFD", b)),
    ("uni", "full-width digits", lambda b: b.translate(_FULLWIDTH)),
    ("num", "leading zeros", lambda b: "00" + b),
    ("long", "long, last character differs (a)", lambda b: b + "x" * 300 + "a"),
    ("long", "long, last character differs (b)", lambda b: b + "x" * 300 + "b"),
    ("esc", "trailing NUL", lambda b: b + "\x00"),
    ("esc", "trailing backslash", lambda b: b + "\\"),
    ("esc", "double quote inside", lambda b: _inner(b, '"')),
]
ID_BASES = ("invoice-%d", "m%d", "Job_%d", "zadanie-żółć-%d", "任务_%d", "café_%d", "%d", "a_B%d")
NAME_BASES = ("pkg.jobs:send_mail", "Reports_Build", "task_0", "météo:fetch_1")
LABEL_KEYS = ("note", "note ", " note", "Note", "no te", "note\n", "nóte", "")
LABEL_VALUES = (" padded ", "line\n", "", "x", "X", "\tx", "x\u00a0", "a  b")


def str_family(r, base, n, theme=None):
    """n distinct strings: the base (mostly) and variants of it - of one class when a theme is given"""
    pool = [v for v in STR_VARIANTS if theme is None or v[0] in theme] or list(STR_VARIANTS)
    out = [base] if r.random() < .8 else []
    guard = 0
    while len(out) < n and guard < 60:
        guard += 1
        s = r.choice(pool)[2](base) if r.random() < .9 else r.choice(STR_VARIANTS)[2](base)
        if s not in out:
            out.append(s)
    while len(out) < n:
        out.append(base + "#%d" % len(out))
    r.shuffle(out)
    return out


THEMES = (("ws",), ("ws",), ("ws", "uws"), ("uws",), ("case",), ("inner",), ("uni", "case"), ("long", "num"), ("esc", "ws"), None, None)


def wire_form(r):
    """how a hand-written message is laid out as JSON text (nothing of it changes what the message says)"""
    return {"via": "raw", "order": r.randrange(1000), "ascii": r.random() < .5, "compact": r.random() < .5,
            "lt": r.choice(["null", "null", "omit", "dict"])}


def add_wire(r, case, thin=False):
    """strings of unusual but legal shapes on the wire: task ids (distinct ones that differ only by surrounding / inner
    whitespace, case, Unicode form, a very long common prefix, JSON escapes; the empty id), task names (two registered
    tasks whose names differ that way), string labels (keys and values), a string argument - most messages written
    by hand (json.dumps of a plain dict, as a producer that is not this Python client would)"""
    msgs, tasks = case["msgs"], case["tasks"]
    salt = case.get("salt") or r.randrange(1, 10 ** 6)
    x = r.random()
    p_raw = r.choice([1.0, 1.0, .8, .5]) if not thin else r.choice([1.0, .5, 0.0])
    for m in msgs:
        if r.random() < p_raw:
            m["wire"] = wire_form(r)
    if thin and x < .35:
        return case                 # ordinary ids, hand-written bytes only
    if not thin or x < .75:
        ids = str_family(r, r.choice(ID_BASES) % salt, len(msgs), r.choice(THEMES))
        if r.random() < .12:
            ids[r.randrange(len(ids))] = ""
        if len(ids) >= 3 and r.random() < .1:
            ids[0] = ids[1]         # and one id on two deliveries
        for m, s in zip(msgs, ids):
            m.pop("tid", None)
            m.pop("content", None)
            m["tids"] = s
    if r.random() < (.45 if not thin else .3):
        names = str_family(r, r.choice(NAME_BASES), len(tasks), r.choice(THEMES[:8]))
        for t, s in zip(tasks, names):
            t["name"] = s
    if r.random() < (.4 if not thin else .25):
        shared = r.random() < .5
        keys = r.sample(LABEL_KEYS, r.choice([1, 2, 2, 3]))
        for m in msgs:
            if m.get("nolabels") and r.random() < .7:
                continue
            ks = keys if shared else r.sample(LABEL_KEYS, r.choice([1, 2]))
            m["slabels"] = {k: r.choice(LABEL_VALUES) for k in ks}
    if has_odd_strings(case):
        # a message with such strings is always written by hand: what it carries is then exactly what the plan says,
        # whatever the sending side of taskiq would have made of it
        for m in msgs:
            if "wire" not in m:
                m["wire"] = wire_form(r)
    return case


def has_odd_strings(case):
    return any(k in m for m in case["msgs"] for k in ("tids", "slabels")) or any("name" in t for t in case["tasks"])


def has_wire_strings(case):
    return (any(k in m for m in case["msgs"] for k in ("tids", "slabels", "wire"))
            or any("name" in t for t in case["tasks"]))


def gen_wire_case(r):
    """aimed at what an implementation could fold together while it parses a message: 2-5 deliveries (hand-written
    bytes) to one or two tasks, concurrent or one after another, whose task ids / task names / label keys differ only
    by characters a canonicalising parser would drop or fold; every read of every node and of the task function
    must show exactly the strings the own message carried, and set_result must be called with exactly that id"""
    nn = r.choice([1, 1, 2, 2, 3])
    nodes = gen_graph(r, nn)
    for n in nodes:
        n["ctx"] = n["ctx"] or r.random() < .8
    tasks = []
    for t in range(r.choice([1, 1, 2])):
        deps = [[r.randrange(nn), r.random() < .6] for _ in range(r.choice([0, 1, 1, 2]))]
        tasks.append({"deps": deps, "ctx": r.random() < .9, "sync": r.random() < .12})
    case = {"nodes": nodes, "tasks": tasks, "msgs": [], "propagate": r.random() < .5,
            "ack": r.choice(["when_received", "when_executed", "when_saved", "when_saved"]),
            "middleware": r.random() < .5, "via_inmemory": r.random() < .3, "user_ctx": r.choice([None, None, 7])}
    k = r.choice([2, 2, 3, 3, 4, 5])
    spacing = r.choice(["concurrent", "concurrent", "sequential", "mixed"])
    for i in range(k):
        t = r.randrange(len(tasks))
        seq = spacing == "sequential" or (spacing == "mixed" and r.random() < .5)
        m = {"task": t, "start": i * 400000 if seq else r.choice([0, 0, 2000, 5000, 10000]),
             "pauses": [r.choice(PAUSES) for _ in range(r.choice([1, 2, 3]))],
             "dur": [] if tasks[t]["sync"] else [r.choice([0, 1000, 5000, 12000, 30000]) for _ in range(r.choice([0, 1, 1, 2]))],
             "ackable": r.choice(["sync", "sync", "async", "none"]), "kw": r.random() < .7,
             "outcome": r.choice(["return", "return", "return", "raise", "noresult"])}
        if r.random() < .15:
            m["nolabels"] = True
        if r.random() < .25:
            m["save_pause"] = r.choice([0, 5000, 15000])
        case["msgs"].append(m)
    if r.random() < .3:
        # a string argument too (validated against `str`: it must arrive as it is)
        case["salt"] = r.randrange(1, 10 ** 6)
        pool = raw_pool("str", case["salt"])
        by0 = r.choice(["pos", "kw"])
        for t in tasks:
            t["val"] = "str"
        for m in case["msgs"]:
            m["raw"], m["by"] = r.choice(pool), by0
        if r.random() < .2:
            case["validate"] = False
    add_wire(r, case)
    for m in case["msgs"]:
        if r.random() < .25:
            gen_muts(r, case, m, 1)
    return case


def _strip_all(s):
    return "".join(c for c in s if not c.isspace() and c not in "-_\u200b")


def str_relation(a, b):
    """how two DISTINCT strings are related, for the evidence (None: not in one of the tracked ways)"""
    import unicodedata
    if a == b:
        return None
    zw = "\u200b"
    if a.strip() == b.strip():
        return "surrounding whitespace"
    if a.strip().strip(zw) == b.strip().strip(zw):
        return "surrounding whitespace"
    if a.casefold() == b.casefold():
        return "case"
    if unicodedata.normalize("NFKC", a) == unicodedata.normalize("NFKC", b):
        return "Unicode form"
    if _strip_all(a) == _strip_all(b):
        return "inner whitespace / separator"
    if a.rstrip("\x00\\") == b.rstrip("\x00\\") or a.replace('"', "") == b.replace('"', ""):
        return "a character JSON escapes"
    if a.lstrip("0") == b.lstrip("0"):
        return "leading zeros"
    n = 0
    for x, y in zip(a, b):
        if x != y:
            break
        n += 1
    if n >= 64:
        return "a long common prefix"
    return None


def str_shape(s):
    """shape classes of one string, for the evidence"""
    out = []
    if s == "":
        return ["empty"]
    if s != s.strip():
        out.append("surrounding whitespace" + (" (newline)" if s.strip(" \t\u00a0\u3000") != s.strip() else "")
                   + (" (non-ASCII)" if s.strip(" \t\r\n") != s.strip() else ""))
    if any(c.isspace() for c in s.strip()):
        out.append("inner whitespace")
    if "\u200b" in s:
        out.append("zero-width space")
    if len(s) > 200:
        out.append("very long")
    if any(ord(c) > 127 for c in s.strip().replace("\u200b", "")):
        out.append("non-ASCII")
    if any(c in s for c in '\x00\\"'):
        out.append("JSON-escaped character")
    return out or ["ordinary"]


def wire_profile(case, ex):
    """evidence keys: how the messages were written on the wire and which unusual strings they carried"""
    keys = []
    for d in ex:
        w = d.msg.get("wire") or {}
        if w.get("via") == "raw":
            keys.append("wire: written by hand (JSON of a plain dict)%s" % ("" if w.get("ascii", True) else ", UTF-8 text"))
        else:
            keys.append("wire: TaskiqMessage through the broker's formatter")
        if "tids" in d.msg:
            keys += ["wire task id: " + k for k in str_shape(d.msg["tids"])]
        for k, v in (d.msg.get("slabels") or {}).items():
            keys += ["string label key: " + x for x in str_shape(k)]
            keys += ["string label value: " + x for x in str_shape(v)]
        if d.val is not None and d.val["kind"] == "str" and isinstance(d.val["raw"], str):
            keys += ["string argument: " + x for x in str_shape(d.val["raw"])]
    for t in case["tasks"]:
        if "name" in t:
            keys += ["task name: " + k for k in str_shape(t["name"])]
    seen = set()
    for a in range(len(case["tasks"])):
        for b in range(a + 1, len(case["tasks"])):
            rel = str_relation(task_name(case, a), task_name(case, b))
            if rel and any(d.msg["task"] == a for d in ex) and any(d.msg["task"] == b for d in ex):
                seen.add("two registered task names differing only by %s, both executed" % rel)
    for a in ex:
        for b in ex:
            if a.i >= b.i:
                continue
            rel = str_relation(a.sent["tid"], b.sent["tid"])
            if rel:
                over = (None not in (a.cb_start_at, b.cb_start_at, a.cb_done_at, b.cb_done_at)
                        and a.cb_start_at < b.cb_done_at and b.cb_start_at < a.cb_done_at)
                seen.add("task ids differing only by %s: %s" % (rel, "overlapping" if over else "one after another"))
            for ka in a.msg.get("slabels") or {}:
                for kb in b.msg.get("slabels") or {}:
                    rel = str_relation(ka, kb)
                    if rel:
                        seen.add("label keys of two messages differing only by %s" % rel)
        ks = list(a.msg.get("slabels") or {})
        for x in range(len(ks)):
            for y in range(x + 1, len(ks)):
                rel = str_relation(ks[x], ks[y])
                if rel:
                    seen.add("label keys of one message differing only by %s" % rel)
    return keys + sorted(seen)


LIVES = ([], [], ["startup"], ["startup"], ["startup", "shutdown", "startup"], ["startup", "shutdown", "startup"],
         ["startup", "shutdown", "startup"], ["shutdown", "startup"], ["startup", "startup"],
         ["startup", "shutdown", "startup", "shutdown", "startup"])


LISTEN_FAULT_NAMES = ("connection", "connection", "runtime", "timeout", "os", "eof", "custom")


def api_kwargs(r, validate, prop, ack):
    """keyword arguments for run_receiver_task (its own parameter names); switches that have their default value are
    passed or left out"""
    kw = {}
    if not validate or r.random() < .5:
        kw["validate_params"] = validate
    if not prop or r.random() < .5:
        kw["propagate_exceptions"] = prop
    if ack != "when_saved" or r.random() < .5:
        kw["ack_time"] = ack
    if r.random() < .5:
        kw["max_async_tasks"] = r.choice([1, 2, 10, 0])
    if r.random() < .3:
        kw["max_prefetch"] = r.choice([0, 1, 3])
    if r.random() < .3:
        kw["sync_workers"] = r.choice([1, 2])
    if r.random() < .2:
        kw["run_startup"] = r.random() < .5
    return kw


def add_path(r, case):
    """how the Receiver that executes the deliveries comes to exist (see deps_driver): for about a fifth of the cases
    not built by the driver itself but by the worker command line, by taskiq.api.run_receiver_task, or by an
    InMemoryBroker - fresh, started, or started again after a shutdown - to which the deliveries are sent through its
    real kick() / the real kicker; for another twentieth the run_receiver_task coroutine itself runs for the whole case
    over a scripted listen() that fails 0..2 times (a dropped connection), so that the deliveries are executed by the
    first / second / third Receiver it builds.  The case's propagate / validate / ack stay what was asked for."""
    x = r.random()
    if x >= .26:
        return case
    prop, validate, ack = bool(case.get("propagate", True)), bool(case.get("validate", True)), case.get("ack", "when_saved")
    if x < .05:
        o = {"no_parse": not validate, "no_propagate": not prop}
        if ack != "when_saved" or r.random() < .5:
            o["ack_type"] = ack if r.random() < .7 else ack.upper()
        if r.random() < .5:
            o["A"] = r.choice([1, 2, 10, None, 0])
        if r.random() < .3:
            o["P"] = r.choice([0, 1, 3])
        if r.random() < .2:
            o["N"] = r.choice([1, 5])
        if r.random() < .2:
            o["wtt"] = r.choice([0.5, 2.0])
        case["path"] = {"kind": "cli", "argv": cli_argv(o)}
    elif x < .09:
        case["path"] = {"kind": "api", "kwargs": api_kwargs(r, validate, prop, ack)}
    elif x >= .21:
        # run_receiver_task running for real, its listen() failing 0..2 times.  Drawn from a generator of its own (seeded
        # by x), so that the rest of the stream is what it was before this kind of input existed.
        rr = random.Random(int(x * 2 ** 53))
        drops = [[rr.choice([0, 0, 1, 1, 2, 3]), rr.choice(LISTEN_FAULT_NAMES)] for _ in range(rr.choice([0, 1, 1, 1, 2, 2]))]
        case["path"] = {"kind": "api", "kwargs": api_kwargs(rr, validate, prop, ack), "run": {"drops": drops}}
    else:
        path = {"kind": "inmemory", "life": list(r.choice(LIVES)), "send": r.choice(["kick", "kicker"])}
        if has_wire_strings(case):
            # the strings are to reach the receiver exactly as the plan has them: the bytes the driver wrote go
            # through the broker's kick(), not through the Python kicker (which builds its own message)
            path["send"] = "kick"
        if r.random() < .4:
            path["max_async_tasks"] = r.choice([1, 2, 100])
        if r.random() < .25:
            path["await_inplace"] = True
        if r.random() < .3:
            path["sync_tasks_pool_size"] = r.choice([1, 2, 8])
        case["path"] = path
        # the broker hands bare bytes to its receiver (nothing to acknowledge; the receiver's default ack type)
        case["ack"] = "when_saved"
        for m in case["msgs"]:
            m["ackable"] = "none"
        if "shutdown" in path["life"]:
            # shutdown() closes the broker's thread pool for good: sync task functions cannot run afterwards
            for t in case["tasks"]:
                t["sync"] = False
    return case


def path_profile(case):
    """evidence keys: how the Receiver that executed the case came to exist"""
    path = case.get("path")
    if not path:
        return ["receiver: built directly" if not (case.get("via_inmemory") and case.get("ack", "when_saved") == "when_saved")
                else "receiver: the InMemoryBroker's own, callback called directly"]
    ask = "propagate=%s" % bool(case.get("propagate", True))
    if path["kind"] == "api" and path.get("run") is not None:
        return ["receiver: built by run_receiver_task running for real, listen() fails %d times, %s" % (
            len(path["run"].get("drops") or []), ask)]
    if path["kind"] == "listen":
        # deps11: a worker that stops while executions are in flight (the stop itself is profiled by C12.stop_profile)
        return ["receiver: listening for real (Receiver.listen) and told to stop, configured %s, %s" % (
            "through the worker command line" if path.get("argv") is not None else "directly", ask)]
    if path["kind"] in ("cli", "api"):
        return ["receiver: configured through the %s, %s" % (
            "worker command line" if path["kind"] == "cli" else "programmatic API (run_receiver_task)", ask)]
    life = path.get("life") or []
    phase = ("fresh" if not life else "started" if "shutdown" not in life else
             "started again after shutdown" + (" (twice)" if life.count("shutdown") > 1 else
                                               " (never started before)" if life[0] == "shutdown" else ""))
    keys = ["receiver: InMemoryBroker %s, %s" % (phase, ask),
            "sent through InMemoryBroker: %s%s" % ("the task's kicker" if path.get("send") == "kicker" else "kick()",
                                                   ", await_inplace" if path.get("await_inplace") else "")]
    return keys


def live_profile(case, obs, ex):
    """evidence keys of a case run under the real run_receiver_task: which of the receivers it built executed the
    deliveries, and whether the situation the propagate switch is about arose on a replacement receiver"""
    live = obs.get("live")
    if not live:
        return []
    keys = ["run_receiver_task live: listen() actually failed %d times" % len(live["faults"])]
    keys += ["run_receiver_task live: listen() failed with %s" % name for _, name in live["faults"]]
    for d in ex:
        no = live["executed_by_receiver"][d.i]
        if no is None:
            continue
        which = "the first receiver" if no == 0 else "a replacement receiver (#%d)" % (no + 1)
        keys.append("run_receiver_task live: delivery executed by %s" % which)
        if no > 0 and d.error_found and d.closes:
            keys.append("run_receiver_task live: failed execution with open dependencies on a replacement receiver, propagate=%s"
                        % bool(case.get("propagate", True)))
        if no == 0 and live["faults"] and d.cb_done_at is not None and d.closes:
            keys.append("run_receiver_task live: execution with open dependencies on the first receiver, which was replaced")
    return keys


def gen_case(r):
    return add_excs(gen_case0(r))


# --------------------------------------------------------------------------- ways to come by the Context / message / broker
PROV_STYLES = ("plain", "plain", "coro", "coro", "gen", "agen")


def gen_src(r, nprov, hot=None):
    """how one node / task function comes by its Context (deps_driver.src_param)"""
    x = r.random()
    if hot is not None and x < .5:
        return dict(hot)
    x = r.random()
    if x < .45:
        return {"kind": "ctx", "cached": False}
    if x < .57:
        return {"kind": "msg", "cached": r.random() < .5}
    if x < .65:
        return {"kind": "brk", "cached": r.random() < .5}
    if nprov:
        return {"kind": "prov", "prov": r.randrange(nprov), "cached": r.random() < .5}
    return {"kind": "ctx", "cached": False}


def gen_provs(r, n):
    return [{"style": r.choice(PROV_STYLES), "get": r.choice(["ctx", "ctx", "msg", "msg", "brk"]), "pc": r.random() < .5}
            for _ in range(n)]


def is_exotic(src):
    return bool(src) and not (src["kind"] == "ctx" and src.get("cached", True))


def task_sources(case, t):
    """every way the task function of task t and the nodes it can reach (through the overrides too: which of original /
    replacement is resolved is the implementation's business) ask for a Context / message / broker, other than the cached
    Context: (where, src)"""
    spec = case["tasks"][t]
    out = []
    if spec.get("ctx") and is_exotic(spec.get("src")):
        out.append(("task", spec["src"]))
    roots = [d for d, _ in spec["deps"]]
    ov = case.get("overrides") or []
    reach = set(reachable(case["nodes"], roots))
    for _ in range(len(ov) + 1):
        reach |= set(reachable(case["nodes"], [b for a, b in ov if a in reach]))
    for k in sorted(reach):
        n = case["nodes"][k]
        if n.get("ctx") and is_exotic(n.get("src")):
            out.append(("node %d" % k, n["src"]))
    return out


def asks_sources(case, t):
    return bool(task_sources(case, t))


def src_descr(case, src):
    how = "cached" if src.get("cached", True) else "use_cache=False"
    names = {"ctx": "Context", "msg": "TaskiqMessage", "brk": "AsyncBroker"}
    if src["kind"] == "prov":
        p = case["provs"][src["prov"]]
        return "%s handed on by a provider (%s) that takes the Context %s" % (
            names[p["get"]], how, "cached" if p.get("pc", True) else "use_cache=False")
    return "%s requested from the resolver, %s" % (names[src["kind"]], how)


def strip_setmsg(case):
    """`setmsg` re-assigns the message of ONE Context object; with several ways to come by a Context an execution may
    hold several of them, and "its own message plus its own writes" would depend on which one is asked"""
    for m in case["msgs"]:
        if m.get("muts"):
            m["muts"] = [mu for mu in m["muts"] if mu["op"] != "setmsg"]
            if not m["muts"]:
                del m["muts"]


def gen_source_case(r):
    """aimed at the ways a task function / a dependency comes by its Context, its message and its broker: the cached
    Context (control), Context with use_cache=False, TaskiqMessage / AsyncBroker requested from the resolver, nested
    providers (plain / coroutine / generator / async generator, taking the Context cached or un-cached, shared by several
    consumers) handing on the Context / the message / the broker - requested by the task function and by nested nodes
    of every style, with an awaiting dependency (the gate) resolved before them, so that 2-4 executions overlap inside
    dependency resolution: whatever an execution gets to see that way must be its own message."""
    provs = gen_provs(r, r.choice([0, 1, 1, 2]))
    hot = gen_src(r, len(provs))
    st = lambda: r.choice(STYLES + YIELDING)   # noqa: E731
    some = lambda p: gen_src(r, len(provs), hot) if r.random() < p else None   # noqa: E731
    nodes = [
        {"style": r.choice(ASYNC_STYLES), "ctx": r.random() < .6, "subs": [], "swallow": False, "user": False},          # gate
        {"style": st(), "ctx": True, "subs": [[0, True]] if r.random() < .5 else [], "swallow": False,
         "user": r.random() < .2},                                                                                      # reader
        {"style": st(), "ctx": r.random() < .8, "subs": [[0, True], [1, r.random() < .5]], "swallow": r.random() < .1,
         "user": False},                                                                                                # parent
    ]
    if r.random() < .3:
        nodes[2]["subs"].reverse()
    for k, p in ((1, .7), (2, .35), (0, .1)):
        src = some(p)
        if src and nodes[k]["ctx"]:
            nodes[k]["src"] = src
    tasks = []
    for t in range(r.choice([1, 1, 2])):
        deps = [[0, True]] if r.random() < .8 else []
        deps += [[r.choice([1, 2, 2]), r.random() < .6] for _ in range(r.choice([0, 1, 1, 2]))]
        if r.random() < .2:
            deps.reverse()
        spec = {"deps": deps, "ctx": r.random() < .9, "sync": r.random() < .15}
        src = some(.6 if t == 0 else .3)
        if src and spec["ctx"]:
            spec["src"] = src
        tasks.append(spec)
    if not any(asks_sources({"nodes": nodes, "tasks": tasks}, t) for t in range(len(tasks))):
        tasks[0].update(ctx=True, src={"kind": "ctx", "cached": False})
        if not tasks[0]["deps"]:
            tasks[0]["deps"] = [[0, True]]
    k = r.choice([2, 2, 3, 3, 4])
    spacing = r.choice(["overlap", "overlap", "overlap", "overlap", "mixed", "sequential"])
    step = r.choice([1000, 3000, 5000])
    msgs = []
    for i in range(k):
        t = 0 if r.random() < .7 else r.randrange(len(tasks))
        seq = spacing == "sequential" or (spacing == "mixed" and r.random() < .4)
        m = {"task": t, "start": i * 400000 if seq else i * step, "pauses": [r.choice([10000, 20000, 40000])] + [
            r.choice(PAUSES) for _ in range(r.choice([0, 0, 1]))],
             "dur": [] if tasks[t]["sync"] else [r.choice([0, 2000, 12000])], "ackable": r.choice(["sync", "async", "none"]),
             "kw": r.random() < .8, "outcome": r.choice(["return", "return", "return", "raise", "noresult"])}
        if r.random() < .1:
            m["nolabels"] = True
        if r.random() < .08:
            reach = reachable(nodes, [d for d, _ in tasks[t]["deps"]])
            if reach:
                m["fail"] = {"node": r.choice(reach), "when": "early"}
        if r.random() < .2:
            m["save_pause"] = r.choice([0, 5000, 15000])
        msgs.append(m)
    case = {"nodes": nodes, "tasks": tasks, "msgs": msgs, "provs": provs, "propagate": r.random() < .5,
            "ack": r.choice(["when_received", "when_executed", "when_saved", "when_saved"]), "middleware": r.random() < .5,
            "via_inmemory": r.random() < .3, "user_ctx": r.choice([None, None, 7])}
    if r.random() < .15:
        # an override whose replacement asks in another way than the original
        nodes.append({"style": st(), "ctx": True, "subs": [[0, True]], "swallow": False, "user": False,
                      "src": gen_src(r, len(provs), hot)})
        case["overrides"] = [[1, 3]]
    if r.random() < .25:
        for m in msgs:
            if r.random() < .5:
                gen_muts(r, case, m, 1)
        strip_setmsg(case)
    return case


def add_sources(case):
    """the same dimension, thinly, over cases of every other kind: one or two of the nodes / task functions that take the
    Context ask for it (or for the message / the broker) in another way.  Drawn from a generator of its own."""
    rr = case_rng(case, "src")
    slots = [("t", t) for t, spec in enumerate(case["tasks"]) if spec.get("ctx")]
    slots += [("n", k) for k in sorted({k for t in range(len(case["tasks"])) for k in ctx_nodes(case, t)})]
    if not slots:
        return case
    case["provs"] = gen_provs(rr, rr.choice([0, 1, 1]))
    for kind, k in rr.sample(slots, min(len(slots), rr.choice([1, 1, 2]))):
        (case["tasks"] if kind == "t" else case["nodes"])[k]["src"] = gen_src(rr, len(case["provs"]))
    strip_setmsg(case)
    return case


def gen_case_c06(r):
    """the stream of C06: that of gen_case, with 7 % of it aimed at the ways to come by the Context / message / broker,
    6 % at argument objects the producer keeps, 5 % at messages that hold one object at several positions (iso10) and
    4 % / 4 % / 3 % of the rest carrying those dimensions thinly.  (C12 keeps gen_case: its statement is about executions that reach
    their task function or fail in a scripted dependency.)"""
    x = r.random()
    if x < .07:
        return add_excs(add_path(r, gen_source_case(r)))
    if x < .13:
        return add_excs(gen_producer_case(r))
    if x < .18:
        return add_excs(gen_refs_case(r))
    case = gen_case(r)
    if x < .22:
        case = add_sources(case)
    return add_refs(add_producer(case))


# --------------------------------------------------------------------------- one object at several positions of a message (iso10)
# shape -> annotation kinds (deps_driver.ANNS) of the parameter that takes it
REFS_SHAPES = {
    "str2": ("dany", "any"),            # {"owner": u, "editor": u}: one string twice, depth 1
    "lstr2": ("lany", "any"),           # [path, path]
    "str3deep": ("dany", "any"),        # the same string three times at depth 2 (inside a nested dict and a nested list)
    "list2": ("dany", "any"),           # one LIST twice at depth 1 (and the string in it)
    "dict2": ("lany", "any"),           # one DICT twice at depth 1
    "deep2": ("dany", "any"),           # one list twice at depth 2
    "tiny": ("dany", "lany", "any"),    # one-character / empty strings: one object whoever builds them
    "keyval": ("dany", "any"),          # a key of the dict that is also a value of it
    "box2": ("lany", "any"),            # one {"n": .., "items": [..]} twice (a dataclass instance on the sending side with `wrap`)
    "tags2": ("csv",),                  # Tags(tags=[u, u])
    "top": ("str",),                    # depth 0: the string argument is also a label's value / the task id
}
REFS_SHAPE_POOL = ("str2", "str2", "str2", "lstr2", "lstr2", "str3deep", "str3deep", "list2", "dict2", "deep2", "tiny", "keyval",
                   "box2", "tags2", "top", "top")


def refs_value(shape, kind, salt, v):
    """variant v of the value a message of that shape carries for its validated parameter (JSON-able, contains the case's
    salt, no negative numbers and no "x<i>" names - those are the executions' write marks).  Messages of one shape with
    different v are laid out alike and differ in every string."""
    u = "user%d@s%d" % (v, salt)
    p = "s3://bucket-%d/s%d/report.csv" % (v, salt)
    c = "abcdefgh"[v % 8]
    if shape == "str2":
        return {"owner": u, "editor": u, "n": 10 + v}
    if shape == "lstr2":
        return [p, p, 10 + v]
    if shape == "str3deep":
        return {"acl": {"owner": u, "editor": u}, "log": [u, 10 + v]}
    if shape == "list2":
        return {"src": [p, 10 + v], "dst": [p, 10 + v]}
    if shape == "dict2":
        return [{"k": p, "n": 10 + v}, {"k": p, "n": 10 + v}, 1]
    if shape == "deep2":
        return {"a": {"rows": [p, 1]}, "b": {"rows": [p, 1]}, "n": 10 + v}
    if shape == "tiny":
        return [c, c, "", "", salt] if kind == "lany" else {"a": c, "b": c, "e": "", "f": "", "s": salt}
    if shape == "keyval":
        return {u: 10 + v, "last": u}
    if shape == "box2":
        return [{"n": salt, "items": [10 + v]}, {"n": salt, "items": [10 + v]}, u, u]
    if shape == "tags2":
        return {"tags": [u, u, "s%d" % salt]}
    if shape == "top":
        return u
    raise ValueError(shape)


def _first_str(v):
    """the first string value (longer than one character) inside a raw value, depth first; None when there is none"""
    if isinstance(v, str):
        return v if len(v) > 1 else None
    for x in (list(v.values()) if isinstance(v, dict) else v if isinstance(v, list) else []):
        got = _first_str(x)
        if got is not None:
            return got
    return None


def give_refs(r, case, thin=False):
    """the messages of a case get a value for the validated parameter of their task in which equal parts occur at several
    positions, and `refs`: whether those parts are ONE object when the message is handed to the sending side (`same`: built
    from one variable; `intern`: equal strings built separately and interned; `equal`: objects of their own - the control
    group).  `fanout`: every message its own variant (same layout, every string different), `same`: all carry one value,
    `mixed`.  Depth 0: some messages also carry a label whose value is the string inside the argument, a label KEY that is
    that string, the task id as a label value (`tids` + `slabels`)."""
    salt = case.get("salt") or r.randrange(1, 10 ** 6)
    case["salt"] = salt
    shapes = []
    for t in case["tasks"]:
        shape = shapes[0] if shapes and r.random() < .5 else r.choice(REFS_SHAPE_POOL)
        shapes.append(shape)
        t["val"] = r.choice(REFS_SHAPES[shape])
    mode = r.choice(["fanout", "fanout", "fanout", "fanout", "same", "mixed"])
    how0 = r.choice(["same", "same", "same", "same", "intern", "intern", "equal"])
    wrap0 = r.choice([None, None, None, "tuple", "box"])
    by0 = r.choice(["pos", "pos", "kw"])
    top = r.choice(["none", "none", "label", "label", "key", "tid", "tid"])
    for i, m in enumerate(case["msgs"]):
        shape, kind = shapes[m["task"]], case["tasks"][m["task"]]["val"]
        v = i if mode == "fanout" else 0 if mode == "same" else r.choice([0, i, i])
        m["raw"] = refs_value(shape, kind, salt, v)
        m["by"] = by0 if r.random() < .8 else r.choice(["pos", "kw"])
        refs = {"how": how0 if r.random() < .85 else r.choice(["same", "intern", "equal"])}
        if wrap0 and r.random() < .8:
            refs["wrap"] = wrap0
        m["refs"] = refs
        s = _first_str(m["raw"])
        if s is None or top == "none" or (thin and top == "tid"):
            continue
        if top == "label":
            m["slabels"] = {"origin": s}
        elif top == "key":
            m["slabels"] = {s: "owner", "origin": s} if r.random() < .5 else {s: "owner"}
        else:
            m["tids"] = "job-%d-s%d" % (i, salt)
            m["slabels"] = {"parent": m["tids"]}
            if shape == "top" and r.random() < .6:
                m["raw"] = m["tids"]        # ... and the argument itself is the task id
            elif r.random() < .4:
                m["slabels"]["origin"] = s
    return case


def gen_refs_case(r):
    """aimed at what the (de)serialization of a message could make executions share when a message holds ONE object at
    several positions - kiq(path, path), {"owner": uid, "editor": uid} built from one variable, a label that repeats the
    task id: 2-5 messages of the same layout whose strings all differ, sent one after the other or in a burst through ONE
    broker / formatter / serializer object (pickle, a JSONSerializer set by hand, the broker's default; before or after
    the Receiver is built) by the real sending side - the task's kicker, or TaskiqMessage + the broker's formatter - and
    decoded by one worker; part of the executions writing their marks into what they received.  What an execution holds -
    parameter, Context.message of every dependency and of the task function, the labels of the stored result - must be
    what ITS message carried at every position."""
    nn = r.choice([1, 2, 2, 3, 3])
    nodes = gen_graph(r, nn)
    for n in nodes:
        n["ctx"] = n["ctx"] or r.random() < .8
    tasks = []
    for t in range(r.choice([1, 1, 1, 2])):
        # (mostly use_cache=False edges: the resolver sub-contexts of overlapping executions stay part of the picture)
        deps = [[r.randrange(nn), r.random() < .35] for _ in range(r.choice([1, 1, 2]))]
        tasks.append({"deps": deps, "ctx": r.random() < .9, "sync": r.random() < .1})
    case = {"nodes": nodes, "tasks": tasks, "msgs": [], "propagate": r.random() < .5,
            "ack": r.choice(["when_received", "when_executed", "when_saved", "when_saved"]),
            "middleware": r.random() < .5, "via_inmemory": r.random() < .4, "user_ctx": r.choice([None, None, 7])}
    k = r.choice([2, 2, 3, 3, 4, 5])
    spacing = r.choice(["burst", "burst", "staggered", "staggered", "staggered", "sequential"])
    main_task = r.randrange(len(tasks))
    for i in range(k):
        t = main_task if r.random() < .8 else r.randrange(len(tasks))
        start = 0 if spacing == "burst" else i * 400000 if spacing == "sequential" else r.choice([0, 0, 2000, 5000, 10000])
        m = {"task": t, "start": start, "pauses": [r.choice(PAUSES) for _ in range(r.choice([1, 2, 3]))],
             "dur": [] if tasks[t]["sync"] else [r.choice([0, 1000, 5000, 12000, 30000]) for _ in range(r.choice([1, 1, 2]))],
             "ackable": r.choice(["sync", "sync", "async", "none"]), "kw": r.random() < .7,
             "outcome": r.choice(["return", "return", "return", "raise", "noresult"])}
        if r.random() < .1:
            m["nolabels"] = True
        if r.random() < .2:
            m["save_pause"] = r.choice([0, 5000, 15000])
        case["msgs"].append(m)
    give_refs(r, case)
    if r.random() < .25:
        case["validate"] = False
    x = r.random()
    if x < .55:
        path = {"kind": "inmemory", "life": list(r.choice(LIVES)), "send": "kicker" if x < .35 else "kick"}
        if r.random() < .3:
            path["max_async_tasks"] = r.choice([1, 2, 100])
        if r.random() < .25:
            path["await_inplace"] = True
        case["path"] = path
        case["ack"] = "when_saved"
        for m in case["msgs"]:
            m["ackable"] = "none"
        if "shutdown" in path["life"]:
            for t in tasks:
                t["sync"] = False
            for m in case["msgs"]:
                if not m.get("dur"):
                    m["dur"] = [r.choice([1000, 5000])]
    else:
        add_path(r, case)
    x = r.random()
    if x < .25:
        case["fmt"] = "proxy" if x < .15 else "json"
    x = r.random()
    if x < .75:
        case["ser"] = "pickle" if x < .6 else "json"
        if r.random() < .3:
            case["ser_late"] = True
    for m in case["msgs"]:
        if r.random() < .45:
            gen_muts(r, case, m, focus=True)
    return case


def add_refs(case, p=.03):
    """the same dimension, thinly, over cases of every other kind that have no validated parameter and no hand-written
    bytes: the tasks get a parameter, the messages values with repeated parts (and `refs`).  Drawn from a generator of its own."""
    rr = case_rng(case, "refs")
    if rr.random() >= p:
        return case
    if any(t.get("val") for t in case["tasks"]) or has_wire_strings(case) \
            or any(k in m for m in case["msgs"] for k in ("content", "raw", "tid")):
        return case
    give_refs(rr, case, thin=True)
    x = rr.random()
    if x < .7:
        case["ser"] = "pickle" if x < .55 else "json"
    return case


def refs_profile(case, ex):
    """evidence keys: messages that hold one object at several positions - what the driver really built (its own count of
    objects referenced twice or more), through which serializer / sending side they went, and whether the worker had
    already decoded a message of the same layout with other strings (the configuration in which a decoder that keeps state
    between messages shows)"""
    held = [d for d in ex if d.msg.get("refs") is not None]
    if not held:
        return ["repeated references: none asked for"]
    ser = {"pickle": "PickleSerializer", "json": "JSONSerializer set by hand"}.get(case.get("ser"), "the broker's default serializer")
    if case.get("ser") and case.get("ser_late"):
        ser += " (set after the Receiver was built)"
    fmt = {"proxy": "ProxyFormatter set by hand", "json": "JSONFormatter (no serializer)"}.get(case.get("fmt"), "default formatter")
    path = case.get("path") or {}
    how = ("the task's kicker" if path.get("kind") == "inmemory" and path.get("send") == "kicker" else
           "TaskiqMessage + formatter, kick()" if path.get("kind") == "inmemory" else
           "TaskiqMessage + formatter, handed to the receiver (%s)" % (path.get("kind") or "direct"))
    keys = []
    for d in held:
        refs = d.msg["refs"]
        keys.append("repeated references: message sent through %s; %s, %s" % (how, ser, fmt))
        keys.append("repeated references: equal parts are %s%s" % (
            {"same": "ONE object (built from one variable)", "intern": "interned strings (built separately)",
             "equal": "objects of their own (control)"}[refs.get("how", "same")],
            ", nested %s on the sending side" % {"tuple": "lists are tuples", "box": "n/items dicts are dataclass instances"}[refs["wrap"]]
            if refs.get("wrap") else ""))
        got = d.aliased or {}
        if not got:
            keys.append("repeated references: message built with no object at two positions")
        for kind, n in sorted(got.items()):
            keys.append("repeated references: message built with a %s at two or more positions" % kind)
        v = d.val
        if v is not None:
            keys.append("repeated references: argument of a parameter annotated %s, validate_params=%s" % (
                v["kind"], bool(case.get("validate", True))))
        sl = d.msg.get("slabels") or {}
        s = _first_str(d.msg.get("raw")) if d.msg.get("raw") is not None else None
        if "tids" in d.msg and d.msg["tids"] in sl.values():
            keys.append("repeated references: depth 0, the task id is also a label value%s" % (
                " and the argument" if d.msg.get("raw") == d.msg["tids"] else ""))
        if s is not None and s in sl.values():
            keys.append("repeated references: depth 0, a label value is also (in) the argument")
        if s is not None and s in sl:
            keys.append("repeated references: depth 0, a label key is also (in) the argument")
    seen = set()
    for a in held:
        for b in held:
            if a.i == b.i or a.cb_start_at is None or b.cb_start_at is None or a.cb_start_at > b.cb_start_at:
                continue
            if a.cb_start_at == b.cb_start_at and a.i > b.i:
                continue
            if a.msg["task"] != b.msg["task"] or not (b.aliased or {}):
                continue
            differ = C.canon(a.msg["raw"]) != C.canon(b.msg["raw"])
            over = (None not in (a.cb_done_at, b.cb_done_at) and a.cb_start_at < b.cb_done_at and b.cb_start_at < a.cb_done_at)
            seen.add("repeated references: a message with shared objects decoded after another of the same layout with %s, %s" % (
                "different strings" if differ else "the same value", "executions overlapping" if over else "one after the other"))
    return keys + sorted(seen)


# --------------------------------------------------------------------------- the producer's side: argument objects it keeps
# annotation kinds (deps_driver.ANNS) whose raw value is a mutable object the producer can keep and rewrite; the
# containers of anything first: validation leaves what is nested in them alone
PROD_KINDS = ("dany", "dany", "dany", "any", "any", "lany", "lany", "dict", "list", "dc", "csv", "set")


def prod_value(kind, salt, v):
    """variant v of the value a producer-held object of that annotation kind carries (JSON-able, contains the case's
    salt, no negative numbers and no "x<i>" names - those are the executions' write marks)"""
    if kind in ("dany", "any"):
        return {"src": "s%d" % salt, "chunk": 10 + v, "rows": [salt, 20 + v], "opt": {"k": 30 + v, "path": ["p%d" % v]}}
    if kind == "lany":
        return [salt, [40 + v, 1], {"k": 50 + v}]
    if kind == "dict":
        return {"a": salt, "c": 10 + v}
    if kind in ("list", "set"):
        return [salt, 10 + v]
    if kind in ("dc", "pdc"):
        return {"n": salt, "items": [10 + v]}
    if kind == "csv":
        return {"tags": ["red", "s%d" % salt, "c%d" % v]}
    raise ValueError(kind)


def give_objects(r, case, mode=None, p_after=.4):
    """the messages of a case whose tasks have a parameter of one of PROD_KINDS are kicked with objects the PRODUCER keeps
    (deps_driver.produce): one object per shape for (nearly) all of them, rewritten in place between the kicks -
    `fanout`: every message carries its own variant, `same`: all carry one value (nothing is rewritten between the kicks),
    `mixed` -, and for some of them used again by the producer after the kick (`after`: at once or `delay` later)"""
    salt = case.get("salt") or r.randrange(1, 10 ** 6)
    case["salt"] = salt
    mode = mode or r.choice(["fanout", "fanout", "fanout", "same", "same", "mixed"])
    by0 = r.choice(["pos", "pos", "kw"])
    spare = r.random() < .15        # a second object of each shape: some messages do not share theirs
    for i, m in enumerate(case["msgs"]):
        kind = case["tasks"][m["task"]].get("val")
        if kind not in PROD_KINDS:
            continue
        v = i if mode == "fanout" else 0 if mode == "same" else r.choice([0, 0, i])
        m["raw"] = prod_value(kind, salt, v)
        m["by"] = by0 if r.random() < .8 else r.choice(["pos", "kw"])
        po = {"obj": (0 if isinstance(m["raw"], dict) else 1) + (2 if spare and r.random() < .4 else 0)}
        if r.random() < p_after:
            po["after"] = r.choice(["scribble", "scribble", "clear"])
            if r.random() < .5:
                po["delay"] = r.choice([500, 3000, 8000, 20000])
        m["pobj"] = po
    return case


def gen_producer_case(r):
    """aimed at what the SENDING side and the decode boundary could make executions share: 2-5 messages whose argument
    is an object the producer keeps - a fan-out loop that rewrites one dict / list between the kicks, one configuration
    object kicked several times, the object used again right after the kick - sent through the real sending side
    (InMemoryBroker: the task's kicker or kick(), default and await_inplace; otherwise TaskiqMessage + the broker's own
    formatter handed to whatever receiver the path builds; default / Proxy / JSON formatter, JSON / pickle serializer),
    most executions writing their marks into what they were given (nested containers too) and suspending while their
    siblings run.  What an execution holds - parameter, Context.message of every dependency and of the task function, at
    every moment - must be what ITS message carried when it was kicked, plus its own writes."""
    nn = r.choice([1, 1, 2, 2, 3])
    nodes = gen_graph(r, nn)
    for n in nodes:
        n["ctx"] = n["ctx"] or r.random() < .8
    k0 = r.choice(PROD_KINDS)
    tasks = []
    for t in range(r.choice([1, 1, 1, 2])):
        deps = [[r.randrange(nn), r.random() < .6] for _ in range(r.choice([0, 1, 1, 2]))]
        tasks.append({"deps": deps, "ctx": r.random() < .9, "sync": r.random() < .1,
                      "val": k0 if r.random() < .75 else r.choice(PROD_KINDS)})
    case = {"nodes": nodes, "tasks": tasks, "msgs": [], "propagate": r.random() < .5,
            "ack": r.choice(["when_received", "when_executed", "when_saved", "when_saved"]),
            "middleware": r.random() < .5, "via_inmemory": r.random() < .4, "user_ctx": r.choice([None, None, 7])}
    k = r.choice([2, 2, 3, 3, 4, 5])
    spacing = r.choice(["burst", "burst", "burst", "staggered", "staggered", "sequential"])
    main_task = r.randrange(len(tasks))
    for i in range(k):
        t = main_task if r.random() < .8 else r.randrange(len(tasks))
        start = 0 if spacing == "burst" else i * 400000 if spacing == "sequential" else r.choice([0, 0, 2000, 5000, 10000])
        m = {"task": t, "start": start, "pauses": [r.choice(PAUSES) for _ in range(r.choice([1, 2, 3]))],
             "dur": [] if tasks[t]["sync"] else [r.choice([0, 1000, 5000, 12000, 30000]) for _ in range(r.choice([1, 1, 2]))],
             "ackable": r.choice(["sync", "sync", "async", "none"]), "kw": r.random() < .7,
             "outcome": r.choice(["return", "return", "return", "raise", "noresult"])}
        if r.random() < .1:
            m["nolabels"] = True
        if r.random() < .2:
            m["save_pause"] = r.choice([0, 5000, 15000])
        case["msgs"].append(m)
    give_objects(r, case)
    if r.random() < .25:
        case["validate"] = False
    x = r.random()
    if x < .65:
        path = {"kind": "inmemory", "life": list(r.choice(LIVES)), "send": "kicker" if x < .45 else "kick"}
        if r.random() < .3:
            path["max_async_tasks"] = r.choice([1, 2, 100])
        if r.random() < .25:
            path["await_inplace"] = True
        case["path"] = path
        case["ack"] = "when_saved"
        for m in case["msgs"]:
            m["ackable"] = "none"
        if "shutdown" in path["life"]:
            for t in tasks:
                t["sync"] = False
            for m in case["msgs"]:
                if not m.get("dur"):
                    m["dur"] = [r.choice([1000, 5000])]
    else:
        add_path(r, case)
    x = r.random()
    if x < .4:
        case["fmt"] = "proxy" if x < .2 else "json"
    if r.random() < .15:
        case["ser"] = "pickle"
    if r.random() < .3:
        case["prod"] = {"reuse": True}
    for m in case["msgs"]:
        if r.random() < .65:
            gen_muts(r, case, m, focus=True)
    return case


def add_producer(case, p=.04):
    """the same dimension, thinly, over cases of every other kind that have no validated parameter yet: the tasks get one
    of PROD_KINDS, the messages are kicked with an object the producer keeps.  Drawn from a generator of its own."""
    rr = case_rng(case, "prod")
    if rr.random() >= p:
        return case
    if any(t.get("val") for t in case["tasks"]) or any("content" in m or "raw" in m for m in case["msgs"]):
        return case
    k0 = rr.choice(PROD_KINDS)
    for t in case["tasks"]:
        t["val"] = k0 if rr.random() < .8 else rr.choice(PROD_KINDS)
    give_objects(rr, case, p_after=.3)
    x = rr.random()
    if x < .3:
        case["fmt"] = "proxy" if x < .15 else "json"
    if rr.random() < .1 and not any("wire" in m for m in case["msgs"]):
        case["ser"] = "pickle"
    for m in case["msgs"]:
        if not m.get("muts") and rr.random() < .4:
            # (on a copy: a requeue would change what the execution does, `setmsg` does not go with several Contexts)
            probe = json.loads(json.dumps(m))
            gen_muts(rr, case, probe, 1, focus=True)
            muts = [mu for mu in probe.get("muts") or [] if mu["op"] not in ("requeue", "setmsg")]
            if muts:
                m["muts"] = muts
    return case


def producer_profile(case, ex):
    """evidence keys: messages kicked with objects the producer keeps - how they were sent, whether two executions in
    flight at the same time were kicked with the same object (rewritten in between or not), whether the producer used
    the object again before the execution read its arguments, whether executions wrote into what they received"""
    held = [d for d in ex if d.msg.get("pobj") is not None]
    if not held:
        return ["producer: every message built from fresh values"]
    path = case.get("path") or {}
    if path.get("kind") == "inmemory":
        how = "InMemoryBroker%s, %s" % (", await_inplace" if path.get("await_inplace") else "",
                                        "the task's kicker" if path.get("send") == "kicker" else "TaskiqMessage + formatter, kick()")
    else:
        how = "TaskiqMessage + formatter, handed to the receiver (%s)" % (path.get("kind") or "direct")
    fmt = {"proxy": "ProxyFormatter set by hand", "json": "JSONFormatter"}.get(case.get("fmt"), "the broker's default formatter")
    keys = []
    for d in held:
        w = d.msg.get("wire") or {}
        keys.append("producer: message kicked with an object the producer keeps: %s, %s%s" % (
            how, "written by hand (no formatter)" if w.get("via") == "raw" else fmt,
            ", pickle serializer" if case.get("ser") == "pickle" and w.get("via") != "raw" else ""))
        keys.append("producer: kept object is the argument of a parameter annotated %s, validate_params=%s" % (
            d.val["kind"] if d.val else "?", bool(case.get("validate", True))))
        after = d.msg["pobj"].get("after")
        if after:
            first = min([g for g, _, _, _ in d.reads] + [g for g, _, _ in d.preads] or [None])
            keys.append("producer: object used again by the producer after the kick (%s%s): %s" % (
                after, ", later" if d.msg["pobj"].get("delay") else ", at once",
                "never" if d.prod_after_at is None else "before the execution's first read" if first is None
                or d.prod_after_at < first else "while the execution ran" if d.cb_done_at is None or d.prod_after_at < d.cb_done_at
                else "after the execution ended"))
    if (case.get("prod") or {}).get("reuse"):
        keys.append("producer: one labels dict / args list / kwargs dict reused for every kick")
    seen = set()
    for a in held:
        for b in held:
            if a.i >= b.i or a.msg["pobj"]["obj"] != b.msg["pobj"]["obj"]:
                continue
            over = (None not in (a.cb_start_at, b.cb_start_at, a.cb_done_at, b.cb_done_at)
                    and a.cb_start_at < b.cb_done_at and b.cb_start_at < a.cb_done_at)
            # was the later one kicked (= the object rewritten) before the earlier one had ended?
            first, second = (a, b) if (a.kicked_at or 0) <= (b.kicked_at or 0) else (b, a)
            flight = (second.kicked_at is not None and first.cb_done_at is not None and second.kicked_at < first.cb_done_at)
            same = C.canon(a.msg["raw"]) == C.canon(b.msg["raw"])
            seen.add("producer: two messages kicked with one object, %s: %s" % (
                "the same value" if same else "rewritten between the kicks",
                "executions overlapping" if over else "second kicked while the first was in flight" if flight
                else "one after the other"))
            for x, y in ((a, b), (b, a)):
                if any(op in ("val", "valtmp") and any(g > gm for g, _, _, _ in y.reads) for gm, op, at in x.muts) and over:
                    seen.add("producer: execution wrote into the argument it received while a sibling kicked with the same object was in flight")
    return keys + sorted(seen)


def source_profile(case, ex):
    """evidence keys: how Context / message / broker were asked for, what became of the executions that did, and whether
    the request was served after another message had entered run_task (overlap inside dependency resolution)"""
    keys = []
    begins = sorted(d.begin_at for d in ex if d.begin_at is not None)
    for d in ex:
        srcs = task_sources(case, d.msg["task"])
        if not srcs:
            continue
        for where, src in srcs:
            keys.append("source: %s, by %s" % (src_descr(case, src), "the task function" if where == "task" else "a nested dependency"))
            if src["kind"] == "prov":
                keys.append("source: provider style %s" % case["provs"][src["prov"]]["style"])
        if d.body is not None:
            end = "task function reached"
        elif d.fail:
            end = "scripted dependency failure"
        else:
            errs = sorted({s.get("err") or "?" for _, _, s in d.saves}) or ["nothing stored"]
            end = "ended in dependency resolution with its own error (%s)" % ", ".join(errs)
        # the moment the request was served / refused: the first read of the task function, else the end of the resolution
        at = d.body[0] if d.body is not None else min([g for g, _, _ in d.saves] + [g for g, _ in d.on_error] + (
            [d.cb_done_at] if d.cb_done_at is not None else []) or [None])
        late = d.begin_at is not None and at is not None and any(d.begin_at < b < at for b in begins)
        keys.append("source: execution asking that way: %s, %s" % (
            end, "another message entered run_task while its dependencies were resolved" if late else "no overlap inside resolution"))
    if not keys:
        keys.append("source: cached Context only")
    return keys


def gen_case0(r):
    x = r.random()
    if x < .12:
        return add_path(r, gen_override_case(r))
    if x < .22:
        return add_path(r, gen_mutation_case(r))
    if x < .30:
        return add_path(r, gen_value_case(r))
    if x < .355:
        return add_path(r, gen_wire_case(r))
    return add_path(r, sprinkle(r, gen_plain_case(r)))


def gen_plain_case(r):
    nn = r.choice([1, 2, 3, 3, 4, 4, 5, 6, 7])
    nodes = gen_graph(r, nn)
    tasks = []
    for _ in range(r.choice([1, 1, 2])):
        deps = [[r.randrange(nn), r.random() < .62] for _ in range(r.choice([1, 2, 2, 3]))]
        # prefer the deeper nodes as entry points
        if r.random() < .6:
            deps[0][0] = nn - 1
        tasks.append({"deps": deps, "ctx": r.random() < .8, "sync": r.random() < .2})
    k = r.choice([1, 2, 2, 3, 3, 4, 5, 6])
    msgs = []
    for i in range(k):
        t = r.randrange(len(tasks))
        sync = tasks[t]["sync"]
        m = {"task": t, "start": r.choice([0, 0, 0, 2000, 5000, 10000, 10000, 25000]),
             "pauses": [r.choice(PAUSES) for _ in range(r.choice([1, 2, 3, 4]))],
             "dur": [] if sync else [r.choice([0, 1000, 5000, 12000, 30000]) for _ in range(r.choice([0, 1, 1, 2]))],
             "ackable": r.choice(["sync", "sync", "async", "none"]), "kw": r.random() < .8}
        x = r.random()
        if x < .45:
            m["outcome"] = "return"
        elif x < .65:
            m["outcome"] = "raise"
        elif x < .72:
            m["outcome"] = "base"
        elif x < .80:
            m["outcome"] = "noresult"
        elif x < .92 and not sync:
            m["outcome"] = "return"
            m["timeout"] = r.choice([5000, 20000])
            m["dur"] = [r.choice([50000, 100000])]
        else:
            m["outcome"] = "return"
        if r.random() < .17:
            reach = reachable(nodes, [d for d, _ in tasks[t]["deps"]])
            node = r.choice(reach)
            m["fail"] = {"node": node, "when": "late" if nodes[node]["style"] in ASYNC_STYLES and r.random() < .5 else "early"}
        if r.random() < .06:
            m["save_fail"] = True
        if r.random() < .3:
            m["save_pause"] = r.choice([0, 5000, 15000])
        msgs.append(m)
    case = {"nodes": nodes, "tasks": tasks, "msgs": msgs, "propagate": r.random() < .5,
            "ack": r.choice(["when_received", "when_executed", "when_saved", "when_saved"]),
            "middleware": r.random() < .8, "via_inmemory": r.random() < .3,
            "user_ctx": r.choice([None, 7, 7])}
    if nn >= 2 and r.random() < .25:
        case["overrides"] = gen_overrides(r, nodes, tasks)
    return case


# --------------------------------------------------------------------------- derivation
class Derived:
    pass


def sent_tid(case, i):
    """the task id delivery i carries on the wire (verbatim when the plan names one)"""
    m = case["msgs"][i]
    return m["tids"] if "tids" in m else "m%d" % m.get("tid", i)


def task_name(case, t):
    """the name task t is registered under and the messages for it carry"""
    return case["tasks"][t].get("name", "task_%d" % t)


def content(case, i):
    """what delivery i carries as first argument / `who` label / `kw` kwarg: its own index, unless the message is a
    redelivery of another one (same task id, same content, same bytes)"""
    return case["msgs"][i].get("content", i)


def sent_state(case, i):
    """the message delivery i carried, as the driver sent it (deps_driver._run_case)"""
    m = case["msgs"][i]
    c = content(case, i)
    labels = {} if m.get("nolabels") else {"who": c}
    if m.get("timeout") is not None and not m.get("nolabels"):
        labels["timeout"] = m["timeout"] / 1_000_000
    labels.update(m.get("slabels") or {})
    args, kwargs = [c], ({"kw": c} if m.get("kw", True) else {})
    v = val_info(case, i)
    if v is not None:
        if v["by"] == "pos":
            args.append(json.loads(json.dumps(v["raw"])))
        else:
            kwargs["pv"] = json.loads(json.dumps(v["raw"]))
    return {"tid": sent_tid(case, i), "name": task_name(case, m["task"]), "args": args, "kwargs": kwargs,
            "labels": labels}


def _ints(x):
    return isinstance(x, list) and all(type(v) is int for v in x)


def converted(kind, raw):
    """the documented conversion of a raw value by the annotation kind (deps_driver.ANNS), in the canonical form of
    deps_driver.jsonable; the raw value itself where the annotation does not accept it (parse_params then leaves the
    argument as it came)"""
    if kind in ("jl", "jd"):
        if not isinstance(raw, str):
            return raw
        try:
            v = json.loads(raw)
        except ValueError:
            return raw
        if kind == "jl":
            return v if _ints(v) else raw
        return v if isinstance(v, dict) and all(type(x) is int for x in v.values()) else raw
    if kind == "csv":
        if isinstance(raw, str):
            return {"__tags__": [p for p in raw.split(",") if p], "note": None}
        if type(raw) is int:
            return {"__tags__": [str(raw)], "note": None}
        if isinstance(raw, dict) and isinstance(raw.get("tags"), list) and set(raw) <= {"tags", "note"}:
            return {"__tags__": list(raw["tags"]), "note": raw.get("note")}
        return raw
    if kind == "list":
        return list(raw) if _ints(raw) else raw
    if kind == "set":
        return {"__set__": sorted(set(raw))} if _ints(raw) else raw
    if kind == "dict":
        return dict(raw) if isinstance(raw, dict) and all(type(x) is int for x in raw.values()) else raw
    if kind == "ilist":
        if isinstance(raw, str) and all(p.isdigit() for p in raw.split(",") if p):
            return [int(p) for p in raw.split(",") if p]
        return list(raw) if _ints(raw) else raw
    if kind == "pdc" and isinstance(raw, str):
        parts = [p for p in raw.split(";") if p]
        if parts and all(p.isdigit() for p in parts):
            return {"__box__": int(parts[0]), "items": [int(p) for p in parts[1:]]}
        return raw
    if kind in ("dc", "pdc"):
        if isinstance(raw, dict) and type(raw.get("n")) is int and _ints(raw.get("items")) and set(raw) == {"n", "items"}:
            return {"__box__": raw["n"], "items": list(raw["items"])}
        return raw
    return raw


def val_info(case, i):
    """the validated argument delivery i carries: annotation kind, raw value as sent, where it was put, and the forms
    an execution may hold it in (raw, or converted as documented); None when the message carries none"""
    m = case["msgs"][i]
    kind = case["tasks"][m["task"]].get("val")
    if kind is None or m.get("raw") is None:
        return None
    raw = m["raw"]
    return {"kind": kind, "raw": raw, "by": m.get("by", "pos"), "conv": converted(kind, raw),
            "validate": bool(case.get("validate", True))}


def strip_own(v, i):
    """a canonical value without the write marks of execution i (deps_driver.mark_val)"""
    mk, key = -(i + 1), "x%d" % i
    own = lambda x: type(x) is int and x == mk     # noqa: E731
    if isinstance(v, list):
        # (marks are left in plain lists / dicts nested in the object too)
        return [strip_own(x, i) if isinstance(x, (list, dict)) else x for x in v if not own(x)]
    if isinstance(v, dict):
        if isinstance(v.get("__set__"), list):
            return {"__set__": [x for x in v["__set__"] if not own(x)]}
        if isinstance(v.get("__tags__"), list):
            return {"__tags__": [x for x in v["__tags__"] if x != key], "note": None if v.get("note") == key else v.get("note")}
        if "__box__" in v and isinstance(v.get("items"), list):
            return {"__box__": v["__box__"], "items": [x for x in v["items"] if not own(x)]}
        return {k: strip_own(x, i) if isinstance(x, (list, dict)) else x for k, x in v.items()
                if not (k == key and type(x) is int and x == i)}
    return v


def val_own(obs, val, i):
    """what execution i holds for its validated argument is its own message's value - as sent or converted as
    documented - with nothing added but its own marks"""
    got = strip_own(obs, i)
    return any(type(got) is type(w) and got == w for w in (val["raw"], val["conv"]))


def settle_val(obs, exp, val, i):
    """the observed message state with the validated argument replaced by what `exp` holds in that place, provided
    what was observed there is the own message's value (val_own); otherwise obs as it is (and the comparison fails)"""
    if val is None or not isinstance(obs, dict):
        return obs
    o = dict(obs)
    if val["by"] == "pos":
        a = o.get("args")
        if isinstance(a, list) and len(a) > 1 and len(exp["args"]) > 1 and val_own(a[1], val, i):
            o["args"] = [a[0], exp["args"][1]] + a[2:]
    else:
        k = o.get("kwargs")
        if isinstance(k, dict) and "pv" in k and "pv" in exp["kwargs"] and val_own(k["pv"], val, i):
            o["kwargs"] = dict(k, pv=exp["kwargs"]["pv"])
    return o


def carrier(case, c, reader):
    """the delivery that carried content c: the reader itself when it did, else the first one that did"""
    if not isinstance(c, int) or isinstance(c, bool):
        return None
    if 0 <= reader < len(case["msgs"]) and content(case, reader) == c:
        return reader
    return next((k for k in range(len(case["msgs"])) if content(case, k) == c), None)


def declared_labels(case, i):
    return case["tasks"][case["msgs"][i]["task"]].get("labels") or {}


REQUEUE = "X-Taskiq-requeue"


def apply_mut(i, view, op):
    """the effect of one scripted write of execution i (deps_driver.apply_muts / Context.requeue) on the message it
    holds"""
    if op == "label":
        view["labels"]["w%d" % i] = i
    elif op == "arg":
        view["args"].append(100 + i)
    elif op == "kwarg":
        view["kwargs"]["x%d" % i] = i
    elif op == "requeue":
        view["labels"][REQUEUE] = str(int(view["labels"].get(REQUEUE, 0)) + 1)


def labels_own(obs, exp, declared):
    """obs is what execution i may see as its labels: the labels its message carried plus its own writes (exp).
    Labels the own *task* was declared with are tolerated in addition (they are no other message's)."""
    if not isinstance(obs, dict):
        return False
    for k, v in exp.items():
        if k not in obs or obs[k] != v or type(obs[k]) is not type(v):
            return False
    return all(k in exp or (k in declared and declared[k] == v) for k, v in obs.items())


def state_own(obs, exp, declared, val=None, i=None):
    obs = settle_val(obs, exp, val, i)
    return (isinstance(obs, dict) and obs.get("tid") == exp["tid"] and obs.get("args") == exp["args"]
            and obs.get("name", exp["name"]) == exp["name"]
            and obs.get("kwargs") == exp["kwargs"] and labels_own(obs.get("labels"), exp["labels"], declared))


def _mark(prefix, key):
    return int(key[len(prefix):]) if isinstance(key, str) and key.startswith(prefix) and key[len(prefix):].isdigit() else None


def echo_owner(case, echo, reader):
    """the single delivery an echoed message belongs to (for the heap model, which holds whose Context a cell has),
    or None when its parts disagree or it carries the write marks of another execution"""
    if not isinstance(echo, dict):
        return None
    a = echo.get("args") or [None]
    j = carrier(case, a[0], reader)
    if j is None:
        return None
    s = sent_state(case, j)
    lab, kws = echo.get("labels") or {}, echo.get("kwargs") or {}
    if echo.get("tid") != s["tid"] or lab.get("who") != s["labels"].get("who") or kws.get("kw") != s["kwargs"].get("kw"):
        return None
    if echo.get("name", s["name"]) != s["name"]:
        return None
    val = val_info(case, j)
    rest = a[1:]
    if val is not None:
        # the validated argument must be j's too (its value, no other execution's mark in it)
        slot = (a[1] if len(a) > 1 else None) if val["by"] == "pos" else kws.get("pv")
        if not val_own(slot, val, j):
            return None
        if val["by"] == "pos":
            rest = a[2:]
    marks = [_mark("w", k) for k in lab] + [_mark("x", k) for k in kws] + [
        v - 100 for v in rest if isinstance(v, int) and not isinstance(v, bool)]
    return j if all(m is None or m == j for m in marks) else None


def derive(case, obs):
    """per-execution facts from the global event log.  Returns (list of Derived, global facts, harness_errors)."""
    log = obs["log"]
    n = len(case["msgs"])
    errs = []
    ex = []
    for i in range(n):
        d = Derived()
        d.i = i
        d.ev = []            # (global index, event)
        d.ctxs = []          # resolver context numbers (global cid) in creation order; [0] is the top-level one
        d.items = {}         # cid -> list of ("own", inst) / ("sub", cid)
        d.inst = {}          # token -> instance number (order of opening)
        d.inst_node = []     # instance -> node
        d.inst_cid = []      # instance -> cid it was appended to
        d.foreign_closes = []  # (global idx, node, execution that ran the teardown) - teardowns run by another execution
        ex.append(d)
    tok_owner = {}
    for g, e in enumerate(log):
        who = e[1] if len(e) > 1 else None
        if e[0] == "end_of_run":
            continue
        if e[0] in ("close", "closed") and e[3] in tok_owner:
            # a teardown belongs to the execution the dependency was opened for, whoever runs it (executions are
            # told apart by delivery, never by task id); a teardown run by another execution is recorded as such
            if tok_owner[e[3]] != who:
                ex[tok_owner[e[3]]].foreign_closes.append((g, e[2], who))
            who = tok_owner[e[3]]
        if not isinstance(who, int) or not 0 <= who < n:
            errs.append("event outside any execution: %r" % (e,))
            continue
        if e[0] == "enter":
            tok_owner[e[3]] = who
        d = ex[who]
        d.ev.append((g, e))
        if e[0] == "ctx":
            d.ctxs.append(e[2])
            d.items[e[2]] = []
        elif e[0] == "own":
            if e[2] not in d.items:
                errs.append("append to a context of another execution: %r" % (e,))
                continue
            d.inst[e[3]] = len(d.inst_node)
            d.items[e[2]].append(("own", len(d.inst_node)))
            d.inst_node.append(e[4])
            d.inst_cid.append(e[2])
        elif e[0] == "sub":
            if e[2] not in d.items:
                errs.append("append to a context of another execution: %r" % (e,))
                continue
            d.items[e[2]].append(("sub", e[3]))
    # cross-check the item lists against the final opened_dependencies / sub_contexts lists read after the run
    final = {}

    def walk(t, path):
        final[t["cid"]] = (t, path)
        for k, s in enumerate(t["subs"]):
            walk(s, path + [k])

    for t in obs["trees"]:
        walk(t, [])
    for d in ex:
        d.path = {}
        for cid in d.ctxs:
            if cid not in final:
                errs.append("context %d not in the final trees" % cid)
                continue
            t, path = final[cid]
            d.path[cid] = path
            own_ev = [x[1] for x in d.items[cid] if x[0] == "own"]
            sub_ev = [x[1] for x in d.items[cid] if x[0] == "sub"]
            if [d.inst.get(tok) for tok in t["own"]] != own_ev or [s["cid"] for s in t["subs"]] != sub_ev:
                errs.append("logged appends differ from the final lists of context %d" % cid)
    for d in ex:
        finish(case, d, log)
        if d.msg.get("pobj") is not None:
            # the producer rewrote its object to the plan's value just before the message was serialized: what the
            # message carried is what the plan says (sent_state), whoever else holds the producer's object
            want = {k: d.sent[k] for k in ("args", "kwargs", "labels")}
            if d.kicked is None or C.canon(d.kicked) != C.canon(want):
                errs.append("delivery %d was not kicked with what its plan says: %r" % (d.i, d.kicked))
    return ex, errs


def tree_items(d, cid):
    out = []
    for kind, v in d.items.get(cid, []):
        if kind == "own":
            out.append(("own", v))
        else:
            out.append(("sub", tree_items(d, v)))
    return out


def finish(case, d, log):
    m = case["msgs"][d.i]
    d.msg = m
    d.kw_sent = bool(m.get("kw", True))
    d.sent = sent_state(case, d.i)
    d.timeline = []           # (global idx, "read" / "mut" / "save", data) in the order the execution did them
    d.muts = []               # (global idx, op, at)
    d.cb_start_at = d.cb_done_at = None
    d.top = d.ctxs[0] if d.ctxs else None
    d.tree = tree_items(d, d.top) if d.top is not None else []
    d.opens = []              # instances in opening order
    d.closes = []             # (global idx, inst, saw name or None) - finalisations performed by the framework
    d.closed = []             # (global idx, inst)
    d.gc_closes = []
    d.stray_closes = []
    d.finish_at = None
    d.fail = False
    d.outcome = None
    d.saves = []              # (global idx, tid, summary)
    d.acks = []
    d.reads = []              # (global idx, ctx number within the execution or None, echo, what)
    d.preads = []             # (global idx, when, canonical value) - the validated parameter as the task function holds it
    d.val = val_info(case, d.i)
    d.user_reads = []         # (global idx, node, tag of the user entry the node was given)
    d.brk_reads = []          # (global idx, where, is it the case's broker) - a broker obtained without a Context
    d.effs = []               # Coq eff literals in order
    d.begin_at = None
    d.save_failed = False
    d.on_error = []
    d.body = None
    d.cb_done = "missing"
    d.raised = None           # (class name, "task" / "dep") of the object the task function / the failing dependency raised
    d.kicked_at = d.prod_after_at = None    # a message kicked with an object the producer keeps: when, and when it used it again
    d.kicked = None           # ... and what the message held the moment it was serialized (the producer's own look at it)
    d.aliased = None          # `refs`: the driver's count of objects the built message referenced from two or more positions
    ctxnum = {cid: k for k, cid in enumerate(d.ctxs)}
    d.ctxnum = ctxnum
    ack = COQ_ACK[case.get("ack", "when_saved")]
    pending_save = None
    for g, e in d.ev:
        k = e[0]
        if k == "begin":
            d.begin_at = g
            d.effs.append("FBegin")
        elif k == "own":
            inst = d.inst[e[3]]
            d.opens.append(inst)
            d.effs.append("FOpen %d" % inst)
        elif k == "cb_start":
            d.cb_start_at = g
        elif k == "kicked":
            d.kicked_at, d.kicked = g, e[2]
        elif k == "aliased":
            d.aliased = e[2]
        elif k == "prod_after":
            d.prod_after_at = g
        elif k == "mut":
            d.muts.append((g, e[2], e[3]))
            d.timeline.append((g, "mut", e[2]))
        elif k == "read":
            d.reads.append((g, e[3] if d.ctxs else None, e[4], e[2]))
        elif k == "pread":
            d.preads.append((g, e[2], e[3]))
        elif k == "enter":
            if e[5] is not None:
                d.reads.append((g, ctxnum.get(e[4]), e[5], "node %d" % e[2]))
            if len(e) > 6 and e[6] is not None:
                d.user_reads.append((g, e[2], e[6]))
        elif k == "prov":
            if e[4] is not None:
                d.reads.append((g, ctxnum.get(e[3]), e[4], "provider %d" % e[2]))
        elif k == "brk":
            d.brk_reads.append((g, e[2], bool(e[3])))
        elif k == "fail":
            d.fail = True
            d.finish_at = g if d.finish_at is None else d.finish_at
            d.effs.append("FDepFail")
        elif k == "raised":
            d.raised = (e[2], e[3])
        elif k == "task_start":
            d.body = (g, e[3])
            if "pv" in e[3]:
                d.preads.append((g, "start", e[3]["pv"]))
            if e[3].get("echo") is not None:
                d.reads.append((g, 0 if d.ctxs else None, e[3]["echo"], "task"))
            d.effs.append("FTaskStart")
        elif k == "task_end":
            d.outcome = e[2]
            d.finish_at = g if d.finish_at is None else d.finish_at
            d.task_end_at = g
            d.effs.append("FTaskEnd %s" % COQ_OUT[e[2]])
        elif k == "close":
            inst = d.inst.get(e[3])
            if len(e) > 6 and e[6] is not None and e[4] != "GeneratorExit":
                d.reads.append((g, ctxnum.get(e[5]), e[6], "teardown of node %d" % e[2]))
            if e[4] == "GeneratorExit":
                d.gc_closes.append((g, inst))
            elif inst is None:
                d.stray_closes.append((g, e[2]))
            else:
                d.closes.append((g, inst, e[4]))
                d.effs.append("FClose %d %s" % (inst, C.cb(e[4] is not None)))
        elif k == "closed":
            inst = d.inst.get(e[3])
            if inst is not None and not any(x[1] == inst for x in d.gc_closes):
                d.closed.append((g, inst))
        elif k == "on_error":
            d.on_error.append((g, e[3]))
            d.effs.append("FOnError")
        elif k == "ack":
            d.acks.append(g)
            d.effs.append("FAck %s" % ack)
        elif k == "save":
            d.saves.append((g, e[2], e[3]))
            pending_save = len(d.effs)
            d.effs.append("FSave")
        elif k == "save_fail":
            d.save_failed = True
            if pending_save is not None:
                d.effs[pending_save] = "FSaveFail"
        elif k == "cb_done":
            d.cb_done = e[2]
            d.cb_done_at = g
    if not d.saves:
        # nothing marks a skipped save: place it where the model has it (before a trailing when_saved ack)
        if ack == "ASaved" and d.effs and d.effs[-1] == "FAck ASaved":
            d.effs.insert(len(d.effs) - 1, "FSaveSkip")
        else:
            d.effs.append("FSaveSkip")
    d.timeline += [(g, "read", (c, echo, what)) for g, c, echo, what in d.reads]
    d.timeline += [(g, "save", (tid, s)) for g, tid, s in d.saves]
    d.timeline.sort(key=lambda x: x[0])
    d.error_found = d.fail or (d.outcome is not None and d.outcome != "return")
    d.resolution = "RFail" if d.fail else ("(RDone %s)" % COQ_OUT[d.outcome] if d.outcome else None)
    # the execution's exception: the object its task function / its failing dependency raised (the driver's bodies log
    # the class of what they raise); a timeout and Context.requeue() raise inside asyncio / taskiq
    d.expected_err = "DepFail" if d.fail else ERR_OF.get(d.outcome)
    if d.raised is not None and (d.fail or d.outcome in ("raise", "base", "noresult")):
        d.expected_err = d.raised[0]


# --------------------------------------------------------------------------- Coq literals
def coq_tree(case, d, items=None):
    items = d.tree if items is None else items
    out = []
    for kind, v in items:
        if kind == "own":
            out.append("Own %d %s" % (v, COQ_STYLE[case["nodes"][d.inst_node[v]]["style"]]))
        else:
            out.append("Sub %s" % coq_tree(case, d, v))
    return "[" + "; ".join(out) + "]"


def coq_cfg(case, d):
    return "{| propagate := %s; ack := %s; ackable := %s; has_mw := %s; save_ok := %s |}" % (
        C.cb(case.get("propagate", True)), COQ_ACK[case.get("ack", "when_saved")],
        C.cb(d.msg.get("ackable", "sync") != "none"), C.cb(case.get("middleware", True)),
        C.cb(not d.msg.get("save_fail")))


def has_sub(items):
    return any(k == "sub" for k, _ in items)


# --------------------------------------------------------------------------- oracle C12
def inst_path(d, inst):
    return d.path.get(d.inst_cid[inst], [])


def oracle_c12(case, d):
    """literal transcription of C12 over the events of one execution; returns a list of (what, observed, expected, sig)"""
    out = []
    prop = bool(case.get("propagate", True))
    closes = [x[1] for x in d.closes]
    # exactly once
    for inst in d.opens:
        c = closes.count(inst)
        if c != 1:
            out.append(("dependency opened for an execution was finalised %d times" % c,
                        dict(instance=inst, node=d.inst_node[inst], opens=d.opens, closes=closes,
                             finalised_by_gc=[x[1] for x in d.gc_closes]), "exactly once", {"kind": "count"}))
        c2 = [x[1] for x in d.closed].count(inst)
        if c == 1 and c2 != 1:
            out.append(("teardown of a dependency completed %d times" % c2, dict(instance=inst), "exactly once",
                        {"kind": "count"}))
    for g, node in d.stray_closes:
        out.append(("a dependency that never finished opening was finalised", dict(node=node), "no finalisation",
                    {"kind": "count"}))
    # reverse order of opening
    if sorted(closes) == sorted(d.opens) and len(set(closes)) == len(closes) and closes != d.opens[::-1]:
        pos_o = {x: k for k, x in enumerate(d.opens)}
        pos_c = {x: k for k, x in enumerate(closes)}
        inv = []
        for x in d.opens:
            for y in d.opens:
                if pos_o[x] < pos_o[y] and pos_c[x] < pos_c[y]:
                    inv.append({"early": x, "late": y, "early_path": inst_path(d, x), "late_path": inst_path(d, y)})
        out.append(("dependencies were not finalised in reverse order of opening",
                    dict(opens=[[x, d.inst_node[x]] for x in d.opens], closes=[[x, d.inst_node[x]] for x in closes]),
                    "closes = reversed(opens)", {"kind": "order", "inversions": inv}))
    # after the task function / the failing dependency finished
    for g, inst, saw in d.closes:
        if d.finish_at is None or g < d.finish_at:
            out.append(("dependency finalised before the task function (or the failing dependency) finished",
                        dict(instance=inst, close_at=g, finish_at=d.finish_at), "finish < close", {"kind": "early"}))
    # before the result is stored / the message acknowledged after execution
    visible = [("set_result", g) for g, _, _ in d.saves]
    if case.get("ack", "when_saved") in ("when_executed", "when_saved"):
        visible += [("ack", g) for g in d.acks]
    last = max([g for g, _ in d.closed] + [g for g, _, _ in d.closes] or [-1])
    for what, g in visible:
        if g < last:
            out.append(("%s happened before a dependency of the execution was finalised" % what,
                        dict(visible_at=g, last_teardown_at=last), "teardown < visible", {"kind": "late"}))
    if d.cb_done is not None:
        out.append(("Receiver.callback raised instead of storing the result / acknowledging the message after teardown",
                    dict(cb_done=d.cb_done, closes=closes), "callback returns", {"kind": "crash"}))
    # exception thrown into the dependency iff propagation is enabled
    for g, inst, saw in d.closes:
        want = d.expected_err if (prop and d.error_found) else None
        if (saw is not None) != (want is not None):
            out.append(("exception %s the dependency although propagate_exceptions=%s and the execution %s" % (
                "thrown into" if saw is not None else "not thrown into", prop,
                "failed" if d.error_found else "succeeded"),
                dict(instance=inst, node=d.inst_node[inst], style=case["nodes"][d.inst_node[inst]]["style"], saw=saw),
                want, {"kind": "propagation"}))
        elif saw is not None and saw != want:
            out.append(("a different exception than the execution's was thrown into the dependency",
                        dict(instance=inst, saw=saw), want, {"kind": "propagation"}))
    return out


def sig_subcontext_teardown_order(f):
    """D6: the order differs from reverse-opening, and in every inverted pair the earlier-closed dependency was
    opened in a sub-context (of a use_cache=False dependency) that does not contain the later-closed one."""
    s = f.get("sig") or {}
    if s.get("kind") != "order" or not s.get("inversions"):
        return False
    for v in s["inversions"]:
        ep, lp = v["early_path"], v["late_path"]
        if not ep or lp[:len(ep)] == ep:
            return False
    return True


# --------------------------------------------------------------------------- oracle C06
def oracle_c06(case, d, all_execs):
    """literal transcription of C06 over the events of one execution.  "Its own message" is the message the delivery
    carried, as sent, plus what this execution itself wrote to it (its logged `mut`s, replayed here in order)."""
    import copy
    out = []
    i = d.i
    declared = declared_labels(case, i)
    orig = copy.deepcopy(d.sent)     # the message object run_task holds
    view = orig                      # the message ctx.message refers to (a private copy after `setmsg`)
    for g, kind, data in d.timeline:
        if kind == "mut":
            if data == "setmsg":
                view = copy.deepcopy(view)
            else:
                apply_mut(i, view, data)
        elif kind == "read":
            c, echo, what = data
            if state_own(echo, view, declared, d.val, i):
                continue
            who = "the task function" if what == "task" else "a dependency"
            foreign = (not isinstance(echo, dict) or echo.get("tid") != view["tid"]
                       or (echo.get("args") or [None])[0] != view["args"][0]
                       or (echo.get("labels") or {}).get("who") != view["labels"].get("who")
                       or (echo.get("kwargs") or {}).get("kw") != view["kwargs"].get("kw")
                       or echo.get("name", view["name"]) != view["name"])
            if foreign:
                out.append(("%s of one execution observed another message's Context" % who,
                            dict(execution=i, reader=what, saw=echo, at=g), copy.deepcopy(view), {"kind": "context"}))
            else:
                out.append(("%s of one execution observed labels / arguments that are not its own message's "
                            "(as sent, plus its own writes)" % who,
                            dict(execution=i, reader=what, saw=echo, at=g), copy.deepcopy(view), {"kind": "foreign-write"}))
        elif kind == "save":
            tid, s = data
            if "labels" in s and not labels_own(s["labels"], orig["labels"], declared):
                out.append(("the result stored for a message carries labels that are not its own message's "
                            "(as sent, plus its own writes)",
                            dict(execution=i, task_id=tid, labels=s["labels"], at=g), copy.deepcopy(orig["labels"]),
                            {"kind": "result-labels"}))
    # the validated parameter as the task function holds it (at its start = what it was called with, after its awaits)
    for g, when, got in d.preads:
        if (got is None) if d.val is None else val_own(got, d.val, i):
            continue
        out.append(("the task function of one execution observed labels / arguments that are not its own message's "
                    "(as sent, plus its own writes)",
                    dict(execution=i, reader="parameter pv (%s)" % when, saw=got, at=g),
                    None if d.val is None else dict(raw=d.val["raw"], converted=d.val["conv"]), {"kind": "foreign-write"}))
    for g, where, same in d.brk_reads:
        if not same:
            out.append(("a broker obtained through the dependencies of one execution is not the broker that received its message",
                        dict(execution=i, reader=where, at=g), "the receiving broker", {"kind": "context"}))
    # An execution whose graph asks for its Context / message / broker in another way than the cached Context may end
    # while its dependencies are resolved, with an error of its own (the way may be unsupported): it then observed
    # nothing foreign.  C06 does not say such a request has to be served.
    own_failure = d.body is None and not d.fail and asks_sources(case, d.msg["task"])
    want_tag = case.get("user_ctx") if case.get("user_ctx") is not None else -1
    for g, node, tag in d.user_reads:
        if tag != want_tag:
            out.append(("a dependency did not receive the user entry registered with add_dependency_context",
                        dict(execution=i, node=node, tag=tag, at=g), want_tag, {"kind": "user"}))
    if d.body is not None:
        p = d.body[1]
        if p.get("arg") != d.sent["args"][0] or p.get("kw") != d.sent["kwargs"].get("kw", -1):
            out.append(("the task function received another message's arguments",
                        dict(execution=i, arg=p.get("arg"), kw=p.get("kw")), dict(arg=d.sent["args"][0]), {"kind": "args"}))
        if p.get("task") != d.msg["task"]:
            out.append(("a message was executed by a task function other than the one its own message names",
                        dict(execution=i, ran="task_%s (registered as %r)" % (p.get("task"), task_name(case, p["task"])
                             if isinstance(p.get("task"), int) and 0 <= p["task"] < len(case["tasks"]) else None)),
                        dict(task=d.msg["task"], name=d.sent["name"]), {"kind": "task"}))
    for g, tid, s in d.saves:
        payload = s.get("ret") if not s.get("is_err") else s.get("err_payload")
        bad = tid != d.sent["tid"] or s.get("who") != d.sent["labels"].get("who")
        if isinstance(payload, dict):
            bad = bad or payload.get("arg") != d.sent["args"][0] or (d.body is not None and payload != d.body[1])
        if bad:
            out.append(("the result stored under a task id was not produced by the message carrying that id",
                        dict(execution=i, task_id=tid, result=s), "own id, own payload", {"kind": "result"}))
        # the stored result reflects what this execution did
        want_err = d.expected_err
        if own_failure:
            # ended while its dependencies were resolved, by an error nobody scripted: isolated as long as that error
            # is its own - stored (if at all) under its own id (checked above), carrying no message's payload
            if not s.get("is_err") or not s.get("err") or s.get("err_payload") is not None or s.get("ret") is not None:
                out.append(("the result stored for a message does not stem from that message's execution",
                            dict(execution=i, result=s, outcome=d.outcome, dep_failed=d.fail),
                            "an error of its own (its dependencies could not be resolved)", {"kind": "result"}))
            continue
        if (s.get("err") or None) != want_err or (want_err is None and not isinstance(s.get("ret"), dict)):
            out.append(("the result stored for a message does not stem from that message's execution",
                        dict(execution=i, result=s, outcome=d.outcome, dep_failed=d.fail), want_err,
                        {"kind": "result"}))
    if len(d.saves) > 1:
        out.append(("a result was stored more than once for one execution", dict(execution=i), "at most once",
                    {"kind": "result"}))
    # the execution did what its message asked for (nothing leaked in from another message's plan)
    planned_fail = d.msg.get("fail") is not None
    if d.body is None and not d.fail and not own_failure:
        out.append(("an execution neither reached its task function nor failed in a scripted dependency",
                    dict(execution=i, cb_done=d.cb_done, saves=[s for _, _, s in d.saves]), "task function runs",
                    {"kind": "outcome"}))
    if d.fail and not planned_fail:
        out.append(("a dependency failed in an execution whose message did not ask for it", dict(execution=i), None,
                    {"kind": "outcome"}))
    if d.cb_done not in (None,):
        out.append(("Receiver.callback did not return normally", dict(execution=i, cb_done=d.cb_done), "returns",
                    {"kind": "outcome"}))
    return out


def sharing_profile(case, ex):
    """evidence keys of one case for the dimensions executions could share by accident: label-less messages, tasks
    declared with labels, in-place writes followed by reads of other executions, one task id on several deliveries"""
    keys = []
    bare = [d for d in ex if d.msg.get("nolabels")]
    keys.append("labels: %s" % ("none of the messages carries any" if len(bare) == len(ex) else
                                "some messages carry none" if bare else "every message carries its own"))
    if any(t.get("labels") for t in case["tasks"]):
        keys.append("task declared with labels" + (", message without labels" if any(
            declared_labels(case, d.i) for d in bare) else ""))
    for d in ex:
        for g, op, at in d.muts:
            keys.append("write:%s@%s" % (op, at))
    seen = set()
    for x in ex:
        for gm, op, at in x.muts:
            for y in ex:
                if y is x or not any(g > gm for g, _, _, _ in y.reads):
                    continue
                same = "same task" if y.msg["task"] == x.msg["task"] else "another task"
                if y.cb_start_at is not None and y.cb_start_at < gm:
                    when = "concurrent"
                elif x.cb_done_at is not None and y.cb_start_at is not None and y.cb_start_at > x.cb_done_at:
                    when = "later (writer finished)"
                else:
                    when = "started while the writer ran"
                seen.add("read after a write of another execution: %s, %s" % (same, when))
                if op in ("label", "requeue") and x.msg.get("nolabels") and y.msg.get("nolabels") and same == "same task":
                    seen.add("label write, then read by another label-less execution of the same task")
    keys += sorted(seen)
    keys += value_profile(case, ex)
    keys += wire_profile(case, ex)
    keys += exc_profile(case, ex)
    keys += source_profile(case, ex)
    keys += producer_profile(case, ex)
    keys += refs_profile(case, ex)
    tids = {}
    for d in ex:
        tids.setdefault(d.sent["tid"], []).append(d)
    dup = [v for v in tids.values() if len(v) > 1]
    if dup:
        over = any(a.cb_start_at is not None and b.cb_start_at is not None and a.cb_done_at is not None
                   and b.cb_done_at is not None and a.cb_start_at < b.cb_done_at and b.cb_start_at < a.cb_done_at
                   for v in dup for a in v for b in v if a.i < b.i)
        both = any(a.opens and b.opens and a.cb_start_at < b.cb_done_at and b.cb_start_at < a.cb_done_at
                   for v in dup for a in v for b in v if a.i < b.i and None not in (
                       a.cb_start_at, b.cb_start_at, a.cb_done_at, b.cb_done_at))
        keys.append("one task id on several deliveries: %s" % (
            "overlapping, both with open dependencies" if both else "overlapping" if over else "one after another"))
        if any(content(case, a.i) == content(case, b.i) for v in dup for a in v for b in v if a.i < b.i):
            keys.append("redelivery of the same bytes")
    else:
        keys.append("task ids: all distinct")
    return keys


def _rawtype(raw):
    return type(raw).__name__


def _arrived(d):
    """the form in which the task function received its validated argument (observed)"""
    for g, when, got in d.preads:
        if when == "start":
            got = C.canon(strip_own(got, d.i))
            raw, conv = C.canon(d.val["raw"]), C.canon(d.val["conv"])
            if raw == conv:
                return "arrived as sent (conversion keeps the form)" if got == raw else "arrived as something else"
            return "arrived converted" if got == conv else "arrived raw" if got == raw else "arrived as something else"
    return "task function not reached"


def value_profile(case, ex):
    """evidence keys for validated parameters: annotation kinds, raw types, validate_params, equal raw values on
    several executions, writes into the received object followed by reads of executions carrying an equal raw value"""
    vals = [d for d in ex if d.val is not None]
    if not vals:
        return ["validated argument: none"]
    keys = ["validated argument: validate_params=%s" % bool(case.get("validate", True))]
    for d in vals:
        v = d.val
        keys.append("validated argument: %s from %s, %s: %s" % (
            v["kind"], _rawtype(v["raw"]), "positional" if v["by"] == "pos" else "keyword", _arrived(d)))
    seen = set()
    for a in vals:
        for b in vals:
            if a.i >= b.i or C.canon(a.val["raw"]) != C.canon(b.val["raw"]):
                continue
            same_t = a.msg["task"] == b.msg["task"]
            same_k = a.val["kind"] == b.val["kind"]
            seen.add("equal raw values on two executions: %s" % (
                "same task" if same_t else "different tasks, same annotation" if same_k else "different annotations"))
    for x in vals:
        for gm, op, at in x.muts:
            if op not in ("val", "valtmp"):
                continue
            for y in vals:
                if y is x or C.canon(x.val["raw"]) != C.canon(y.val["raw"]) or x.val["kind"] != y.val["kind"]:
                    continue
                if not any(g > gm for g, _, _, _ in y.reads) and not any(g > gm for g, _, _ in y.preads):
                    continue
                hashable = isinstance(x.val["raw"], (str, int))
                if y.cb_start_at is not None and y.cb_start_at < gm:
                    when = "concurrent"
                elif x.cb_done_at is not None and y.cb_start_at is not None and y.cb_start_at > x.cb_done_at:
                    when = "later (writer finished)"
                else:
                    when = "started while the writer ran"
                seen.add("write into a validated argument, then read by an execution with an equal raw value (%s): %s" % (
                    "raw str / int, converted to a mutable object" if hashable else "raw list / dict", when))
    return keys + sorted(seen)


# --------------------------------------------------------------------------- C06 action sequence
def c06_actions(case, ex, log):
    """global (action, observed value) sequence for the heap model"""
    acts = []
    by_g = {}
    for d in ex:
        if d.begin_at is not None:
            by_g.setdefault(d.begin_at, []).append(("ABegin %d" % d.i, "VUnit"))
        for g, e in d.ev:
            if e[0] == "traverse" and e[2] in d.ctxnum:
                by_g.setdefault(g, []).append(("ATraverse %d %d" % (d.i, d.ctxnum[e[2]]), "VUnit"))
            elif e[0] == "task_end" and e[2] in ("return", "raise", "base"):
                by_g.setdefault(g, []).append(("AResult %d" % d.i, "VUnit"))
        for g, c, echo, what in d.reads:
            j = echo_owner(case, echo, d.i)
            if c is None:
                continue
            by_g.setdefault(g, []).append(("ARead %d %d" % (d.i, c), "VCtx %s" % C.copt(j, str)))
        if d.body is not None:
            g, p = d.body
            a = carrier(case, p.get("arg"), d.i)
            by_g.setdefault(g, []).append(("ABody %d" % d.i, "VMsg %d" % (a if a is not None else 99)))
        for g, tid, s in d.saves:
            payload = s.get("ret") if not s.get("is_err") else s.get("err_payload")
            prod = carrier(case, payload.get("arg"), d.i) if isinstance(payload, dict) else None
            if prod is None and d.msg.get("exc_shared") and d.raised is not None and d.raised[1] == "task" \
                    and s.get("err") == d.raised[0]:
                # one exception object raised by several executions carries no delivery's payload: the stored error is
                # taken for the own task function's when it is of the class that one raised
                prod = d.i
            # the model names a task id by the execution that carried it: several deliveries may carry one id
            t = d.i if tid == d.sent["tid"] else next((k for k in range(len(case["msgs"])) if sent_tid(case, k) == tid), None)
            by_g.setdefault(g, []).append(("ASave %d" % d.i, "VSaved %d %s" % (t if t is not None else 99, C.copt(prod, str))))
    for g in sorted(by_g):
        acts += by_g[g]
    return acts


# --------------------------------------------------------------------------- shrinking a failing case
def _drop_node(case, k):
    c = json.loads(json.dumps(case))
    if c.get("overrides"):
        c["overrides"] = [[a - (a > k), b - (b > k)] for a, b in c["overrides"] if a != k and b != k]
    ren = {j: (j if j < k else j - 1) for j in range(len(c["nodes"])) if j != k}
    del c["nodes"][k]
    for n in c["nodes"]:
        n["subs"] = [[ren[a], b] for a, b in n["subs"] if a != k]
    for t in c["tasks"]:
        t["deps"] = [[ren[a], b] for a, b in t["deps"] if a != k]
    for m in c["msgs"]:
        f = m.get("fail")
        if f is not None:
            if f["node"] == k:
                del m["fail"]
            else:
                f["node"] = ren[f["node"]]
        if m.get("muts"):
            m["muts"] = [dict(mu, node=ren[mu["node"]]) if mu.get("node") is not None else mu
                         for mu in m["muts"] if mu.get("node") != k]
    return c


def _src_variants(variant, case, what, k):
    """simpler ways to come by the Context: the cached Context; the resolver asked directly instead of a provider"""
    src = case[what][k].get("src")
    if not src:
        return
    variant(lambda c: c[what][k].pop("src"))
    if src["kind"] == "prov":
        p = case["provs"][src["prov"]]
        variant(lambda c: c[what][k].update(src={"kind": p["get"], "cached": bool(p.get("pc", True))}))
        if p["style"] != "plain":
            variant(lambda c: c["provs"][src["prov"]].update(style="plain"))


def reductions(case):
    """all one-step simplifications of a case (each still a well-formed case)"""
    out = []
    if "_comment" in case:
        # the commentary of a corpus entry describes that entry, not what is left of it
        case = {k: v for k, v in case.items() if k != "_comment"}

    def variant(fn):
        c = json.loads(json.dumps(case))
        if fn(c) is not False and c != case:
            out.append(c)

    nm = len(case["msgs"])
    if nm > 2:
        for i in range(nm):          # big steps first: keep one or two messages only
            variant(lambda c, i=i: c.update(msgs=[c["msgs"][i]]))
        for i in range(nm):
            for j in range(i + 1, nm):
                variant(lambda c, i=i, j=j: c.update(msgs=[c["msgs"][i], c["msgs"][j]]))
    for i in range(nm):
        if nm > 1:
            variant(lambda c, i=i: c["msgs"].pop(i))
    used = set()
    for t in case["tasks"]:
        used |= set(reachable(case["nodes"], [d for d, _ in t["deps"]]))
    used |= set(reachable(case["nodes"], [b for _, b in case.get("overrides") or []]))
    unused = [k for k in range(len(case["nodes"])) if k not in used]
    if unused:
        c2 = case
        for k in reversed(unused):
            c2 = _drop_node(c2, k)
        out.append(c2)
    for t in range(len(case["tasks"])):
        if len(case["tasks"]) > 1 and all(m["task"] != t for m in case["msgs"]):
            def f(c, t=t):
                c["tasks"].pop(t)
                for m in c["msgs"]:
                    m["task"] -= m["task"] > t
            variant(f)
        for j in range(len(case["tasks"][t]["deps"])):
            variant(lambda c, t=t, j=j: c["tasks"][t]["deps"].pop(j))
        variant(lambda c, t=t: c["tasks"][t].update(sync=False))
        variant(lambda c, t=t: c["tasks"][t].update(ctx=False))
        _src_variants(variant, case, "tasks", t)
    for k in range(len(case["nodes"])):
        out.append(_drop_node(case, k))
        for j in range(len(case["nodes"][k]["subs"])):
            variant(lambda c, k=k, j=j: c["nodes"][k]["subs"].pop(j))
            variant(lambda c, k=k, j=j: c["nodes"][k]["subs"][j].__setitem__(1, True))
        variant(lambda c, k=k: c["nodes"][k].update(swallow=False))
        variant(lambda c, k=k: c["nodes"][k].update(ctx=False))
        _src_variants(variant, case, "nodes", k)
        st = case["nodes"][k]["style"]
        if st in YIELDING and st != "gen":
            variant(lambda c, k=k: c["nodes"][k].update(style="gen"))
        if st == "coro":
            variant(lambda c, k=k: c["nodes"][k].update(style="plain"))
    def unexc(c, i):
        # back to the ordinary exception of that outcome
        c["msgs"][i].pop("exc", None)
        c["msgs"][i].pop("exc_shared", None)

    def unexc_fail(c, i):
        c["msgs"][i]["fail"].pop("exc", None)
        c["msgs"][i]["fail"].pop("exc_shared", None)

    for i, m in enumerate(case["msgs"]):
        for key in ("fail", "timeout", "save_fail", "save_pause"):
            if m.get(key) is not None:
                variant(lambda c, i=i, key=key: c["msgs"][i].pop(key))
        if m.get("outcome", "return") != "return":
            variant(lambda c, i=i: (c["msgs"][i].update(outcome="return"), unexc(c, i)) and None)
        if m.get("exc"):
            variant(lambda c, i=i: unexc(c, i))
            if m.get("exc_shared"):
                variant(lambda c, i=i: c["msgs"][i].pop("exc_shared"))
            if m["exc"] not in ("falsy_bool", "plain_base", "falsy_base", "falsy_noresult", "base_group"):
                variant(lambda c, i=i: c["msgs"][i].update(exc="falsy_bool"))
        if (m.get("fail") or {}).get("exc"):
            variant(lambda c, i=i: unexc_fail(c, i))
            if m["fail"].get("exc_shared"):
                variant(lambda c, i=i: c["msgs"][i]["fail"].pop("exc_shared"))
        if m.get("start"):
            variant(lambda c, i=i: c["msgs"][i].update(start=0))
        if m.get("dur"):
            variant(lambda c, i=i: c["msgs"][i].update(dur=[]))
        if m.get("pauses") and m["pauses"] != [None]:
            variant(lambda c, i=i: c["msgs"][i].update(pauses=[None]))
            if len(m["pauses"]) > 1:
                variant(lambda c, i=i: c["msgs"][i].update(pauses=c["msgs"][i]["pauses"][:-1]))
        if m.get("ackable", "sync") != "sync" and (case.get("path") or {}).get("kind") != "inmemory":
            variant(lambda c, i=i: c["msgs"][i].update(ackable="sync"))
        if m.get("muts"):
            variant(lambda c, i=i: c["msgs"][i].pop("muts"))
            if len(m["muts"]) > 1:
                for j in range(len(m["muts"])):
                    variant(lambda c, i=i, j=j: c["msgs"][i]["muts"].pop(j))
        if m.get("nolabels"):
            variant(lambda c, i=i: c["msgs"][i].pop("nolabels"))
        if m.get("raw") is not None:
            def unval(c, i=i):
                mm = c["msgs"][i]
                mm.pop("raw")
                mm.pop("by", None)
                mm.pop("pobj", None)
                if mm.get("muts"):
                    mm["muts"] = [mu for mu in mm["muts"] if mu["op"] not in ("val", "valtmp")]
                    if not mm["muts"]:
                        del mm["muts"]
            variant(unval)
            if m.get("by", "pos") != "pos":
                variant(lambda c, i=i: c["msgs"][i].update(by="pos"))
        if m.get("pobj") is not None:
            # an ordinary message built from a fresh value; the producer leaving its object alone after the kick
            variant(lambda c, i=i: c["msgs"][i].pop("pobj"))
            if m["pobj"].get("after"):
                variant(lambda c, i=i: (c["msgs"][i]["pobj"].pop("after"), c["msgs"][i]["pobj"].pop("delay", None)) and None)
            if m["pobj"].get("delay"):
                variant(lambda c, i=i: c["msgs"][i]["pobj"].pop("delay"))
            if m["pobj"]["obj"] >= 2:
                variant(lambda c, i=i: c["msgs"][i]["pobj"].update(obj=c["msgs"][i]["pobj"]["obj"] - 2))
    for key in ("fmt", "ser", "prod", "ser_late"):
        if case.get(key):
            variant(lambda c, key=key: c.pop(key))
    for i, m in enumerate(case["msgs"]):
        refs = m.get("refs")
        if refs is not None:
            # plain lists / dicts on the sending side; one object wherever parts are equal (the plain spelling of sharing)
            if refs.get("wrap"):
                variant(lambda c, i=i: c["msgs"][i]["refs"].pop("wrap"))
            if refs.get("how", "same") != "same":
                variant(lambda c, i=i: c["msgs"][i]["refs"].update(how="same"))
    if any(m.get("pobj") is not None for m in case["msgs"]):
        variant(lambda c: [m.pop("pobj", None) for m in c["msgs"]] and None)
    def odd_needs_raw(c):
        # messages carrying unusual strings stay hand-written (see add_wire)
        # (messages with `refs` go through the real sending side: their strings are ordinary ones)
        return not (has_odd_strings(c) and any("wire" not in m and "refs" not in m for m in c["msgs"]))

    if any("wire" in m for m in case["msgs"]):
        variant(lambda c: ([m.pop("wire", None) for m in c["msgs"]] and None) or odd_needs_raw(c))
    for i, m in enumerate(case["msgs"]):
        for key in ("slabels", "wire"):
            if key in m:
                variant(lambda c, i=i, key=key: (c["msgs"][i].pop(key) and None) or odd_needs_raw(c))
        if m.get("wire") and m["wire"] != {"via": "raw"}:
            variant(lambda c, i=i: c["msgs"][i].update(wire={"via": "raw"}))
        if "tids" in m:
            # back to the ordinary id of that delivery, or to a plain spelling of the same id
            variant(lambda c, i=i: c["msgs"][i].pop("tids"))
            if len(m["tids"]) > 40:
                variant(lambda c, i=i: c["msgs"][i].update(tids=c["msgs"][i]["tids"][:8] + c["msgs"][i]["tids"][-1:]))
        if len(m.get("slabels") or {}) > 1:
            for k in m["slabels"]:
                variant(lambda c, i=i, k=k: c["msgs"][i]["slabels"].pop(k))
    for t in range(len(case["tasks"])):
        if "name" in case["tasks"][t]:
            variant(lambda c, t=t: c["tasks"][t].pop("name"))
    if case.get("validate") is False:
        variant(lambda c: c.pop("validate"))
    if any("tid" in m for m in case["msgs"]):
        def untid(c):
            for m in c["msgs"]:
                m.pop("tid", None)
                m.pop("content", None)
        variant(untid)
    for t in range(len(case["tasks"])):
        if case["tasks"][t].get("labels"):
            variant(lambda c, t=t: c["tasks"][t].pop("labels"))
    for j in range(len(case.get("overrides") or [])):
        variant(lambda c, j=j: c["overrides"].pop(j))
    if case.get("user_ctx") is not None:
        variant(lambda c: c.update(user_ctx=None))
    for k in range(len(case["nodes"])):
        if case["nodes"][k].get("user"):
            variant(lambda c, k=k: c["nodes"][k].update(user=False))
    if case.get("middleware", True):
        variant(lambda c: c.update(middleware=False))
    if case.get("via_inmemory"):
        variant(lambda c: c.update(via_inmemory=False))
    path = case.get("path")
    if path:
        # the receiver built directly by the driver instead (an InMemoryBroker case has nothing to acknowledge: it
        # stays a well-formed direct case)
        variant(lambda c: c.pop("path"))
        if path["kind"] == "api":
            for key in list(path.get("kwargs") or {}):
                if key not in ("propagate_exceptions", "validate_params", "ack_time"):
                    variant(lambda c, key=key: c["path"]["kwargs"].pop(key))
            if path.get("run") is not None:
                drops = path["run"].get("drops") or []
                variant(lambda c: c["path"].pop("run"))
                for j in range(len(drops)):
                    variant(lambda c, j=j: c["path"]["run"]["drops"].pop(j))
                    if drops[j][0] > 0:
                        variant(lambda c, j=j: c["path"]["run"]["drops"][j].__setitem__(0, 0))
                        variant(lambda c, j=j: c["path"]["run"]["drops"][j].__setitem__(0, c["path"]["run"]["drops"][j][0] - 1))
                    if drops[j][1] != "connection":
                        variant(lambda c, j=j: c["path"]["run"]["drops"][j].__setitem__(1, "connection"))
        if path["kind"] == "inmemory":
            life = path.get("life") or []
            if life:
                variant(lambda c: c["path"].update(life=[]))
                variant(lambda c: c["path"].update(life=c["path"]["life"][:-1] if c["path"]["life"][-2:] == ["startup", "startup"]
                                                   else c["path"]["life"][:-2]))
                if life[0] == "shutdown":
                    variant(lambda c: c["path"].update(life=["startup"] + c["path"]["life"]))
            if path.get("send") == "kicker":
                variant(lambda c: c["path"].update(send="kick"))
            for key in ("max_async_tasks", "await_inplace", "sync_tasks_pool_size"):
                if key in path:
                    variant(lambda c, key=key: c["path"].pop(key))
    return out


def shrink_failures(ctx, rep, fails_of, is_known=lambda f: False, rounds=30, budget_s=40.0, kinds=3):
    """replace the case of the first unexplained failure of each kind by a locally minimal one that still fails
    in the same way on the implementation (the replay file then holds the small case)"""
    import time
    seen = set()
    t_end = time.time() + budget_s
    for f in rep.failures:
        if is_known(f) or f["what"] in seen or not isinstance(f.get("case"), dict) or "nodes" not in f["case"]:
            continue
        seen.add(f["what"])
        if len(seen) > kinds:
            break
        case = f["case"]
        best = None

        def same_failure(c, o, f=f):
            for what, observed, expected, sig in fails_of(c, o):
                g = dict(what=what, case=c, observed=observed, expected=expected, sig=sig)
                if what == f["what"] and not is_known(g):
                    return g
            return None

        for _ in range(rounds):
            if time.time() > t_end:
                break
            cands = reductions(case)
            if not cands:
                break
            obs = C.run_driver(ctx, "deps_driver", cands)
            hits = []
            for c, o in zip(cands, obs):
                if "_crash" in o:
                    continue
                g = same_failure(c, o)
                if g is not None:
                    hits.append(g)
            # the candidates of one round share driver processes: a candidate counts only if it fails in the same way
            # on its own, in a fresh process (process-wide state of the implementation - a cache keyed by a value the
            # candidates have in common - may have been left behind by another candidate)
            hits.sort(key=lambda g: len(json.dumps(g["case"])))
            hit = None
            for g in hits[:4]:
                o = C.run_driver(ctx, "deps_driver", [g["case"]], nproc=1)[0]
                hit = None if "_crash" in o else same_failure(g["case"], o)
                if hit is not None or time.time() > t_end:
                    break
            if not hit:
                break
            case, best = hit["case"], hit
        if best:
            f.update(case=best["case"], observed=best["observed"], expected=best["expected"], sig=best["sig"])


# --------------------------------------------------------------------------- systematic grid (thorough tier)
def grid_cases():
    """every (parent style, child style, both edge kinds, outcome, propagate, ack type) once, two overlapping messages"""
    out = []
    for s1 in YIELDING:
        for s2 in STYLES:
            for e1 in (True, False):
                for e0 in (True, False):
                    for oc in ("return", "raise", "base", "noresult", "timeout", "fail0", "fail1"):
                        for prop in (True, False):
                            for ack in ("when_received", "when_executed", "when_saved"):
                                msgs = []
                                for i in range(2):
                                    m = {"task": 0, "start": 3000 * i, "pauses": [10000, None, 4000], "dur": [2000],
                                         "ackable": "sync" if i == 0 else "async", "kw": True, "outcome": "return"}
                                    if oc in ("raise", "base", "noresult"):
                                        m["outcome"] = oc
                                    elif oc == "timeout":
                                        m["timeout"] = 5000
                                        m["dur"] = [50000]
                                    elif oc.startswith("fail") and i == 0:
                                        m["fail"] = {"node": int(oc[4]), "when": "early"}
                                    msgs.append(m)
                                out.append({"nodes": [{"style": s2, "ctx": True, "subs": [], "swallow": False},
                                                      {"style": s1, "ctx": True, "subs": [[0, e1]], "swallow": False}],
                                            "tasks": [{"deps": [[1, e0]], "ctx": True, "sync": False}], "msgs": msgs,
                                            "propagate": prop, "ack": ack, "middleware": True, "via_inmemory": False})
    # dependency_overrides: original / replacement with and without a use_cache=False dependency, three messages,
    # the first two suspended in the async gate while the next one is received
    for orig_unc in (False, True):
        for repl_unc in (False, True):
            for s0 in STYLES:
                for s3 in STYLES:
                    for sg in ASYNC_STYLES:
                        for mw in (False, True):
                            msgs = [{"task": 0, "start": 3000 * i, "pauses": [20000], "dur": [1000], "ackable": "sync",
                                     "kw": True, "outcome": "return"} for i in range(3)]
                            out.append({"nodes": [{"style": s0, "ctx": True, "subs": [], "swallow": False, "user": True},
                                                  {"style": sg, "ctx": False, "subs": [], "swallow": False},
                                                  {"style": "plain", "ctx": True, "subs": [[1, True], [0, not orig_unc]],
                                                   "swallow": False},
                                                  {"style": s3, "ctx": True, "subs": [[1, True], [0, not repl_unc]],
                                                   "swallow": False}],
                                        "tasks": [{"deps": [[2, True]], "ctx": True, "sync": False}], "msgs": msgs,
                                        "propagate": True, "ack": "when_saved", "middleware": mw, "via_inmemory": True,
                                        "overrides": [[2, 3]], "user_ctx": 7})
    # the object a failing execution raises: every kind x every teardown style x propagate x raised by the task function /
    # by a dependency that fails after the yielding one was opened; two overlapping deliveries, with and without one shared object
    for kind, (_, oc, _) in EXC_KINDS.items():
        for st in YIELDING:
            for prop in (True, False):
                for by in ("task", "dep"):
                    if by == "dep" and kind not in DEP_EXC_POOL:
                        continue
                    for shared in (False, True):
                        msgs = []
                        for i in range(2):
                            m = {"task": 0, "start": 3000 * i, "pauses": [10000, None, 4000], "dur": [2000],
                                 "ackable": "sync" if i == 0 else "async", "kw": True, "outcome": "return"}
                            if by == "task":
                                m.update(outcome=oc, exc=kind)
                                if shared:
                                    m["exc_shared"] = True
                            else:
                                m["fail"] = {"node": 1, "when": "late", "exc": kind}
                                if shared:
                                    m["fail"]["exc_shared"] = True
                            msgs.append(m)
                        out.append({"nodes": [{"style": st, "ctx": True, "subs": [], "swallow": False},
                                              {"style": "coro", "ctx": False, "subs": [[0, True]], "swallow": False}],
                                    "tasks": [{"deps": [[1, True]], "ctx": True, "sync": False}], "msgs": msgs,
                                    "propagate": prop, "ack": "when_saved", "middleware": True, "via_inmemory": False})
    return out
