"""C07 - the stored result faithfully reflects the outcome of the execution."""
import common as C
import pipeline_lib as L
import srctie

META = dict(
    id="C07",
    design_ref="DESIGN.md section 4, C07",
    technique="Coq proof over the operational Gallina model of Receiver.callback/run_task (Pipeline.v) + per-message "
              "effect-sequence correspondence (set_result arguments included) with the real receiver under concurrency",
    level_text="C07_one_save (exactly one set_result, none iff the final result is the no-result signal - raised or "
               "substituted by a hook; stored under the run message's id; it is the assembled result), "
               "C07_result_reflects / C07_saved_is_outcome (is_err = not returned, value / exception of this execution, "
               "labels of the message), C07_timeout (coroutine functions: duration > label => TimeoutError, < label => own "
               "outcome, label <= 0 => TimeoutError without entering the body), C07_backend_isolated / C07_completes / "
               "C07_others_unaffected are proved for any stack, any hook functions, any exception class. The model is tied "
               "to /repo on every run (1-6 concurrent messages through the real receiver.callback, global log = "
               "interleaving of the model's sequences, compared inside Coq with set_result's id, is_err, value, "
               "exception class and labels); a Python oracle re-derives the expected stored result from the scenario. In a fifth "
               "of the cases the broker gets its result backend (also middlewares, formatter, tasks) only AFTER the Receiver was "
               "constructed (assignment, with_* builders, WORKER_STARTUP handler) and the backend may be replaced mid-run: the "
               "result must reach the backend that is the broker's when set_result is called. In an eighth of the cases the wall "
               "clock the receiver measures executions with (time.time()) is a scripted clock that is not the loop's monotonic "
               "clock: it is stepped backwards / forwards (milliseconds .. years), set to an absolute value or stands still "
               "while executions are under way (negative, zero and huge measured durations) - the stored result and the "
               "completion of the message must not depend on it. A tenth of the raising task bodies (and failing "
               "dependencies) raise an exception OBJECT that is not a plain instance of a built-in class: instances of derived "
               "classes (of NoResultError, TimeoutError, CancelledError, KeyboardInterrupt ... too) that are unhashable "
               "(@dataclass, __eq__ without __hash__, hash raising), compare by value / always / never / raise on ==, are falsy, "
               "have raising __str__ / __repr__, an own __init__ signature, unpicklable / un-JSON-able / huge args, exception "
               "groups, __cause__ / __context__ chains (cyclic ones, ones holding such objects), one object raised by several "
               "messages - half of these cases with logging configured; the model sees the class identifier only. In a quarter of "
               "the cases the valid messages are not written the way the harness always wrote them (every label typed by "
               "prepare_label): they are sent through the real kicker with a pre_send middleware that stamps / removes labels "
               "after labels_types was computed, or built by hand like another client would (raw JSON, own type table): "
               "labels_types covers all / some / none of the labels, is {} / null / absent, names absent labels; the timeout "
               "label is typed or arrives as the plain JSON value; label values are also bool / None / lists / falsy - the task "
               "must run with every label of the message, the un-typed timeout is enforced, the result carries all labels. "
               "In a seventh of the cases a task NAME is re-registered between messages handled by the one long-lived Receiver "
               "(broker.register_task / @broker.task again at run time; also a name that was unknown when its first message "
               "arrived): 2-4 functions under one name, mostly of the other kind (sync <-> async) than their predecessor, with "
               "their own body / outcome / durations / timeout label / parameter list, the predecessor possibly still running - "
               "every message must store the result of the function registered under its name when it was delivered. "
               "In a seventh of the cases the callable REGISTERED as the task is not the plain function but something built "
               "around it: one or two functools.wraps decorator layers, a decorator without wraps, an async wrapper around a "
               "sync function, functools.partial (+ update_wrapper), callable objects (async ones marked with "
               "inspect.markcoroutinefunction), a function carrying __wrapped__ - layers that catch the inner exception and "
               "return a fallback, validate the value and raise, post-process the value, convert the exception, or take time "
               "before the call; outcome, duration and kind of the scenario are those of the registered callable, and the stored "
               "result must be ITS outcome, not the innermost function's.",
    level_note="Known finding sync_generator_exit (D10): a SYNC function raising GeneratorExit - the theorems exclude exactly "
               "that region (wf_recv: sync_genexit c = false) and C07_one_save_refuted_sync_genexit exhibits it. The statement "
               "claims timeout enforcement for async functions only; for sync functions wait_for gives up but the thread "
               "runs on (modelled: BodyDetached; the oracle accepts both outcomes there). Equality duration = timeout is the "
               "event loop's choice (c_tie) and not generated. Return values and exception instances are compared by value "
               "id / class; serialisation of the result is C19's subject. A FALSY exception object (__bool__ False / "
               "__len__ 0; subclasses of NoResultError, TimeoutError, CancelledError included) is an exception like any other: "
               "the full statement is demanded (repaired finding falsy_no_result_signal, regression inputs "
               "corpus/C07/falsy_no_result_signal_is_stored.json, falsy_exceptions_full_statement.json).",
    rule="case = 1-6 concurrent messages x outcome x timeout label x backend plan x stack; non-trivial iff some well-formed "
         "message has an outcome other than plain return, or a duration within 2x of its timeout label, or a failing save "
         "followed (in the same run) by another message; distinct by canonical case",
    trusted_base=["model: coq/theories/Pipeline.v (hand-written transcription of Receiver.callback / run_task)",
                  "recorders and shims of harness/drivers/pipeline_driver.py (recording result backend, virtual-time loop "
                  "with virtual-duration sync bodies, scripted wall clock standing in for time.time())",
                  "asyncio.wait_for / thread-pool behaviour as modelled by body_run (exercised, not verified)"],
    assumptions=["post_execute / post_save hooks may rewrite the shared TaskiqResult object: the theorems say what is saved "
                 "is the object as the hooks left it (res2); with result-preserving hooks it is the raw outcome",
                 "sync body under timeout <= 0 is a thread race (c_race): exercised through scripted eager / lazy executors only",
                 "functions registered one after the other under one task name declare the same dependencies (the Receiver "
                 "keeps signature, type hints and dependency graph per task NAME: corpus/C07/proposed/"
                 "reregistered_other_dependencies.json is a candidate finding, not part of the stream)"],
)


def nontrivial(case):
    lt = L.LabelTable(case)
    for i, M in enumerate(case["msgs"]):
        if M["kind"] != "ok":
            continue
        if "raise" in M["out"] or M["dep"] == "fail":
            return True
        t = L.effective_tmo(case, M, lt)
        dur = sum(s for s in M["segs"] if s) * 1000
        if t is not None and t > 0 and dur * 2 >= t and dur <= 2 * t:
            return True
        if not M.get("save_ok", True) and len(case["msgs"]) > 1:
            return True
    return False


ORACLES = [L.oracle_c07]


def run(ctx):
    rep = C.Report(ctx, META)
    rep.add_obligations(C.proof_obligations("C07"))
    # source tie: Receiver.callback re-translated from the source text; srcproofs/Src_callback_*.v re-checked against it
    src_obs, src_info = srctie.obligations(ctx, "callback", "C07")
    rep.add_obligations(src_obs)
    rep.extra["source_tie"] = src_info
    # source tie: Receiver.run_task (the meaning of callback's `await self.run_task(...)`) re-translated from the source
    # text; srcproofs/Src_run_task_C07.v re-checked against it
    rt_obs, rt_info = srctie.obligations(ctx, "run_task", "C07")
    rep.add_obligations(rt_obs)
    rep.extra["source_tie_run_task"] = rt_info
    L.explore(ctx, rep, "C07", L.load_corpus_cases("C07"), "corpus", ORACLES, nontrivial)
    r = ctx.sub_rng("gen")
    broken = L.explore(ctx, rep, "C07", [L.gen_recv(r, "c07") for _ in range(ctx.n(900, 20000))], "main", ORACLES,
                       nontrivial)
    if (broken or any(not o["ok"] for o in rep.obligations)) and not rep.failures:
        r2 = ctx.sub_rng("search")
        L.explore(ctx, rep, "C07", [L.gen_recv(r2, "c07") for _ in range(ctx.n(5000, 60000))], "search", ORACLES,
                  nontrivial)
    return L.finish(rep, "C07")


def replay(ctx, path):
    return L.replay(ctx, path, ORACLES)
