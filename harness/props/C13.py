"""C13 - a cron schedule is due exactly in the minutes its expression matches."""
import datetime as dt
import importlib.util
import json
import os
import re
import zoneinfo

import common as C
import srctie

US = 10**6
MIN = 60 * US
HOUR = 60 * MIN
DAY = 24 * HOUR
EP = dt.datetime(1970, 1, 1, tzinfo=dt.timezone.utc)
RANGES = [(0, 59), (0, 23), (1, 31), (1, 12), (0, 6)]
FNAMES = ["minute", "hour", "dom", "month", "dow"]
DST_ZONES = ["Europe/Berlin", "America/New_York", "Australia/Lord_Howe", "Pacific/Chatham"]
ODD_ZONES = ["Asia/Kolkata", "Asia/Kathmandu", "Australia/Lord_Howe", "America/St_Johns", "Pacific/Chatham"]
ZONES = sorted(set(DST_ZONES + ODD_ZONES + ["Africa/Casablanca", "UTC", "Pacific/Kiritimati", "Etc/GMT+12",
                                             "America/Sao_Paulo", "Asia/Tehran"]))
Y2015 = 1_420_070_400 * US
Y2035 = 2_051_222_400 * US

META = dict(
    id="C13",
    design_ref="DESIGN.md section 4, C13",
    technique="Coq proof (lia over Z microseconds, days-to-civil algorithm, structural induction over the expression) + "
              "differential correspondence with get_task_delay / pycron / pytz under a controlled clock",
    level_text="Theorems over the Gallina transcription `cron_due` of get_task_delay's cron branch (pycron 3.3.0's is_now on the "
               "numeric five-field grammar, instants in Z microseconds, civil fields by the days-to-civil algorithm): "
               "C13_due_iff (due <-> the relationally specified expression matches the minute of the shifted clock), "
               "C13_spec (matcher = denotation), C13_seconds_irrelevant, C13_utc_default, C13_civil_inverse (+ both directions "
               "of the calendar round trip, field ranges, day valid for its month, weekday = Zeller's congruence, epoch day "
               "Thursday) for ALL instants, expressions (steps >= 1) and shifts. The model is tied to /repo on every run by "
               "evaluating it in Coq (vm_compute) against the real get_task_delay on generated (expression, instant, offset) "
               "cases, together with a second proved-equivalent set-expansion form of the statement (C13_check) and CPython's "
               "own datetime fields of the shifted instant.",
    level_note="PARTIAL with respect to the statement's time-zone clause: pycron 3.3.0 and pytz are third-party code that is "
               "MODELLED (Cron.v; `tzoff` is a Section variable), not verified. DST correctness is 'pytz's conversion agrees "
               "with an independent reader (stdlib zoneinfo) of pytz's OWN bundled TZif files', sampled (minute-exhaustive "
               "around transitions on the thorough tier). Expressions: numeric grammar * | */n | lists of a, a-b, a-b/s with "
               "in-range values, a <= b, steps >= 1; names (MON, JAN), 7 for Sunday, step 0 and wrong field counts are outside "
               "the quantifier and only observed. Trusted: Coq kernel + vm_compute; the harness' rendering of the AST and "
               "datetime<->integer conversions; CPython datetime arithmetic.",
    rule="case = (expression AST rendered to text, instant in us, offset none | timedelta us | IANA zone, plain string or via "
         "CronSpec.to_cron); instants uniform 2015-2035 with the second of the minute pinned to 0 / 59.999999 / interior in "
         "a third of them (thorough adds minute-exhaustive sweeps of 12 day-long windows around DST transitions, a leap day "
         "and a year end); expressions aimed at the shifted minute (due), one field off (near miss) or random; non-trivial "
         "iff the expression is not all stars and the offset is not none; distinct by (expression, instant, offset); "
         "plus back-to-back groups (one case = up to 24 evaluations run in ONE driver process in order, time never "
         "backwards): one or two cron strings x 2-7 offsets (none / timedeltas / IANA zones, incl. the timedelta equal to "
         "a zone's shift) x 1-3 ticks (same UTC minute at increasing seconds in a random order of the schedules; then "
         "the next minute, the instant shifted by one of the offsets, +1 h / day / week), expression aimed at one "
         "(tick, offset) pair, every element judged on its own; "
         "35% of the random / all-zones cases and of the groups (one host per group) run on a HOST whose system time zone "
         "is not the harness' UTC (POSIX TZ strings east/west with whole-hour / 30 / 45 / 20 / 1 minute offsets, with and "
         "without DST; IANA names; some at the host zone's own transition), installed with time.tzset() in the driver, the "
         "controlled clock answering now() without tz with the host's local wall clock; a quarter of them with the "
         "expression pinned to the minute the HOST's clock shows; neither the oracle nor the model sees the host zone; "
         "40% of the groups build ONE ScheduledTask per distinct schedule and evaluate that object at every instant (the "
         "rest rebuild it per evaluation), 15% of the groups straddle a DST transition of one of their zones; "
         "plus label-source cases (one case = a real InMemoryBroker with 1-3 tasks whose `schedule` labels - 1-6 per task: "
         "labels differing only in cron_offset / only in args / only in kwargs / only in cron, an equal label twice (also "
         "as one dict object), the same label in two tasks, time labels and non-schedule entries in between - are listed by "
         "the REAL LabelScheduleSource.get_schedules() on one source object at 2-6 polls (directly / through "
         "run.get_schedules / run.get_all_schedules; source built before or after the tasks are registered; some polls "
         "re-evaluate the objects of the previous listing; post_send() of a due time label between polls), every listed "
         "ScheduledTask evaluated by get_task_delay; polls aimed at the instants at which each label's OWN wall clock shows "
         "the expression's minute); judged per listed object by the same oracle and per declared label: the number of listed "
         "schedules of a (task, args, kwargs) identity found due = the number of declared labels of that identity whose "
         "expression matches in their own zone",
    trusted_base=["model: coq/theories/Cron.v (hand-written transcription of get_task_delay's cron branch and of pycron 3.3.0 "
                  "is_now/_parse_arg on the numeric grammar) and coq/theories/Civil.v (days-to-civil; checked against CPython "
                  "datetime fields on every case)",
                  "tzoff (Section variable) = UTC offset read by stdlib zoneinfo from pytz's own bundled TZif files",
                  "third-party pycron 3.3.0 and pytz: modelled / exercised, not verified",
                  "AST -> text rendering and datetime<->integer conversion in harness/props/C13.py, harness/drivers/cron_driver.py",
                  "LabelScheduleSource / InMemoryBroker task registration: exercised (label-source family), not modelled"],
    assumptions=["cron steps >= 1 (pycron raises ZeroDivisionError / ValueError on step 0: outside the property's grammar)",
                 "the scheduler loop calling get_task_delay once per minute is C15, not this property"],
)


# --------------------------------------------------------------------------- oracle side (independent of the Coq model)
def _pytz_dir():
    return os.path.join(importlib.util.find_spec("pytz").submodule_search_locations[0], "zoneinfo")


_ZI = {}


def zi(zone):
    """stdlib TZif reader applied to pytz's OWN bundled data (system tzdata differs for future dates)"""
    z = _ZI.get(zone)
    if z is None:
        with open(os.path.join(_pytz_dir(), zone), "rb") as f:
            z = _ZI[zone] = zoneinfo.ZoneInfo.from_file(f, key=zone)
    return z


def td_us(d):
    return (d.days * 86400 + d.seconds) * US + d.microseconds


def shifted(now, off):
    """(wall clock the expression is read on, shift in us) by CPython datetime / zoneinfo"""
    t = EP + dt.timedelta(microseconds=now)
    if off is None:
        return t, 0
    if off["kind"] == "td":
        return t + dt.timedelta(microseconds=off["us"]), off["us"]
    loc = t.astimezone(zi(off["zone"]))
    return loc, td_us(loc.utcoffset())


def pyfields(loc):
    return (loc.minute, loc.hour, loc.day, loc.month, loc.isoweekday() % 7, loc.year)


def field_set(text, lo, hi):
    """the values one field of the numeric grammar names (ValueError outside the grammar)"""
    if text == "*":
        return set(range(lo, hi + 1))
    m = re.fullmatch(r"\*/([0-9]+)", text)
    if m:
        if int(m.group(1)) < 1:
            raise ValueError("step 0")
        return set(range(lo, hi + 1, int(m.group(1))))
    out = set()
    for it in text.split(","):
        m = re.fullmatch(r"([0-9]+)(?:-([0-9]+)(?:/([0-9]+))?)?", it)
        if not m:
            raise ValueError("not in the numeric grammar: %r" % it)
        a = int(m.group(1))
        b = int(m.group(2)) if m.group(2) is not None else a
        s = int(m.group(3)) if m.group(3) is not None else 1
        if s < 1:
            raise ValueError("step 0")
        out |= set(range(a, b + 1, s))
    return out


def oracle_due(cron, pf):
    """literal transcription of 'the expression matches this minute' (Vixie day rule)"""
    parts = cron.split(" ")
    if len(parts) != 5:
        raise ValueError("field count")
    hit = [v in field_set(p, lo, hi) for p, v, (lo, hi) in zip(parts, pf, RANGES)]
    mi, h, dom, mon, dow = hit
    day = (dom and dow) if (parts[2].startswith("*") or parts[4].startswith("*")) else (dom or dow)
    return mi and h and mon and day


# --------------------------------------------------------------------------- expressions
def render_item(i):
    return str(i[1]) if i[0] == "num" else "%d-%d" % (i[1], i[2]) if i[0] == "range" else "%d-%d/%d" % (i[1], i[2], i[3])


def render_field(f):
    return "*" if f[0] == "star" else "*/%d" % f[1] if f[0] == "sstep" else ",".join(render_item(i) for i in f[1])


def render(e):
    return " ".join(render_field(f) for f in e)


def coq_item(i):
    return "n %d" % i[1] if i[0] == "num" else "r %d %d" % (i[1], i[2]) if i[0] == "range" else "q %d %d %d" % tuple(i[1:])


def coq_field(f):
    return "X" if f[0] == "star" else "(P %d)" % f[1] if f[0] == "sstep" else "(I [%s])" % "; ".join(coq_item(i) for i in f[1])


def coq_expr(e):
    return "(mkE " + " ".join(coq_field(f) for f in e) + ")"


def item_hit(i, v):
    return v == i[1] if i[0] == "num" else i[1] <= v <= i[2] if i[0] == "range" else v in range(i[1], i[2] + 1, i[3])


def field_hit(f, v, lo):
    return True if f[0] == "star" else (v - lo) % f[1] == 0 if f[0] == "sstep" else any(item_hit(i, v) for i in f[1])


def rand_item(r, lo, hi):
    a = r.randint(lo, hi)
    b = r.randint(a, hi)
    c = r.random()
    return ["num", a] if c < .45 else ["range", a, b] if c < .75 else ["rs", a, b, r.randint(1, hi if c < .8 else max(1, hi // 2))]


def rand_field(r, lo, hi):
    k = r.random()
    if k < .25:
        return ["star"]
    if k < .4:
        return ["sstep", r.randint(1, hi + (5 if r.random() < .1 else 0))]
    return ["items", [rand_item(r, lo, hi) for _ in range(r.choice([1, 1, 2, 3]))]]


def hit_item(r, lo, hi, v):
    c = r.random()
    if c < .4:
        return ["num", v]
    a, b = r.randint(lo, v), r.randint(v, hi)
    if c < .7:
        return ["range", a, b]
    s = r.randint(1, max(1, hi // 3))
    return ["rs", v - s * r.randint(0, (v - lo) // s), b, s]


def hit_field(r, lo, hi, v):
    """a field of a random form that names v"""
    k = r.random()
    if k < .22:
        return ["star"]
    if k < .4:
        ds = [n for n in range(1, hi + 1) if (v - lo) % n == 0]
        return ["sstep", r.choice(ds)]
    items = [rand_item(r, lo, hi) for _ in range(r.choice([0, 0, 1, 2]))]
    items.insert(r.randint(0, len(items)), hit_item(r, lo, hi, v))
    return ["items", items]


def miss_field(r, lo, hi, v):
    """a non-star field that does not name v (None if it cannot be found quickly)"""
    for _ in range(40):
        f = rand_field(r, lo, hi)
        if f[0] != "star" and not field_hit(f, v, lo):
            return f
    return None


def gen_expr(r, pf, mode=None):
    """mode: 'due' (every field names its value), 'near' (as due, one field replaced by a miss), 'rand'"""
    mode = mode or r.choices(["due", "near", "rand"], [.3, .35, .35])[0]
    if mode == "rand":
        e = [rand_field(r, lo, hi) for lo, hi in RANGES]
        if r.random() < .4:   # thin expressions are due far more often
            keep = r.sample(range(5), r.choice([1, 2]))
            e = [f if i in keep else ["star"] for i, f in enumerate(e)]
        return e, mode
    e = [hit_field(r, lo, hi, v) for (lo, hi), v in zip(RANGES, pf)]
    if mode == "near":
        k = r.randrange(5)
        m = miss_field(r, *RANGES[k], pf[k])
        if m is not None:
            e[k] = m
    elif e[2][0] == "items" and e[4][0] == "items" and r.random() < .5:
        # both day fields restricted: the OR rule needs only one of them
        k = r.choice([2, 4])
        m = miss_field(r, *RANGES[k], pf[k])
        if m is not None and m[0] == "items":
            e[k] = m
    return e, mode


def pin_expr(pf):
    return [["items", [["num", pf[0]]]], ["items", [["num", pf[1]]]], ["items", [["num", pf[2]]]],
            ["items", [["num", pf[3]]]], ["star"]]


TD_GRID = sorted(set(
    [k * 30 * MIN for k in range(-52, 53)] +
    [s * v for s in (1, -1) for v in (1, US, 30 * US, 59 * US + 999_999, MIN - 1, MIN + 1, HOUR + 30 * US + 500_000,
                                      26 * HOUR - 1, 25 * HOUR + 59 * MIN + 59 * US + 999_999, 13 * HOUR + 45 * MIN,
                                      5 * HOUR + 45 * MIN + 1)]))
SECONDS = [0, 59 * US + 999_999, 30 * US, 1, 59 * US, US - 1, 17 * US + 123_456]


def gen_off(r):
    k = r.random()
    if k < .2:
        return None
    if k < .55:
        return {"kind": "td", "us": r.choice([r.randrange(-26 * HOUR, 26 * HOUR + 1), r.choice(TD_GRID),
                                              r.randrange(-26 * 60, 26 * 60 + 1) * MIN])}
    return {"kind": "zone", "zone": r.choice(ZONES)}


def finish_case(r, c, e, mode):
    c["expr"], c["cron"], c["mode"] = e, render(e), mode
    if r.random() < .2:   # through CronSpec.to_cron, single numbers as int
        c["spec"] = [f[1][0][1] if f[0] == "items" and len(f[1]) == 1 and f[1][0][0] == "num" and r.random() < .5
                     else render_field(f) for f in e]
    return c


# The time zone of the HOST the scheduler runs on (TZ / /etc/localtime): an input the statement does not mention (the
# expression is read on the UTC clock shifted by the schedule's own offset, whatever the machine's zone).  POSIX TZ
# strings ((string, standard, DST offset) in minutes east of UTC; no zone database needed) and IANA names resolved by the
# C library.  The offsets here only AIM expressions at the host's wall clock; the oracle and the model never see the host.
HOSTS_POSIX = [("UTC0", 0, 0), ("MSK-3", 180, 180), ("EST5EDT", -300, -240), ("EST5", -300, -300), ("IST-5:30", 330, 330),
               ("NPT-5:45", 345, 345), ("NZST-12NZDT", 720, 780), ("<+14>-14", 840, 840), ("<-12>12", -720, -720),
               ("NST3:30NDT", -210, -150), ("AEST-10AEDT,M10.1.0,M4.1.0/3", 600, 660), ("CET-1CEST", 60, 120),
               ("GMT0BST", 0, 60), ("PST8PDT", -480, -420), ("<+0020>-0:20", 20, 20), ("<-0001>0:01", -1, -1)]
HOSTS_IANA = [z for z in ZONES if z != "UTC"] + ["Asia/Tokyo", "America/Los_Angeles", "Europe/London"]
HOST_SHARE = .35


def pick_host(r, now, may_move=True):
    """(TZ string, kind, now, the host's UTC offset in us as far as the generator knows it)"""
    k = r.random()
    if k < .15 and may_move:   # an IANA host at one of ITS OWN transitions: its naive local clock repeats / skips an hour
        z = r.choice(DST_ZONES)
        T = r.choice(transitions_cached(z, r.choice([2019, 2024, 2026, 2027, 2031]))[:2])
        now = T + (r.randrange(-2 * MIN, 2 * MIN) if r.random() < .5 else r.randrange(-2 * HOUR, 2 * HOUR))
        return z, "iana-at-own-transition", now, shifted(now, {"kind": "zone", "zone": z})[1]
    if k < .6:
        h, a, b = r.choice(HOSTS_POSIX)
        return h, "posix", now, r.choice([a, b]) * MIN
    z = r.choice(HOSTS_IANA)
    return (":" if r.random() < .1 else "") + z, "iana", now, shifted(now, {"kind": "zone", "zone": z})[1]


def host_pin(now, hoff):
    """the expression that names exactly the minute the HOST's local wall clock shows"""
    return pin_expr(pyfields(EP + dt.timedelta(microseconds=now + hoff)))


def gen_case(r):
    now = r.randrange(Y2015, Y2035)
    if r.random() < .35:
        now = now // MIN * MIN + r.choice(SECONDS)
    off = gen_off(r)
    host = None
    if r.random() < HOST_SHARE:
        host = pick_host(r, now)
        now = host[2]
    if off is not None and off["kind"] == "td" and r.random() < .3:
        # the SHIFTED clock within 2 us of a minute boundary (sub-minute offsets decide the minute)
        now = now // MIN * MIN - off["us"] % MIN + r.choice([-2, -1, 0, 1])
    loc, _ = shifted(now, off)
    e, mode = gen_expr(r, pyfields(loc))
    c = dict(now=now, off=off)
    if host is not None:
        c["host"], c["hostkind"] = host[0], host[1]
        if r.random() < .25:   # due only for code that reads the machine's local clock
            e, mode = host_pin(now, host[3]), "pin-host-clock"
    return finish_case(r, c, e, mode)


def transitions(zone, year, step_hours=1):
    """UTC instants (us) in `year` at which the zone's offset changes, found by scanning the oracle reader"""
    z = zi(zone)
    t = dt.datetime(year, 1, 1, tzinfo=dt.timezone.utc)
    end = dt.datetime(year + 1, 1, 1, tzinfo=dt.timezone.utc)
    out, prev = [], t.astimezone(z).utcoffset()
    while t < end:
        n = t + dt.timedelta(hours=step_hours)
        if n.astimezone(z).utcoffset() != prev:
            lo, hi = t, n
            while hi - lo > dt.timedelta(minutes=1):
                mid = lo + (hi - lo) / 2
                mid = mid.replace(second=0, microsecond=0)
                if mid.astimezone(z).utcoffset() == prev:
                    lo = mid
                else:
                    hi = mid
            out.append(td_us(hi - EP))
            prev = n.astimezone(z).utcoffset()
        t = n
    return out


def sweep_windows(r):
    """12 day-long windows: both transitions of 4 DST zones (centred on the transition), a leap day, a year end,
    a month end and one seed-chosen day"""
    w = []
    for z in DST_ZONES:
        year = r.choice([2019, 2024, 2026, 2027, 2031])
        for T in transitions(z, year)[:2]:
            w.append((T // MIN * MIN - 12 * HOUR, z))
    w.append((td_us(dt.datetime(2028, 2, 28, 18, tzinfo=dt.timezone.utc) - EP), None))
    w.append((td_us(dt.datetime(2027, 12, 31, 9, tzinfo=dt.timezone.utc) - EP), None))
    w.append((td_us(dt.datetime(2026, 4, 30, 10, tzinfo=dt.timezone.utc) - EP), None))
    w.append((r.randrange(Y2015, Y2035 - DAY) // MIN * MIN, None))
    return w


def gen_sweep(r, windows, stride=1):
    """minute-exhaustive: every minute of each window with the transitioning zone, a 30/45-minute zone, no offset
    and one timedelta of the +-26 h grid (cycled), each with an aimed and a near-miss / random / wrong-side expression"""
    cases = []
    for wi, (start, zt) in enumerate(windows):
        for j in range(0, 1440, stride):
            base = start + j * MIN
            offs = [{"kind": "zone", "zone": zt or ZONES[(wi + j) % len(ZONES)]},
                    {"kind": "zone", "zone": ODD_ZONES[(j + wi) % len(ODD_ZONES)]},
                    None,
                    {"kind": "td", "us": TD_GRID[(j * 7 + wi) % len(TD_GRID)]}]
            for oi, off in enumerate(offs):
                now = base + SECONDS[(j + oi) % len(SECONDS)]
                loc, sh = shifted(now, off)
                pf = pyfields(loc)
                e, mode = gen_expr(r, pf, "due")
                cases.append(finish_case(r, dict(now=now, off=off, sweep=wi), e, mode))
                now2 = base + SECONDS[(j + oi + 3) % len(SECONDS)]
                if oi == 0 and zt is not None and j % 2 == 0:
                    # pinned to the wall clock of the OTHER side of the transition: due only if the wrong offset is used
                    other = shifted(start if j >= 720 else start + DAY - MIN, off)[1]
                    wrong = EP + dt.timedelta(microseconds=now2 + other)
                    e, mode = pin_expr(pyfields(wrong)), "pin-other-side"
                elif j % 3 == 0:
                    e, mode = pin_expr(pyfields(shifted(now2, off)[0])), "pin"
                else:
                    e, mode = gen_expr(r, pyfields(shifted(now2, off)[0]), r.choice(["near", "near", "rand"]))
                cases.append(finish_case(r, dict(now=now2, off=off, sweep=wi), e, mode))
    return cases


def gen_allzones(r, nzones, per_zone, around_transitions):
    """breadth over the zone set: pytz.common_timezones, random instants (and, thorough, the minutes around one
    transition of the zone), expression pinned to the local minute (due) or to the UTC minute / a near miss"""
    import pytz   # only for the list of names and to locate its data; no taskiq code runs in this process
    zones = sorted(pytz.common_timezones)
    zones = zones if nzones is None else r.sample(zones, nzones)
    cases = []
    for z in zones:
        off = {"kind": "zone", "zone": z}
        instants = [r.randrange(Y2015, Y2035) for _ in range(per_zone)]
        if around_transitions:
            tr = transitions(z, r.choice([2016, 2021, 2026, 2029, 2033]), step_hours=36)
            for T in tr[:2]:
                instants += [T - 1, T, T + MIN - 1, T - MIN, T + HOUR, T - HOUR + 30 * US]
        for now in instants:
            loc, sh = shifted(now, off)
            k = r.random()
            if k < .5:
                e, mode = pin_expr(pyfields(loc)), "pin"
            elif k < .75:
                e, mode = pin_expr(pyfields(EP + dt.timedelta(microseconds=now))), "pin-utc-clock"
            else:
                e, mode = gen_expr(r, pyfields(loc), "near")
            c = dict(now=now, off=off)
            if r.random() < HOST_SHARE:
                h = pick_host(r, now, may_move=False)
                c["host"], c["hostkind"] = h[0], h[1]
                if r.random() < .25:
                    e, mode = host_pin(now, h[3]), "pin-host-clock"
            cases.append(finish_case(r, c, e, mode))
    return cases


_TR = {}


def transitions_cached(zone, year):
    if (zone, year) not in _TR:
        _TR[zone, year] = transitions(zone, year)
    return _TR[zone, year]


GROUP_CAP = 24


def gen_group(r):
    """one back-to-back group = what a long-lived scheduler process does: a few schedules that share one or two cron
    strings but differ in cron_offset (none / timedeltas / IANA zones), all evaluated tick after tick in ONE process.
    Time never runs backwards inside a group; within a tick (one UTC minute) the schedules come in a random order at
    increasing seconds.  Later ticks revisit the same (expression, offset) at other instants: the next minute, the
    instant whose UTC clock shows what an offset's wall clock showed at the first tick, +1 h / +1 day / +1 week.
    The expressions are aimed at the wall clock of ONE (tick, offset) pair, so the verdict differs between the offsets
    of a tick: whatever the code keeps between calls (a memoised verdict, a reused datetime, ...) shows as a wrong
    element.  Every element is an ordinary case judged on its own (the statement and the model are stateless)."""
    zfirst, late = [], None
    if r.random() < .25:
        z = r.choice(DST_ZONES)
        T = r.choice(transitions_cached(z, r.choice([2019, 2024, 2026, 2027, 2031]))[:2])
        base, zfirst = T + r.randrange(-3 * HOUR, 3 * HOUR), [z]
        if r.random() < .6:   # the ticks straddle the transition: the zone's shift changes between two evaluations of a schedule
            base, late = T - r.randrange(MIN, 3 * HOUR), T // MIN * MIN + r.randrange(0, 180) * MIN
    else:
        base = r.randrange(Y2015, Y2035)
    base = base // MIN * MIN
    zs = zfirst + r.sample([z for z in ZONES if z not in zfirst], r.choice([1, 2, 2, 3]))
    offs = [{"kind": "zone", "zone": z} for z in zs]
    if r.random() < .8:
        offs.append(None)
    for _ in range(r.choice([0, 1, 1, 2])):
        k = r.random()
        if k < .4:     # the timedelta equal to a zone's shift at the first tick: the same wall clock by the other route
            us = shifted(base, r.choice(offs[:len(zs)]))[1]
        elif k < .5:
            us = 0
        else:
            us = r.choice([r.randrange(-26 * HOUR, 26 * HOUR + 1), r.choice(TD_GRID), r.randrange(-26 * 60, 26 * 60 + 1) * MIN])
        offs.append({"kind": "td", "us": us})
    offs = [o for i, o in enumerate(offs) if o not in offs[:i]]
    if len(offs) < 2:
        offs.append(None)
    ticks = [base]
    for _ in range(r.choice([0, 1, 1, 2])):
        k = r.random()
        sh = shifted(base, r.choice(offs))[1] // MIN * MIN
        if k < .4 and sh != 0:
            ticks.append(base + sh * r.choice([1, 1, -1]))
        elif k < .6:
            ticks.append(base + MIN)
        elif k < .9:
            ticks.append(base + r.choice([HOUR, DAY, 7 * DAY]))
        else:
            ticks.append(base + r.randrange(1, 3 * 1440) * MIN)
    if late is not None:
        ticks.append(late)
    ticks = sorted(set(ticks))
    # the whole group runs on ONE host (a scheduler process has one system zone), in a third of the groups not UTC
    host = pick_host(r, base, may_move=False) if r.random() < HOST_SHARE else None
    exprs = []
    for _ in range(r.choice([1, 1, 2])):
        aim = shifted(r.choice(ticks) + r.randrange(MIN), r.choice(offs))[0]
        if late is not None and r.random() < .6:   # the transitioning zone's wall clock AFTER the transition
            aim = shifted(late + r.randrange(MIN), offs[0])[0]
        mode = r.choices(["pin", "due", "near", "rand"], [.45, .3, .15, .1])[0]
        if host is not None and r.random() < .25:
            exprs.append((host_pin(r.choice(ticks), host[3]), "pin-host-clock"))
            continue
        exprs.append((pin_expr(pyfields(aim)), mode) if mode == "pin" else gen_expr(r, pyfields(aim), mode))
    per_tick = max(2, GROUP_CAP // len(ticks))
    elems = []
    for t in ticks:
        pairs = [(e, m, o) for e, m in exprs for o in offs]
        r.shuffle(pairs)
        pairs = pairs[:per_tick]
        secs = sorted(r.sample(range(MIN), len(pairs)))
        if r.random() < .3:
            secs[0], secs[-1] = 0, MIN - 1
        for (e, m, o), s in zip(pairs, secs):
            c = dict(now=t + s, off=o)
            if host is not None:
                c["host"], c["hostkind"] = host[0], host[1]
            elems.append(finish_case(r, c, e, "group:" + m))
    g = dict(group=elems, mode="group")
    if r.random() < .4:   # ONE ScheduledTask per distinct schedule, evaluated at every instant (a source that keeps its objects)
        g["objs"] = "once"
    return g


# --------------------------------------------------------------------------- schedules declared as task labels
# The schedules of a deployment are not ScheduledTask objects somebody builds by hand: they are `schedule` labels of tasks,
# listed minute after minute by LabelScheduleSource.get_schedules() on one long-lived source object.  One case = one
# broker with 1-3 tasks x 1-6 labels and 2-6 polls; every listed ScheduledTask is evaluated by get_task_delay at every poll.
LS_ARGS = [[], [1], [2], ["a"]]
LS_KWARGS = [{}, {"k": 1}, {"k": 2}]
LS_NAMES = ["t0", "t1", "t2", "job", "job:daily", "mod:job", "pkg.mod:job"]
LS_SHAPES = ["offset-only", "offset-only", "offset-only", "args-only", "kwargs-only", "equal-twice", "cron-only", "single",
             "offset-and-args"]
LS_LABEL_CAP = 12


def ls_content(l):
    return {k: v for k, v in l.items() if k in ("cron", "off", "args", "kwargs")}


def gen_labelsrc(r):
    zfirst, late = [], None
    if r.random() < .25:
        z = r.choice(DST_ZONES)
        T = r.choice(transitions_cached(z, r.choice([2019, 2024, 2026, 2027, 2031]))[:2])
        base, zfirst = T + r.randrange(-3 * HOUR, 3 * HOUR), [z]
        if r.random() < .6:   # the polls straddle the transition
            base, late = T - r.randrange(MIN, 3 * HOUR), T // MIN * MIN + r.randrange(0, 180) * MIN
    else:
        base = r.randrange(Y2015, Y2035)
    base = base // MIN * MIN
    zs = zfirst + r.sample([z for z in ZONES if z not in zfirst], r.choice([1, 2, 2, 3]))
    pool = [{"kind": "zone", "zone": z} for z in zs] + [None]
    for _ in range(r.choice([0, 1, 1, 2])):
        k = r.random()
        if k < .4:
            us = shifted(base, r.choice(pool[:len(zs)]))[1]
        elif k < .5:
            us = 0
        else:
            us = r.choice([r.randrange(-26 * HOUR, 26 * HOUR + 1), r.choice(TD_GRID), r.randrange(-26 * 60, 26 * 60 + 1) * MIN])
        pool.append({"kind": "td", "us": us})
    pool = [o for i, o in enumerate(pool) if o not in pool[:i]]
    host = pick_host(r, base, may_move=False) if r.random() < HOST_SHARE else None
    o0 = pool[0] if late is not None else r.choice(pool)
    wall, sh0 = shifted(base, o0)
    pf = pyfields(wall)

    def aimed():
        k = r.random()
        if host is not None and k < .2:      # daily at the minute the HOST's clock shows at `base`
            hp = host_pin(base, host[3])
            return [hp[0], hp[1], ["star"], ["star"], ["star"]], "daily-host-clock"
        if k < .4:                            # "every day at hh:mm" - in each label's own zone
            return [["items", [["num", pf[0]]]], ["items", [["num", pf[1]]]], ["star"], ["star"], ["star"]], "daily"
        if k < .55:                           # "hh:mm on working days"
            a = r.randint(0, pf[4])
            return [["items", [["num", pf[0]]]], ["items", [["num", pf[1]]]], ["star"], ["star"],
                    ["items", [["range", a, r.randint(pf[4], 6)]]]], "weekdays"
        if k < .7:
            return pin_expr(pf), "pin"
        return gen_expr(r, pf, r.choice(["due", "due", "near", "rand"]))

    exprs = [aimed() for _ in range(r.choice([1, 1, 2]))]
    if late is not None:    # what the transitioning zone's wall clock shows at the poll AFTER the transition
        lpf = pyfields(shifted(late, pool[0])[0])
        exprs[-1] = (pin_expr(lpf), "pin") if r.random() < .5 else gen_expr(r, lpf, "due")

    def lab(e, o, a, kw):
        l = dict(cron=render(e[0]), expr=e[0], emode=e[1], off=o)
        if o is None and r.random() < .3:
            l["offkey"] = True               # "cron_offset": None spelled out
        if a or r.random() < .5:
            l["args"] = a
        if kw or r.random() < .5:
            l["kwargs"] = kw
        if r.random() < .15:
            l["labels"] = {"x": r.randint(0, 3)}
        return l

    tasks, shapes, total = [], [], 0
    names = r.sample(LS_NAMES, 3)
    for ti in range(r.choice([1, 1, 2, 2, 3])):
        labels = []
        for shape in r.sample(LS_SHAPES, r.choice([1, 1, 2])):
            e, a, kw, o = r.choice(exprs), r.choice(LS_ARGS), r.choice(LS_KWARGS), r.choice(pool)
            shapes.append(shape)
            if shape == "offset-only":
                labels += [lab(e, o2, a, kw) for o2 in r.sample(pool, min(len(pool), r.choice([2, 2, 3, 4])))]
            elif shape == "offset-and-args":
                labels += [lab(e, o2, r.choice(LS_ARGS), kw) for o2 in r.sample(pool, min(len(pool), r.choice([2, 3])))]
            elif shape == "args-only":
                labels += [lab(e, o, a2, kw) for a2 in r.sample(LS_ARGS, r.choice([2, 3]))]
            elif shape == "kwargs-only":
                labels += [lab(e, o, a, k2) for k2 in r.sample(LS_KWARGS, r.choice([2, 3]))]
            elif shape == "equal-twice":
                l = lab(e, o, a, kw)
                l2 = json.loads(json.dumps(l))
                if r.random() < .4:
                    l2["sameobj"] = True
                labels += [l, l2]
            elif shape == "cron-only":
                labels += [lab(e, o, a, kw), lab(aimed(), o, a, kw)]
            else:
                labels.append(lab(e, o, a, kw))
        if tasks and r.random() < .3:   # a label of an earlier task again, in this task
            src = [l for l in tasks[-1]["schedule"] if "cron" in l]
            if src:
                labels.append({k: v for k, v in json.loads(json.dumps(r.choice(src))).items() if k != "same"})
        if r.random() < .5:
            r.shuffle(labels)
        labels = labels[:max(1, min(6, LS_LABEL_CAP - total))]
        total += len(labels)
        k = r.random()
        if k < .12:      # a time schedule far in the future: listed, never due, not a cron schedule
            labels.insert(r.randint(0, len(labels)), {"time": Y2035 + r.randrange(DAY)})
        elif k < .22:    # a label that is no schedule at all: skipped by the source
            labels.insert(r.randint(0, len(labels)), {"junk": 1, "args": [9]})
        elif k < .32:    # a time schedule already past: due once, then post_send() pops the label and later labels move up
            labels.insert(r.randint(0, max(0, len(labels) - 1)), {"time": base - r.randrange(1, 30) * DAY, "past": True})
        for i, l in enumerate(labels):
            if l.pop("sameobj", False):
                js = [j for j in range(i) if "cron" in labels[j] and "same" not in labels[j]
                      and ls_content(labels[j]) == ls_content(l) and labels[j].get("labels") == l.get("labels")
                      and labels[j].get("offkey") == l.get("offkey")]
                if js:
                    l["same"] = js[0]    # the very same dict object appears twice in the list
        t = dict(name=names[ti], decl=r.choice(["register", "decorator"]), schedule=labels)
        if r.random() < .2:
            t["extra"] = {"queue": "q%d" % ti}
        tasks.append(t)
        if total >= LS_LABEL_CAP:
            break
    used = []
    for t in tasks:
        for l in t["schedule"]:
            if "cron" in l and l["off"] not in used:
                used.append(l["off"])
    cand = [(base + sh0 - shifted(base, o)[1]) // MIN * MIN for o in used]   # o's wall clock shows what o0's shows at base
    cand = [t for i, t in enumerate(cand) if t not in cand[:i]]
    mins = r.sample(cand, min(len(cand), r.choice([2, 3, 4])))
    if base not in mins and r.random() < .5:
        mins.append(base)
    for _ in range(r.choice([0, 1, 1, 2])):
        k, t = r.random(), r.choice(mins)
        mins.append(t if k < .15 else t + MIN if k < .4 else t + r.choice([HOUR, DAY, 7 * DAY]) if k < .85
                    else t + r.randrange(1, 3 * 1440) * MIN)
    mins = sorted(mins)[:6]
    if late is not None:
        mins = sorted(set(mins[:5] + [late]))
    edge = r.random() < .3
    polls, last = [], -1
    past = any(l.get("past") for t in tasks for l in t["schedule"])
    for i, m in enumerate(mins):   # the same minute may be polled twice (second 0 and 59.999999 when `edge`)
        if edge:
            sec = r.choice([0, MIN - 1]) if mins.count(m) == 1 else 0 if mins[:i].count(m) == 0 else MIN - 1
        else:
            sec = r.randrange(MIN)
        now = min(max(m + sec, last + 1), m + MIN - 1)
        if now <= last:
            continue
        last = now
        p = dict(now=now)
        if i and r.random() < (.5 if late is not None else .2):
            p["relist"] = False          # the objects of the previous listing are evaluated again at this instant
        if i and r.random() < .08:
            p["newsrc"] = True
        p["via"] = r.choice(["source", "run.get_schedules", "get_all_schedules", "get_all_schedules"])
        if past:
            p["post_send"] = True
        polls.append(p)
    L = dict(tasks=tasks, polls=polls, src_first=r.random() < .5, shapes=shapes)
    if host is not None:
        L["host"], L["hostkind"] = host[0], host[1]
    return dict(labelsrc=L, mode="labelsrc")


def ls_key(name, args, kwargs):
    return C.canon([name, args, kwargs])


def ls_listed_off(o):
    """the offset the LISTED ScheduledTask carries (what get_task_delay was given)"""
    if o.get("offtype") == "NoneType":
        return None
    if "off_us" in o:
        return {"kind": "td", "us": o["off_us"]}
    if "off_zone" in o:
        return {"kind": "zone", "zone": o["off_zone"]}
    raise ValueError("offset of type %s" % o.get("offtype"))


def judge_labelsrc(L, O):
    """The statement over schedules DECLARED as labels.  Per poll: {"crash"} or {"elements": [(element case, its
    observation, due by the statement for the offset the listed object carries)], "declared": [(task, label, due by the
    statement in the label's OWN zone)], "bad": [(key, want, got)]}.  A declared cron schedule is identified by what the
    scheduler would send for it - (task name, args, kwargs): at every poll the number of listed schedules of that identity
    that get_task_delay considers due must be the number of declared labels of that identity whose expression matches the
    minute of the clock shifted by the label's own offset.  (Nothing is demanded of the order of the listing, of
    schedule ids, of the offsets' representation or of schedules that are listed but not due.)"""
    asts = {}
    for t in L["tasks"]:
        for l in t["schedule"]:
            if "cron" in l:
                asts.setdefault(l["cron"], l["expr"])
    out = []
    for p, po in zip(L["polls"], O.get("polls") or [{"_crash": O.get("_crash", "no observation")}] * len(L["polls"])):
        if "_crash" in po:
            out.append(dict(crash=po["_crash"]))
            continue
        want, got, declared, elements, raised = {}, {}, [], [], []
        for t in L["tasks"]:
            for l in t["schedule"]:
                if "cron" not in l:
                    continue
                due = oracle_due(l["cron"], pyfields(shifted(p["now"], l["off"])[0]))
                k = ls_key(t["name"], l.get("args", []), l.get("kwargs", {}))
                want[k] = want.get(k, 0) + (1 if due else 0)
                declared.append((t["name"], l, due))
        for o in po["listed"]:
            if o.get("cron") is None:
                continue
            k = ls_key(o["task_name"], o["args"], o["kwargs"])
            if "raised" in o or "_crash" in o:
                raised.append(o)
                continue
            if o["delay"] == 0:
                got[k] = got.get(k, 0) + 1
            e = dict(now=p["now"], off=ls_listed_off(o), cron=o["cron"], expr=asts.get(o["cron"]), mode="labelsrc")
            try:
                w = oracle_due(o["cron"], pyfields(shifted(p["now"], e["off"])[0]))
            except Exception:   # a listed expression / zone the statement's grammar does not read: only the counts judge it
                w = None
            elements.append((e, o, w))
        bad = [(k, want.get(k, 0), got.get(k, 0)) for k in sorted(set(want) | set(got)) if want.get(k, 0) != got.get(k, 0)]
        out.append(dict(elements=elements, declared=declared, bad=bad, raised=raised))
    return out


LS_NOTE = " [schedules declared as task labels, listed by LabelScheduleSource.get_schedules() poll after poll]"


def ls_pair_counts(rep, L):
    for t in L["tasks"]:
        ls = [l for l in t["schedule"] if "cron" in l]
        rep.count("labelsrc:cron-labels-per-task=%d" % len(ls))
        for i, a in enumerate(ls):
            for b in ls[:i]:
                same = [a[k] == b[k] for k in ("cron", "off")] + [a.get("args", []) == b.get("args", []),
                                                                  a.get("kwargs", {}) == b.get("kwargs", {})]
                if all(same):
                    rep.count("labelsrc:label-pair:equal twice" + (" (one dict object)" if "same" in a else ""))
                elif same == [True, False, True, True]:
                    rep.count("labelsrc:label-pair:differ only in cron_offset")
                elif same == [True, True, False, True]:
                    rep.count("labelsrc:label-pair:differ only in args")
                elif same == [True, True, True, False]:
                    rep.count("labelsrc:label-pair:differ only in kwargs")
                elif same == [False, True, True, True]:
                    rep.count("labelsrc:label-pair:differ only in cron")
        for l in t["schedule"]:
            if "cron" not in l:
                rep.count("labelsrc:non-cron-label:" + ("time (past, popped by post_send)" if l.get("past") else
                                                        "time (future)" if "time" in l else "no schedule"))
    ts = L["tasks"]
    for i, a in enumerate(ts):
        for b in ts[:i]:
            if any(ls_content(x) == ls_content(y) for x in a["schedule"] for y in b["schedule"] if "cron" in x and "cron" in y):
                rep.count("labelsrc:two tasks with an equal label")
            elif any(x["cron"] == y["cron"] and x.get("args", []) == y.get("args", []) and x["off"] != y["off"]
                     for x in a["schedule"] for y in b["schedule"] if "cron" in x and "cron" in y):
                rep.count("labelsrc:two tasks with labels differing only in cron_offset")


def explore_labels(ctx, rep, cases, label):
    obs = C.run_driver(ctx, "cron_driver", cases, nproc=min(C.NPROC, 1 + len(cases) // 25))
    lits, keep = [], []
    for c, O in zip(cases, obs):
        L = c["labelsrc"]
        rep.count("labelsrc:cases")
        rep.count("labelsrc:tasks=%d" % len(L["tasks"]))
        rep.count("labelsrc:polls=%d" % len(L["polls"]))
        rep.count("labelsrc:source built " + ("before" if L.get("src_first") else "after") + " the tasks are registered")
        for sh in L.get("shapes", []):
            rep.count("labelsrc:shape:" + sh)
        ls_pair_counts(rep, L)
        if "_crash" in O:
            rep.fail("cron driver crashed" + LS_NOTE, c, observed=O["_crash"])
            continue
        for pi, (p, po, j) in enumerate(zip(L["polls"], O["polls"], judge_labelsrc(L, O))):
            rec = dict(labelsrc=dict(L, polls=L["polls"][:pi + 1]), at=pi, mode="labelsrc")
            if "crash" in j:
                rep.fail("listing the schedule labels raised" + LS_NOTE, rec, observed=j["crash"])
                continue
            rep.count("labelsrc:poll:" + ("listed again" if po.get("relisted") else "objects of the previous listing evaluated again"))
            if po.get("relisted"):
                rep.count("labelsrc:via:" + (p.get("via") or "source"))
            if p.get("newsrc"):
                rep.count("labelsrc:poll:new source object")
            if any(o.get("same_obj_as_prev") for o in po["listed"]):
                rep.count("labelsrc:poll:evaluates objects already evaluated at the previous poll")
            # polls at which labels of one identity (task, cron, args, kwargs) that differ in cron_offset get different verdicts
            byid = {}
            for name, l, due in j["declared"]:
                byid.setdefault(C.canon([name, l["cron"], l.get("args", []), l.get("kwargs", {})]), set()).add((C.canon(l["off"]), due))
            if any(len({d for _, d in v}) > 1 for v in byid.values()):
                rep.count("labelsrc:poll:labels differing only in cron_offset, due under one, not due under another")
            for o in j["raised"]:
                rep.fail("get_task_delay raised on a schedule declared as a label" + LS_NOTE, rec, observed=o, sig=dict(kind="raised"))
            for e, o, w in j["elements"]:
                rep.case(e, e["expr"] is not None and nontrivial(e))
                rep.count("labelsrc:listed-evaluations")
                rep.count("offset:" + ("none" if e["off"] is None else e["off"]["kind"]))
                rep.count("mode:labelsrc")
                rep.count("host-zone:" + (L.get("hostkind") or "UTC (harness default)"))
                rep.count("second-of-minute:" + ("0" if e["now"] % MIN == 0 else "59.999999" if e["now"] % MIN == MIN - 1
                                                 else "interior"))
                d = o["delay"]
                rep.count("outcome:" + ("due" if d == 0 else "not-due"))
                if o.get("badtype"):
                    rep.fail("get_task_delay returned neither 0 nor None for a cron schedule" + LS_NOTE, rec, observed=d)
                    continue
                if w is None or e["expr"] is None:
                    rep.count("labelsrc:listed schedule with an expression / zone that was not declared")
                    continue
                loc, sh = shifted(e["now"], e["off"])
                pf = pyfields(loc)
                branch_counts(rep, e, pf, w)
                if (d == 0) != w:
                    rep.fail("cron schedule %s in a minute its expression %s" % (
                        ("reported due", "does not match") if d == 0 else ("not reported due", "matches")) + LS_NOTE, rec,
                        observed=dict(delay=d, cron=o["cron"], task=o["task_name"]),
                        expected=dict(due=w, fields_minute_hour_dom_month_dow_year=pf, shift_us=sh),
                        sig=dict(kind="polarity", got_due=(d == 0), offset="none" if e["off"] is None else e["off"]["kind"],
                                 in_labelsrc=True))
                lits.append(coq_case(e, sh, pf, d, True))
                keep.append(rec)
            if j["bad"]:
                k, w, g = j["bad"][0]
                rep.fail("cron schedule declared as a task label %s" % (
                    "considered due in a minute its expression does not match on the clock shifted by ITS OWN offset" if g > w
                    else "not considered due in a minute its expression matches on the clock shifted by ITS OWN offset") + LS_NOTE,
                    rec, observed=dict(due_per_identity={k2: g2 for k2, _, g2 in j["bad"]},
                                       listed=[{x: o.get(x) for x in ("task_name", "cron", "offtype", "off_us", "off_zone", "args",
                                                                       "kwargs", "delay")} for o in po["listed"]]),
                    expected=dict(due_per_identity={k2: w2 for k2, w2, _ in j["bad"]},
                                  declared=[dict(task=n, cron=l["cron"], off=l["off"], args=l.get("args", []),
                                                 kwargs=l.get("kwargs", {}), due_in_its_own_zone=due) for n, l, due in j["declared"]]),
                    sig=dict(kind="label-polarity", got_more=g > w, in_labelsrc=True))
    bad, fails, _ = C.coq_eval(ctx, label, COQ_HEADER, lits, COQ_BODY)
    rep.corr(label, len(lits), bad, fails, lambda i: keep[i])
    rep.traces += len(lits) - len(bad)
    return bad or fails


def nontrivial(c):
    return c["off"] is not None and any(f[0] != "star" for f in c["expr"])


# --------------------------------------------------------------------------- out-of-grammar streams
def gen_oor(r):
    """numerals outside the field's range (61 in minutes, 7 or 9 as weekday, day 32): pycron never range-checks, so the
    model (which does not either) still predicts the answer; the statement's oracle is NOT applied (7 = Sunday is
    a reading of 'matches' the grammar of the property excludes)"""
    c = gen_case(r)
    e = c["expr"]
    k = r.randrange(5)
    lo, hi = RANGES[k]
    extra = r.choice([["num", hi + r.randint(1, 40)], ["range", r.randint(lo, hi), hi + r.randint(1, 9)],
                      ["rs", r.randint(lo, hi), hi + r.randint(1, 30), r.randint(1, 9)]])
    e[k] = ["items", (e[k][1] if e[k][0] == "items" else []) + [extra]]
    c["expr"], c["cron"], c["mode"] = e, render(e), "oor"
    c.pop("spec", None)
    return c


MALFORMED = ["*/0 * * * *", "* */0 * * *", "0-30/0 * * * *", "* * * * */0", "5,*/0 * * * *", "* * * JAN *", "* * * * MON",
             "* * * * mon-fri", "* * * * 7", "* * * * 5-7", "* * * * 6-1", "60 * * * *", "* 24 * * *", "* * 0 * *",
             "* * * 13 *", "* * * *", "* * * * * *", "*  * * * *", "", "a * * * *", "*/x * * * *", "1-x * * * *",
             "-1 * * * *", "*/-1 * * * *", "1--3 * * * *", "5-1 * * * *", "1.5 * * * *", "* * * * *\n", "@hourly",
             "١ * * * *", "1,,2 * * * *", ", * * * *", "*,5 * * * *", "0x10 * * * *", "+5 * * * *"]


def observe_malformed(ctx, rep):
    """outside the quantifier: recorded, never judged"""
    r = ctx.sub_rng("malformed")
    cases = []
    for s in MALFORMED:
        for _ in range(2):
            cases.append(dict(now=r.randrange(Y2015, Y2035), off=None, cron=s, malformed=True))
    cases.append(dict(now=Y2015, off={"kind": "zone", "zone": "Mars/Olympus"}, cron="* * * * *", malformed=True))
    cases.append(dict(now=Y2015, off={"kind": "zone", "zone": "PT1H"}, cron="* * * * *", malformed=True))
    obs = C.run_driver(ctx, "cron_driver", cases, nproc=2)
    seen = {}
    for c, o in zip(cases, obs):
        if "_crash" in o:
            kind = "driver-crash"
        elif "raised" in o:
            kind = o["raised"] + ("(caught by the loop)" if o["caught_by_loop"] else "(NOT caught by the loop)")
        else:
            kind = "due" if o["delay"] == 0 else "not-due"
        key = c["cron"] if c["off"] is None else "zone=" + c["off"]["zone"]
        seen.setdefault(key, set()).add(kind)
        rep.count("malformed-observed:" + kind.split("(")[0])
    rep.extra["malformed_observations"] = {k: sorted(v) for k, v in sorted(seen.items())}


# --------------------------------------------------------------------------- evaluation
COQ_HEADER = """From Coq Require Import ZArith List Bool. Import ListNotations.
From TQ Require Import SchedDelay Civil Cron.
Open Scope Z_scope.
Definition n := Num. Definition r := Range. Definition q := RangeStep.
Definition X := Star. Definition P := StarStep. Definition I := Items.
Definition feq (a : fields) (b : Z * Z * Z * Z * Z * Z) : bool :=
  let '(mi, h, d, m, w, y) := b in
  (f_minute a =? mi) && (f_hour a =? h) && (f_dom a =? d) && (f_month a =? m) && (f_dow a =? w) && (f_year a =? y)."""
# one case = (expression, offset, shift reported by the oracle reader, now, CPython's fields of the shifted instant,
#             what get_task_delay returned).  judge=false: model = implementation only (out-of-range numerals)
COQ_BODY = """Definition ok (c : expr * offset * Z * Z * (Z * Z * Z * Z * Z * Z) * option Z * bool) : bool :=
  let '(e, off, sh, now, pf, o, judge) := c in
  let tz := fun (_ : nat) (_ : Z) => sh in
  wf_expr e && oeqb (cron_delay tz e off now) o && feq (fields_of (now + shift tz off now)) pf &&
  (negb judge || C13_check e (shift tz off now) now o).
Fixpoint bad (i : nat) (l : list (expr * offset * Z * Z * (Z * Z * Z * Z * Z * Z) * option Z * bool)) : list nat :=
  match l with [] => [] | c :: t => if ok c then bad (S i) t else i :: bad (S i) t end.
Eval vm_compute in bad 0%nat cases."""


def coq_off(off):
    return "NoOffset" if off is None else "(Delta %s)" % C.cz(off["us"]) if off["kind"] == "td" else "(Zone 0%nat)"


def coq_case(c, sh, pf, d, judge):
    return C.cpair(coq_expr(c["expr"]), coq_off(c["off"]), C.cz(sh), C.cz(c["now"]),
                   C.cpair(*[C.cz(v) for v in pf]), "(@None Z)" if d is None else "(Some %s)" % C.cz(d), C.cb(judge))


def branch_counts(rep, c, pf, due):
    e = c["expr"]
    for name, f, v, (lo, hi) in zip(FNAMES, e, pf, RANGES):
        if f[0] == "items":
            for i in f[1]:
                rep.count("model:%s:%s:%s" % (name, i[0], "hit" if item_hit(i, v) else "miss"))
        else:
            rep.count("model:%s:%s:%s" % (name, f[0], "hit" if field_hit(f, v, lo) else "miss"))
    a, b = field_hit(e[2], pf[2], 1), field_hit(e[4], pf[4], 0)
    rule = "or" if e[2][0] == "items" and e[4][0] == "items" else "and"
    rep.count("model:dayrule:%s:dom=%d,dow=%d" % (rule, a, b))


GROUP_NOTE = " [element of a back-to-back group evaluated in one process]"


def flatten(cases, obs):
    """(element, its observation, the case to record when it fails, in a group?) - a group's elements are judged one
    by one; the recorded case is the group up to and including the failing element (what was evaluated before it in the
    same process is part of the input)"""
    out = []
    for c, o in zip(cases, obs):
        if "group" not in c:
            out.append((c, o, c, False))
            continue
        eo = o["group"] if "group" in o else [o] * len(c["group"])
        for k, (e, x) in enumerate(zip(c["group"], eo)):
            out.append((e, x, dict(group=c["group"][:k + 1], at=k, mode="group", **({"objs": c["objs"]} if c.get("objs") else {})),
                        True))
    return out


def group_counts(rep, g, wants):
    """how much one group revisits: (cron string, UTC minute) keys seen under several shifts / with both verdicts,
    (cron string, offset) pairs seen in several minutes"""
    rep.count("group:groups")
    rep.count("group:elements", len(g))
    by_min, by_off = {}, {}
    for e, w in zip(g, wants):
        by_min.setdefault((e["cron"], e["now"] // MIN), []).append((shifted(e["now"], e["off"])[1], e["off"], w))
        by_off.setdefault((e["cron"], C.canon(e["off"])), set()).add(e["now"] // MIN)
    rep.count("group:ticks=%d" % len({e["now"] // MIN for e in g}))
    rep.count("group:offsets=%d" % len({C.canon(e["off"]) for e in g}))
    rep.count("group:cron-strings=%d" % len({e["cron"] for e in g}))
    for v in by_min.values():
        if len({sh for sh, _, _ in v}) > 1:
            rep.count("group:revisit:(cron,minute) under several shifts")
        if len({w for _, _, w in v if w is not None}) > 1:
            rep.count("group:revisit:(cron,minute) due under one offset, not due under another")
        if len({w for _, off, w in v if w is not None and (off is None or off["kind"] == "zone")}) > 1:
            rep.count("group:revisit:(cron,minute) verdict differs between none/zone offsets")
    for v in by_off.values():
        if len(v) > 1:
            rep.count("group:revisit:(cron,offset) in several minutes")


def explore(ctx, rep, cases, label, judge=True):
    obs = C.run_driver(ctx, "cron_driver", cases, nproc=min(C.NPROC, 1 + len(cases) // 250))
    lits, keep = [], []
    wants = {}
    flat = flatten(cases, obs)
    for idx, (c, o, rec, ing) in enumerate(flat):
        note = GROUP_NOTE if ing else ""
        rep.case(c, nontrivial(c))
        off = c["off"]
        rep.count("offset:" + ("none" if off is None else off["kind"]))
        rep.count("mode:" + c["mode"])
        rep.count("host-zone:" + (c.get("hostkind") or "UTC (harness default)"))
        if c.get("host"):
            rep.count("host-zone-string:" + c["host"])
            if "host_off_us" in o:
                rep.count("host-offset:" + ("zero" if o["host_off_us"] == 0 else ("east" if o["host_off_us"] > 0 else "west") +
                                            (" whole hours" if o["host_off_us"] % HOUR == 0 else " with minutes")))
        rep.count("via:" + ("CronSpec.to_cron" if c.get("spec") is not None else "string"))
        rep.count("second-of-minute:" + ("0" if c["now"] % MIN == 0 else "59.999999" if c["now"] % MIN == MIN - 1
                                         else "interior"))
        if "_crash" in o:
            rep.fail("cron driver crashed" + note, rec, observed=o["_crash"])
            continue
        if "raised" in o:
            rep.fail("get_task_delay raised on an expression of the numeric grammar" + note, rec, observed=o,
                     sig=dict(kind="raised"))
            continue
        loc, sh = shifted(c["now"], off)
        pf = pyfields(loc)
        d = o["delay"]
        if off is not None and off["kind"] == "zone":
            rep.count("zone:" + (off["zone"] if off["zone"] in ZONES else "(other common_timezones)"))
            rep.count("tz-readers:" + ("pytz=zoneinfo" if o.get("pytz_off_us") == sh else "pytz!=zoneinfo"))
            if o.get("pytz_off_us") != sh and len(rep.extra.get("tz_reader_disagreements", [])) < 20:
                rep.extra.setdefault("tz_reader_disagreements", []).append(
                    dict(zone=off["zone"], now=c["now"], pytz=o.get("pytz_off_us"), zoneinfo=sh))
        tz_agree = not (off is not None and off["kind"] == "zone") or o.get("pytz_off_us") == sh
        carried = (o["offtype"] == "NoneType") if off is None else (o.get("off_us") == off["us"]) if off["kind"] == "td" \
            else (o.get("off_zone") == off["zone"])
        if not carried:
            rep.fail("ScheduledTask / CronSpec did not carry the cron offset unchanged" + note, rec, observed=o,
                     sig=dict(kind="offset-carried"))
            continue
        want = oracle_due(c["cron"], pf)
        wants[idx] = want
        rep.count("outcome:" + ("due" if d == 0 else "not-due"))
        branch_counts(rep, c, pf, want)
        if o["cron"] != c["cron"]:
            rep.fail("CronSpec.to_cron does not render 'minutes hours days months weekdays'" + note, rec, observed=o["cron"],
                     expected=c["cron"], sig=dict(kind="to_cron"))
            continue
        if o.get("badtype"):
            rep.fail("get_task_delay returned neither 0 nor None for a cron schedule" + note, rec, observed=d)
            continue
        if judge and ((d == 0) != want or d not in (0, None)):
            rep.fail("cron schedule %s in a minute its expression %s" % (
                ("reported due", "does not match") if d == 0 else ("not reported due", "matches")) + note, rec,
                observed=dict(delay=d, cron=o["cron"]),
                expected=dict(due=want, fields_minute_hour_dom_month_dow_year=pf, shift_us=sh),
                sig=dict(kind="polarity", got_due=(d == 0), offset="none" if off is None else off["kind"],
                         pytz_agrees_with_zoneinfo_reader=tz_agree, in_group=ing))
        lits.append(coq_case(c, sh, pf, d, judge))
        keep.append(rec)
    idx = 0
    for c in cases:
        if "group" in c:
            n = len(c["group"])
            group_counts(rep, c["group"], [wants.get(i) for i in range(idx, idx + n)])
            rep.count("group:objects:" + ("one ScheduledTask per schedule, evaluated at every instant" if c.get("objs") == "once"
                                          else "rebuilt for every evaluation"))
            idx += n
        else:
            idx += 1
    bad, fails, _ = C.coq_eval(ctx, label, COQ_HEADER, lits, COQ_BODY)
    rep.corr(label, len(lits), bad, fails, lambda i: keep[i])
    rep.traces += len(lits) - len(bad)
    return bad or fails


def run(ctx):
    rep = C.Report(ctx, META)
    rep.add_obligations(C.proof_obligations("C13"))
    # source tie: get_task_delay is re-translated from the repository's source text and the committed proofs
    # (generated cron branch = Cron.cron_delay; C13 over the generated definition) are re-checked against it
    src_obs, src_info = srctie.obligations(ctx, "sched_run", "C13")
    rep.add_obligations(src_obs)
    rep.extra["source_tie"] = src_info
    corpus = [c for _, c in C.load_corpus("C13")]
    if corpus:
        explore(ctx, rep, [c for c in corpus if "labelsrc" not in c], "corpus")
    r = ctx.sub_rng("gen")
    cases = [gen_case(r) for _ in range(ctx.n(2500, 40000))]
    broken = explore(ctx, rep, cases, "main")
    rg = ctx.sub_rng("groups")
    broken = explore(ctx, rep, [gen_group(rg) for _ in range(ctx.n(160, 2500))], "back-to-back-groups") or broken
    rl = ctx.sub_rng("labelsrc")
    # (the corpus entries of this family run first in the same driver / coqc invocation)
    broken = explore_labels(ctx, rep, [c for c in corpus if "labelsrc" in c] +
                            [gen_labelsrc(rl) for _ in range(ctx.n(70, 1200))], "label-source") or broken
    if ctx.quick:
        sw = gen_sweep(ctx.sub_rng("sweep"), sweep_windows(ctx.sub_rng("windows"))[:8], stride=40)
    else:
        sw = gen_sweep(ctx.sub_rng("sweep"), sweep_windows(ctx.sub_rng("windows")))
        rep.extra["minute_exhaustive_windows"] = len(sw) // (1440 * 8)
    broken = explore(ctx, rep, sw, "sweep") or broken
    az = gen_allzones(ctx.sub_rng("zones"), ctx.n(60, None), ctx.n(4, 12), not ctx.quick)
    rep.extra["zones_covered"] = len({c["off"]["zone"] for c in az}) + len(ZONES)
    broken = explore(ctx, rep, az, "all-zones") or broken
    r3 = ctx.sub_rng("oor")
    broken = explore(ctx, rep, [gen_oor(r3) for _ in range(ctx.n(300, 3000))], "out-of-range-numerals", judge=False) or broken
    observe_malformed(ctx, rep)
    n = rep.dist.get("outcome:due", 0) + rep.dist.get("outcome:not-due", 0)
    rep.extra["due_fraction"] = round(rep.dist.get("outcome:due", 0) / max(1, n), 3)
    if (broken or any(not o["ok"] for o in rep.obligations)) and not rep.failures:
        r2 = ctx.sub_rng("search")
        explore(ctx, rep, [gen_case(r2) for _ in range(ctx.n(30000, 200000))] +
                [gen_group(r2) for _ in range(ctx.n(1500, 10000))], "search")
        if not rep.failures:
            explore_labels(ctx, rep, [gen_labelsrc(r2) for _ in range(ctx.n(600, 4000))], "search-label-source")
    return rep.finish()


def replay(ctx, path):
    rec = json.load(open(path))
    if rec.get("kind") == "obligation-no-longer-checks":
        print("broken obligations:", json.dumps(rec["broken_obligations"], indent=1)[:3000])
        rc = 0
        for m in rec.get("first_differing_cases", []):
            if isinstance(m.get("case"), dict):
                json.dump(dict(case=m["case"]), open(os.path.join(ctx.dir, "one.json"), "w"))
                rc |= replay(ctx, os.path.join(ctx.dir, "one.json"))
        return 1 if rc or not rec.get("first_differing_cases") else rc
    c = rec["case"] if "case" in rec else rec
    if "labelsrc" in c:
        return replay_labelsrc(ctx, c)
    if "group" in c:
        return replay_group(ctx, c)
    o = C.run_driver(ctx, "cron_driver", [c], nproc=1)[0]
    print("case:", json.dumps(c))
    print("implementation:", o)
    if c.get("host"):
        print("host time zone of the scheduler process (TZ): %s; its naive local clock now() reads %s - the statement does "
              "not depend on it" % (c["host"], o.get("local_now")))
    if "_crash" in o or "raised" in o:
        print("VIOLATED (raised)")
        return 1
    loc, sh = shifted(c["now"], c["off"])
    pf = pyfields(loc)
    want = oracle_due(c["cron"], pf)
    print("wall clock the expression is read on: %s (shift %d us), fields minute,hour,dom,month,dow,year = %r" % (
        loc.isoformat(), sh, pf))
    print("statement: due <-> expression matches that minute: expected %s, got %s" % (
        "due (0)" if want else "not due (None)", o["delay"]))
    model_ok = True
    if c.get("expr") is not None:
        bad, fails, _ = C.coq_eval(ctx, "replay", COQ_HEADER, [coq_case(c, sh, pf, o["delay"], True)], COQ_BODY)
        print("model (Coq, cron_delay = implementation and C13_check):", "agrees" if not bad and not fails else
              "DIFFERS " + "; ".join(fails))
        model_ok = not bad and not fails
    ok = (o["delay"] == 0) == want and o["delay"] in (0, None) and o["cron"] == c["cron"]
    print("holds" if ok else "VIOLATED")
    return 0 if ok and model_ok else 1


def replay_group(ctx, g):
    """the whole group again in one fresh process, every element judged on its own"""
    o = C.run_driver(ctx, "cron_driver", [dict(group=g["group"], **({"objs": g["objs"]} if g.get("objs") else {}))], nproc=1)[0]
    obs = o["group"] if "group" in o else [o] * len(g["group"])
    print("back-to-back group of %d evaluations in one process%s%s" % (
        len(obs), "" if g.get("at") is None else " (recorded failing element: %d)" % g["at"],
        "; one ScheduledTask object per distinct schedule, evaluated at every instant" if g.get("objs") == "once" else ""))
    rc, lits = 0, []
    for k, (c, x) in enumerate(zip(g["group"], obs)):
        if "_crash" in x or "raised" in x:
            print("[%d] %s: VIOLATED (raised) %s" % (k, json.dumps(dict(now=c["now"], off=c["off"], cron=c["cron"])), x))
            rc = 1
            continue
        loc, sh = shifted(c["now"], c["off"])
        pf = pyfields(loc)
        want = oracle_due(c["cron"], pf)
        ok = (x["delay"] == 0) == want and x["delay"] in (0, None) and x["cron"] == c["cron"]
        print("[%d] now=%d (%s UTC)%s off=%s cron=%r: wall clock %s, expected %s, got %s: %s" % (
            k, c["now"], (EP + dt.timedelta(microseconds=c["now"])).strftime("%Y-%m-%dT%H:%M:%S.%f"),
            "" if not c.get("host") else " host TZ=%s (local clock %s)" % (c["host"], x.get("local_now")), json.dumps(c["off"]),
            c["cron"], loc.isoformat(), "due (0)" if want else "not due (None)", x["delay"], "holds" if ok else "VIOLATED"))
        rc |= 0 if ok else 1
        if c.get("expr") is not None and not x.get("badtype"):
            lits.append(coq_case(c, sh, pf, x["delay"], True))
    if lits:
        bad, fails, _ = C.coq_eval(ctx, "replay", COQ_HEADER, lits, COQ_BODY)
        print("model (Coq, cron_delay = implementation and C13_check, element-wise):", "agrees" if not bad and not fails else
              "DIFFERS at %r %s" % (bad, "; ".join(fails)))
        rc |= 1 if bad or fails else 0
    print("holds" if rc == 0 else "VIOLATED")
    return rc


def replay_labelsrc(ctx, c):
    """the declared labels again on a fresh broker / source in a fresh process, every poll judged"""
    L = c["labelsrc"]
    O = C.run_driver(ctx, "cron_driver", [dict(labelsrc=L)], nproc=1)[0]
    print("schedules declared as task labels, listed by the real LabelScheduleSource.get_schedules() (source object built %s "
          "the tasks are registered), every listed ScheduledTask evaluated by get_task_delay; %d poll(s)%s" % (
              "before" if L.get("src_first") else "after", len(L["polls"]),
              "" if c.get("at") is None else " (recorded failing poll: %d)" % c["at"]))
    if L.get("host"):
        print("host time zone of the scheduler process (TZ): %s - the statement does not depend on it" % L["host"])
    for t in L["tasks"]:
        print("task %r (%s%s): schedule = [" % (t["name"], t.get("decl", "register"),
                                               "" if not t.get("extra") else ", other labels %r" % t["extra"]))
        for l in t["schedule"]:
            print("    %s%s," % (json.dumps({k: v for k, v in l.items() if k not in ("expr", "emode", "same")}),
                               "" if "same" not in l else "   # the same dict object as entry %d" % l["same"]))
        print("]")
    if "_crash" in O:
        print("VIOLATED (driver crashed): %s" % O["_crash"])
        return 1
    rc, lits = 0, []
    for pi, (p, po, j) in enumerate(zip(L["polls"], O["polls"], judge_labelsrc(L, O))):
        print("poll %d: now=%d (%s UTC)%s%s" % (
            pi, p["now"], (EP + dt.timedelta(microseconds=p["now"])).strftime("%Y-%m-%dT%H:%M:%S.%f"),
            "" if p.get("relist", True) or pi == 0 else " - NOT listed again: the objects of the previous listing are evaluated",
            " - new source object" if p.get("newsrc") else ""))
        if "crash" in j:
            print("  VIOLATED (listing raised): %s" % j["crash"])
            rc = 1
            continue
        for name, l, due in j["declared"]:
            print("  declared: task=%s cron=%r off=%s args=%s kwargs=%s: wall clock in ITS zone %s -> %s" % (
                name, l["cron"], json.dumps(l["off"]), json.dumps(l.get("args", [])), json.dumps(l.get("kwargs", {})),
                shifted(p["now"], l["off"])[0].isoformat(), "due" if due else "not due"))
        for o in po["listed"]:
            print("  listed:   task=%s cron=%r cron_offset=%s args=%s kwargs=%s%s -> get_task_delay: %s" % (
                o.get("task_name"), o.get("cron"), o.get("off_zone", o.get("off_us")), json.dumps(o.get("args")),
                json.dumps(o.get("kwargs")), "" if "time_us" not in o else " time=%d" % o["time_us"],
                o.get("raised") or o.get("delay")))
        for o in j["raised"]:
            print("  VIOLATED (raised): %s" % o)
            rc = 1
        for e, o, w in j["elements"]:
            if w is not None and (o["delay"] == 0) != w:
                print("  VIOLATED: listed schedule %r with offset %s: expected %s, got %s" % (
                    o["cron"], json.dumps(e["off"]), "due (0)" if w else "not due (None)", o["delay"]))
                rc = 1
            if w is not None and e["expr"] is not None and not o.get("badtype"):
                loc, sh = shifted(e["now"], e["off"])
                lits.append(coq_case(e, sh, pyfields(loc), o["delay"], True))
        for k, w, g in j["bad"]:
            print("  VIOLATED: schedules of [task, args, kwargs] = %s: %d declared label(s) match this minute in their own zone, "
                  "%d listed schedule(s) considered due" % (k, w, g))
            rc = 1
        if not j["bad"] and not j["raised"]:
            print("  every declared cron label is considered due exactly if it matches: holds")
    if lits:
        bad, fails, _ = C.coq_eval(ctx, "replay", COQ_HEADER, lits, COQ_BODY)
        print("model (Coq, cron_delay = implementation and C13_check, per listed schedule with the offset it carries):",
              "agrees" if not bad and not fails else "DIFFERS at %r %s" % (bad, "; ".join(fails)))
        rc |= 1 if bad or fails else 0
    print("holds" if rc == 0 else "VIOLATED")
    return rc
